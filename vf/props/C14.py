"""C14 - events resolve their keys through the documented chains and play as
correctly timed server commands.

Four monitors (round 8: two more shard kinds, `fault` and `control`, on the
play / timeline oracles; round 9: key sets in every pattern workload and
player control over mono lines - see the end), all NRT, all against the reference
model vf/model_events.py
(written from the SuperCollider Event / Scale / pattern documentation, no sc3
import) and the independent OSC decoder vf/osc.py:

  chain     event(key) look-ups (midinote, freq, note, amp, delta, sustain) of
            random explicit key sets vs. the documented chains, rel. tol. 1e-9.
  scale     Scale(degrees, Tuning(values, ratio)).degree_to_key and the tuning
            attributes the chain needs, vs. the Scale help-file formula
            (compared as fractions of an octave, so the unit of a "step" does
            not matter).
  play      programs that play 1-5 events (event.play / play(dict) / play(**kw))
            from the main thread or from routines on SystemClock / TempoClock(1)
            with server latency in {0 .. 1}: decoded `.raw` score and `.list`
            score vs. expected /s_new and gate-off bundles.  A third of the
            programs are multi-step histories on event objects: play, edit
            (set / add / delete keys, change instrument), play again, copy() +
            edit + play; every play must carry the object's current values.
  (timeline also: the same pattern OBJECT embedded or played more than once -
            after a Pdur cut, after a complete run, concurrently in one Ppar or
            by overlapping players, after a stopped player - each embedding
            must give the timeline of a fresh equal pattern, shifted.)
  timeline  Pbind/Pmono/Ppar/Pchain/Pdur/Pdelta compositions played by
            Pattern.play: every expected event at start + sum of previous
            deltas (+ latency), rests silent, Pmono set/release traffic, total
            duration (logical time at which the player ended).

Every instrument carries a `tag` control and every event a unique tag, so each
bundle of a score is attributed to exactly one expected event.

Classes of behaviour added in round 7 (each was a blind spot of the workload):

  histories with reads   an event object is LOOKED UP (event(key)), changed
            and looked up / played again.  The statement's "keys resolve
            through their chains ... explicitly given keys taking precedence"
            holds for the keys the object defines at the moment of the
            look-up, however they got there: the chain monitor runs 1-4 edits
            on 35 % of its events, each by one of the mapping mutators
            (e[k] = v, del e[k], update(dict | **kw | pairs), |=, pop,
            pop(k, default), popitem, setdefault, clear, clear + update) or
            by deriving a new object (copy(), copy.copy, event(e),
            event(e, **kw), event(e | d), event(**e), type(e)(e)) which is
            edited in turn while its source is re-checked; all decided keys are
            looked up after every step and compared with the model of the
            current key set (me.apply_mutation: Python's mapping semantics).
            The play histories vary the mutator the same way, look the object
            up before the edit and between the edit and the play, and make
            copies by the four copying constructors.  A wrong value that is
            right for an earlier key set of the object gets the key
            .../value-of-earlier-key-set-returned/after-<class of mutator>.
  Rest objects in every key   "a rest played by an event stream sends nothing"
            (Rest help: a Rest as the value of ANY key): the timeline
            generator puts Rest objects into every numeric column - amp, db,
            pan, instrument controls, keys no instrument has, legato, stretch,
            sustain, detune, harmonic, the transpositions, octave - of Pbind
            and Pmono lines and of the left operand of Pchain, also as a
            constant ('pan': Rest()), also ONLY there (no Rest in dur / pitch
            source keys), and into the player's prototype event.  Such a rest
            must be silent, keep its delta, and must not end the player or a
            sibling of a Ppar (.../rest-is-played/rest-object-in-...).
            Rest objects in `delta` are generated as well (a rest alone and
            below Pdur, so also below Ppar: .../ppar-child-rest-by-rest-valued-
            delta-is-played).
Classes of behaviour added in round 8:

  an error path followed by continued use (shard kind `fault`)   a play()
            that FAILS half way - while the pitch chain is resolved, while the
            control list is built, in the message encoder, in the bundle
            builder, after the list was stored (add action, group, server),
            after the /s_new was sent (gate-off) - for every kind of failure a
            user can cause through the keys of the event (c14_gen.fault_edit:
            functions of a missing key, raising functions, values the encoder
            refuses, ints beyond 32 bit, unknown add action, unusable group /
            server / synth_lib objects, non-numbers in the pitch chain, a bad
            db on the default parameter list), as the object's first play or
            after sound plays, once or several times in a row; then the SAME
            object (or a copy made while it was broken) is repaired by one of
            the mutators, usually edited elsewhere as well, looked up and
            played.  What a play of a broken event sends is not decided (its
            traffic is attributed by its tag and tolerated); every play of an
            event whose keys are numbers again must send what a fresh event
            with these keys sends, and the look-ups after the repair resolve
            from the user's keys.  The key names what the failed play left in
            the object: C14/play-after-failed-play/failed-play-altered-key/<k>
            (a chain key the user never gave, or a changed one),
            .../event-keeps-control-list-of-the-failed-play, else
            .../differs/<what>.
  players beside a failing event (`control` shard, form pattern-fault)   the
            k-th event of a pattern fails while a player plays it; other
            players on the same pattern objects and the same prototype event
            object - running at the same time, started later, the failing
            pattern again - and the events before the failure must be as
            usual (C14/players-beside-a-failing-event/...).
  player control (`control` shard)   one EventStreamPlayer under a history of
            mute / unmute / pause / resume / play / reset / stop / reset +
            play / play(reset=True) calls, on every clock: "plays event k at
            its start time plus the sum of the preceding deltas" with the sum
            starting again where the player is resumed or restarted
            (me.controlled); a muted player sends nothing and keeps time;
            calls without effect (resume / play of a player that is not
            paused, pause twice ...) change nothing
            (C14/player-control/after-<last call that moves the time
            line>/<time-line-differs | muted-event-played | message-content-
            differs>; a difference that disappears when the same history runs
            on SystemClock: .../on-a-tempo-clock-only/...).
  entry points no workload entered (`control` shard, form entry)   Pkey
            columns (also Pkey * a + b, finite length, Rest valued sources),
            Pevent (dict or event object, nested), Pchain built by .chain()
            and with three operands - inside the ordinary compositions
            (C14/timeline-entry/<which>/...: the entry point without which
            the case passes - Pkey columns written out, Pchain built by the
            constructor - else Pevent); the db and velocity look-ups of
            AmplitudeKeys in the chain monitor.
Classes of behaviour added in round 9:

  key sets (argument shape)   a TUPLE as key of a Pbind / Pmono mapping whose
            value pattern yields one list (or tuple) per event that is spread
            over the keys (Pbind help: multi-key assignment): lists as long
            as the key set and LONGER ones (legal: the surplus is ignored),
            key sets of 1-3 keys over any columns (instrument, tag, timing,
            pitch, amplitude, controls, Rest objects, None / inf deltas),
            constant rows, placed first / between / after plain keys, one or
            two per mapping, in Pbind, Pmono, PmonoArtic and the left operand
            of a Pchain - in EVERY workload that plays patterns (timeline,
            re-use, special, control, entry, pattern faults: c14_gen.
            with_key_sets rewrites 25-30 % of the cases, the rows of the
            pattern stay what they were by construction, so the oracle is the
            unchanged timeline model).  A difference that disappears when the
            surplus values are removed / the key sets are written out as
            plain keys gets C14/key-set/<value-list-longer-than-the-key-set |
            one-value-per-key>/<time-line-differs | message-content-differs |
            ...> (.../key-set-raises/... for exceptions).  A list that is too
            SHORT (or no list) is an error path: not decided from that row on
            (SuperCollider ends the stream, this library plays what the keys
            before the key set give) - generated as a pattern fault
            (`short-key-set`): rows before it and players beside it as usual.
            A stream that never ends (a Pbind that lost the column that ends
            it) is cut short by the harness (c14_run._bounded) and reported
            as .../player-still-running-long-after-its-end.
  player control over mono lines (histories)   stop / reset / pause / resume /
            play / reset + play / play(reset=True) on players of Pmono and
            PmonoArtic lines (alone, before / after a Pbind, two lines, Pn,
            below Pdelta / Pdur) called WHILE THE NODE OF A LINE IS ALIVE,
            also after an event of the line FAILED in play() and left the
            player dead with the node alive (stop and / or restart follow,
            the pattern repaired in between or not): every run of the stream
            creates its nodes anew, every node is set by its line's later
            events and released EXACTLY ONCE (me.controlled_voices: by its
            pattern, by stop(), not before the reset that ends its run, not
            before the failure) - C14/player-control-mono/node-released-
            twice/at-<reset | stop | no-call>, .../<after-call>/node-never-
            released | node-released-at-wrong-time | mono-set-... | time-
            line-differs.  The stop-replay re-use histories of the timeline
            monitor restart the SAME player (reset() + play(), play(reset=
            True)) two times out of three, over any composition (Ppar /
            Pdur / Pchain over mono lines): C14/timeline-object-reuse/same-
            player-restarted-after-stop/<node-released-twice | ...>.
Classes of behaviour added in round 10:

  minimal pitch key sets (input class)   "pitch ... keys resolve through their
            documented chains (degree, scale, transpositions and octave to
            midinote to freq with harmonic and detune)" for an event that
            gives ONE input key of the chain and nothing else of it - each of
            degree, mtranspose, gtranspose, root, octave, scale, ctranspose,
            harmonic, detune, note, midinote, freq alone, and every pair /
            triple (c14_gen.minimal_pitch_keys, values that are not the
            key's neutral value) - in the chain monitor (a quarter of the
            events, look-ups), the play monitor (a fifth of the events, on
            instruments with a freq control: the detuned freq of the /s_new)
            and the timeline monitor (special case pitch-alone: Pbind / Pmono
            lines whose only pitch columns are 1-3 of these keys, `scale`
            columns of scale objects included, alone / in a Ppar / right or
            left operand of a Pchain).  Scales and tunings that do NOT START
            AT 0 (c14_gen.shifted_scale_spec: degrees that start above key 0,
            tunings whose first value is not 0 semitones, both, octave ratio
            2 or not) in every workload that draws a scale (chain, scale,
            play, histories): with them the default degree is not the default
            note, so a scale given alone moves the pitch.  A value that is
            what the model gives WITHOUT one of the (at most three) input
            keys: C14/pitch-input-key-ignored/<key>/given-<alone | with-other-
            pitch-keys>.
  a Pchain that ends by its LEFT operand, inside a sequence (special case
            chain-in-sequence, found by the derived-object histories: there a
            left operand may be shorter than the right one)   Pseq([Pchain(
            short, long), next]) / Pn(Pchain(short, long), n): the pattern
            that follows is a fresh embedding that starts from the player's
            prototype event - this library hands it the event the chain had
            begun (C14/timeline/pchain-ended-by-a-left-operand-hands-its-
            unfinished-event-to-the-next-pattern-of-a-sequence, genuine:
            proposed_fixes/C14-pchain-returns-unfinished-event.md).
  derived pattern objects (histories on two objects, vf/c14_derive.py)   a
            pattern object `a` is built, another one is derived from it by
            every route event patterns offer - a.chain(x), type(a)(*a.
            patterns, x) (Pchain, Ppar), copy.copy / copy.deepcopy (and
            .chain(x) of the copy), Pbind({**a.dict, **extra}) / Pbind(a.dict
            | extra), an object made by the constructor from a's parts whose
            OWN mapping / list is then edited (Pbind(a.dict) + dict.update,
            type(a)(*a.patterns) + patterns.append), the wrapping constructors Pdur / Pdelta / Pn / Ppar /
            Pseq / Pchain(x, a) / Pchain(a).chain(x), a stream of `a` that is
            partly consumed; optionally a second derivation from `a` or from
            the derived object - x defining keys `a` does not (stretch,
            ctranspose, legato, detune, amp, controls ...).  Then BOTH are
            played (derived first / original first / original before and
            after the derivation / mixed; one after the other or overlapping,
            also derived while the original plays) and every play is judged
            against the timeline of what the played object's OWN construction
            says: C14/derived-pattern-object/<original-altered-by | derived-
            object-differs>/<route>/<time-line-differs | message-content-
            differs ...> (the route is found by adding the derivations one at
            a time, playing the original alone first).
"""

import itertools
import re

from vf.common import iter_cases, case_rng, h64, split, short_tb, tb_sites

LEVEL = 'exploration'
RULE = ("seeded random cases. chain: explicit key sets over the pitch "
        "(degree/note/midinote/freq sources with mtranspose, gtranspose, root, "
        "octave, ctranspose, harmonic, detune, scales of 4 tuning kinds), "
        "amplitude (amp/db/velocity) and duration (dur/stretch/legato/sustain/"
        "delta) keys, int and float values; non-trivial = at least two keys of "
        "one chain or a precedence conflict. play: 1-5 events on 8 on-the-fly "
        "instruments (half with gate) at routine times, 8 latencies; a third of "
        "the programs are histories on event objects (play, set/add/delete "
        "keys or change the instrument, play again; copy() + edits, play), each "
        "play checked against the keys the object defines at that moment; "
        "non-trivial = gate and gateless instruments or non-zero latency/start "
        "or a replayed object. timeline: "
        "compositions of depth <= 3 over Pseq/Pser/Pseries columns; non-trivial "
        "= at least one combinator or a rest; 30% of the timeline cases re-use "
        "one pattern object (Pseq([Pdur(d, x), x]), Pn(Pdur(d, x), n), "
        "Ppar(x, Pdelta(t, x)), overlapping players, play/stop/play). "
        "chain histories (35% of the chain cases): 1-4 edits by one of 12 "
        "mapping mutators or 7 ways of deriving a new object, all decided keys "
        "looked up after each; play histories: 8 mutators, look-ups before / "
        "after the edit, 4 copying constructors; timeline: Rest objects in "
        "any numeric column (scope any / usual keys only / other keys only), "
        "constant Rests, Rest in the prototype event. "
        "fault: 3-7 step histories on event objects with failing plays (12 "
        "kinds of fault through the user's keys, first play or later, "
        "repeated), repair by 8 mutators / on copies, look-ups after the "
        "repair; control: one player under 1-8 control calls at times that "
        "never coincide with a wake-up (5 families, 3 clocks), compositions "
        "with Pkey / Pevent / Pchain.chain, players beside a pattern whose "
        "k-th event fails; chain: db and velocity looked up for every "
        "event. "
        "round 9: 25-30% of all pattern cases carry key sets (tuple keys, "
        "1-3 keys, rows as long as the key set or 1-2 values longer, list / "
        "tuple rows, constant rows, 1-2 key sets per mapping); short rows as "
        "pattern faults; mono-control: players of Pmono / PmonoArtic lines "
        "(7 shapes) under 1-8 control calls without mute, 40% with a failing "
        "element (repair before the restart 70%); stop-replay re-use: same "
        "player restarted 2 of 3. "
        "round 10: chain - 25% of the events carry a minimal pitch key set "
        "(1 key 55%, 2 keys 35%, 3 keys: each of the 12 input keys of the "
        "pitch chain alone and in small combinations, non-neutral values); "
        "scales of 8 kinds, 3 of them shifted (degree 0 is not key 0 / first "
        "tuning value not 0); play - 20% of the events of plain programs "
        "carry such a key set on an instrument with a freq control; timeline "
        "- 4% pitch-alone lines (Pbind / Pmono, 5 shapes, scale columns), 9% "
        "derived-object histories (9 kinds of base object, 20 routes of "
        "derivation, 1-2 derivations, 4 orders of 2-6 plays, sequential or "
        "overlapping at offsets of 3k/1024). "
        "Distinct = hash of the spec. "
        "Kept out (audit 2026-09-26, each justified in AUDIT below): harmonic "
        "!= 1 with an explicit freq, db with velocity without amp, arrayed "
        "values, function values (but as faults and as repaired functions in "
        "the fault histories), negative durations, override keys "
        "(send_gate, has_gate, msg_params, gate), unimplemented keys (latency, "
        "lag, timing_offset, strum), event types other than note and rest, "
        "direct play of a rest, rests in an articulated Pmono, a Pmono "
        "chained with a parallel stream, timing "
        "keys in the left operand of a Pchain over Pdelta/Ppar, quant != 0")
AUDIT = """accommodation | justified by | status
fractional degrees, ctranspose with degree, gtranspose/root/note with any
  tuning, n-step tunings of ratio != 2, bare modifiers, Pmono rests (also
  leading), zero dur, off-grid Pdur, type 'rest', delta None, dur inf,
  undescribed instrument, replay with any pitch keys / variant:
  formerly kept out - now generated (documented chains / Rest help / Event help)
harmonic with explicit freq | statement silent, two documented readings | kept out
db + velocity without amp   | no documented precedence                  | kept out
controls the event does not set explicitly: may be sent with the default
  chain value or not at all | 'that the event defines' is ambiguous      | tolerated
release of a Pmono cut by Pdur: only 'not before the cut' | statement
  silent about Pmono release; SuperCollider releases at the cut          | tolerated
simultaneous events: order free | statement silent                      | tolerated
node ids fresh per score, not per process | a reset starts a new server  | tolerated
Rest object in `delta` (Pbind column): generated; below a Ppar the Rest is
  replaced by a number and the event plays - genuine, one key
  (proposed_fixes/C14-ppar-drops-rest-valued-delta.md)                   | reported
played event objects: no popitem / clear without re-adding the keys | play()
  stores server, group, msg_params, is_playing ... in the object; removing
  those is an override-key case (kept out above)                         | kept out
stopped player: last wake-up bounded by its next element | NRT leaves the
  pending wake-up of a stopped routine in the queue (harmless)          | bounded
round 8:
traffic of a play of a broken event (a key play() cannot resolve / encode):
  at most one /s_new with its tag and the gate-off of that node | the
  statement speaks of events with numeric keys                           | tolerated
a player from its failing event on: traffic with the tags of the later
  events, end between the failure and the end of the pattern | statement
  silent (this library ends the player)                                  | tolerated
function valued keys: only as fault / as `lambda e: e[k] * a + b` of a key
  the user gives on repair (Event help: called with the event)           | generated
velocity look-up without a velocity key: within one MIDI step of 127 amp |
  the rounding of a velocity is not documented                           | tolerated
control calls: quant 0 always (the default grid of a tempo clock is the
  quant != 0 case); resume / reset / pause never AT a wake-up; stop only
  followed by reset + play; play() of a player that was reset while
  playing (starts at once, documented nowhere) | statement silent        | kept out
pause / resume / reset histories: sequential patterns without Pmono only
  (the wake-ups of a Ppar between its events are not modelled; a muted
  Pmono start is not defined); mute / unmute: any pattern without Pmono   | kept out
Pkey: source key set by the same Pbind earlier in the mapping (a key of the
  prototype / of a chained pattern ends the stream in this library,
  SuperCollider finds it - the statement does not speak of Pkey)         | kept out
Pevent: no timing keys in its event (Event.silent stretches by them)     | kept out
failed first play leaves its control list: genuine
  (proposed_fixes/C14-failed-first-play-keeps-control-list.md)           | reported
reset of a playing player on a TempoClock forgets the clock: genuine
  (proposed_fixes/C14-reset-while-playing-forgets-clock.md)              | reported
round 9:
key set with FEWER values than keys (or no list): what follows in that
  stream | SuperCollider ends the stream, this library plays a partial
  event; the statement is silent                                         | tolerated
release of a mono node by reset / reset + play: 'not before the call' |
  statement silent (this library releases at the call)                   | bounded
mono node alive when its line's event failed: released once, not before the
  failure; never when no call follows | nobody is asked to release it     | bounded
release registered for a node whose creating event failed (one per dead
  run) | the failing play's own business                                 | tolerated
mono lines under control: no mute, sequential compositions, no rests in the
  first row | a muted start / a leading rest of a mono line is not defined | kept out
same player restarted on ANOTHER clock object while its wake-up on the old
  clock is pending (it is then woken by both) | the clocks' business       | kept out
reset() raises TypeError when a Pmono follows in a Pseq / Pn: genuine
  (proposed_fixes/C14-reset-runs-next-pattern-of-sequence.md)            | reported
round 10:
Pchain ended by a left operand inside a Pseq / Pn hands the event it had
  begun to the next pattern: genuine
  (proposed_fixes/C14-pchain-returns-unfinished-event.md)                | reported
a control the event gives no value for but whose chain value is not the
  default because of a scale / octave / root / transposition alone (freq):
  if it is sent it must be the chain's value; not sending it | 'that the
  event defines' is ambiguous (this library always sends it)             | tolerated
derived objects: only the mapping / pattern list of an object the
  CONSTRUCTOR made is edited in place (Pbind(a.dict), type(a)(*a.patterns));
  b.patterns.append(x) after copy.copy(a) is the user's own aliasing of a
  shallow copy; extras define only keys the base does
  not; no ctranspose over fractional degrees; mono lines are not chained and
  their streams not consumed outside a player (the end of a consumed mono
  stream releases a node nobody created)                                 | kept out
"""
ASSUMPTIONS = [
    "vf/model_events.py is the meaning of 'documented chains' and of the "
    "combinators (SuperCollider Event / Pattern Guide 07 / Scale / Ppar / "
    "Pfindur / Pchain / Pmono help)",
    "vf/osc.py decodes the raw score (OSC 1.0); float32 read-back tolerance is "
    "one float32 ulp + 1e-9 relative",
    "times: 1e-9 relative + 2^-31 s (timetag resolution); grid durations "
    "(multiples of 1/16) are exact, off-grid cases contain no Pdur",
    "exceptions inside scheduled players are observed through the "
    "sc3.base.clock logger",
    "fault histories: the keys an event object holds after a failed play "
    "(chain keys the user never gave, msg_params without is_playing) are "
    "read for the NAME of the mechanism only; the verdict is the traffic "
    "/ look-up difference against vf/model_events.py",
    "key sets: the rows of a Pbind with key sets are the rows of the same "
    "Pbind with the keys written out (vf/model_events.py _bind_events: value "
    "j to key j, surplus dropped - Pbind help)",
    "mono lines under control: vf/model_events.py controlled_voices() is the "
    "meaning of 'every node is released exactly once'; the NRT scheduler is "
    "cut short (observation only) when its next wake-up lies beyond twice "
    "the model's duration of the case plus 60 s",
    "derived objects (vf/c14_derive.py): an object made by chain / from the "
    "parts of a Pchain or Ppar / from the mapping of a Pbind / by a wrapping "
    "constructor denotes the pattern spec of that construction (Pchain help: "
    "the operands further left override), a copy denotes what its source "
    "denotes; all event times lie on the 1/32 grid, play k starts 3k/1024 "
    "after a grid time, so events of different plays never coincide and are "
    "attributed by tag and time",
    "minimal pitch key sets: the non-neutral values of c14_gen.PITCH_INPUTS; "
    "shifted scales follow the Scale / Tuning help formula of "
    "vf/model_events.py degree_to_semitones (tuning[degrees[d mod size]])",
    "player control: vf/model_events.py controlled() is the meaning of "
    "pause / resume / reset / mute (PauseStream / EventStreamPlayer help); "
    "all deltas are multiples of 1/64, control calls lie at odd multiples "
    "of 1/1024 (exact in binary floats)",
]
# monitors added in round 7 (histories with every dict method / derived
# objects; Rest objects in every key): quick minimum, thorough = 15 x
_NEW_MIN = {
    'chain_history_lookups_compared': 50000,
    'chain_history_edits_changing_a_resolved_value': 5000,
    'chain_history_source_rechecked': 2000,
    **{f'chain_history_after_{m}': 400 for m in (
        'setitem', 'delitem', 'update-dict', 'update-kw', 'update-pairs',
        'ior', 'pop', 'pop-default', 'popitem', 'setdefault', 'clear',
        'clear-update')},
    **{f'chain_history_after_{m}': 200 for m in (
        'copy', 'copy.copy', 'event(e)', 'event(e,**kw)', 'event(e|d)',
        'type(e)(e)', 'event(**e)')},
    'play_history_lookups_compared': 5000,
    'play_history_lookups_before_edit': 1500,
    **{f'play_history_edit_{m}': 300 for m in (
        'update/pop', 'setitem', 'update-kw', 'update-pairs', 'ior',
        'setdefault', 'clear-update')},
    **{f'play_history_copy_{m}': 200 for m in (
        'copy', 'copy.copy', 'event(e)', 'type(e)(e)')},
    'tl_rests_only_by_other_than_dur_or_pitch_key': 500,
    'tl_notes_after_such_a_rest_checked': 500,
    'tl_rests_with_rest_object_in_amplitude_key': 100,
    'tl_rests_with_rest_object_in_control_key': 300,
    'tl_rests_with_rest_object_in_pitch-modifier_key': 100,
    'tl_rests_with_rest_object_in_timing-modifier_key': 100,
    'tl_rests_with_rest_object_in_dur-or-pitch-source_key': 500,
    'tl_rest_in_prototype_event_cases': 20,
}
# monitors added in round 8 (failed plays followed by continued use; player
# control; Pkey / Pevent / Pchain.chain; db / velocity look-ups; players
# beside a failing event): quick minimum, thorough = 15 x
_NEW_MIN8 = {
    'fault_plays_raised': 1500,
    'fault_first_play_of_the_object_raised': 500,
    'fault_raised_in_control-list': 600,
    'fault_raised_in_message-encoder': 300,
    'fault_raised_in_bundle-builder': 100,
    'fault_raised_in_pitch-chain': 200,
    'fault_raised_in_after-the-control-list': 250,
    **{f'fault_kind_raised_{k}': v for k, v in (
        ('fn-missing-key', 300), ('fn-raises', 200), ('unencodable', 200),
        ('too-big', 100), ('bad-add-action', 150), ('bad-group', 70),
        ('bad-server', 70), ('bad-synth-lib', 70), ('bad-pitch', 200),
        ('bad-db', 20), ('fn-chain-key', 10))},
    'fault_plays_after_a_play_that_raised_checked': 1500,
    'fault_plays_after_several_failed_plays_checked': 400,
    'fault_plays_of_a_copy_of_a_failed_object_checked': 200,
    'fault_lookups_after_repair_compared': 4000,
    'control_cases_ok': 600,
    'control_events_after_resume_or_restart_checked': 1200,
    'control_muted_events_silent': 250,
    'control_restarts_checked': 600,
    **{f'control_{k}_with_effect': v for k, v in (
        ('pause', 250), ('resume', 150), ('play', 70), ('reset', 250),
        ('reset-play', 150), ('play-reset', 200), ('stop', 100),
        ('mute', 130), ('unmute', 50))},
    'control_clock_tempo': 180, 'control_clock_system': 180,
    'control_clock_default': 180,
    'entry_cases_ok': 300, 'entry_pkey': 250, 'entry_pevent': 250,
    'entry_pchain-chain': 80, 'entry_pchain-flat': 8,
    'pattern_fault_cases_ok': 120,
    'pattern_fault_players_that_raised': 200,
    'pattern_fault_kind_unencodable': 50,
    'pattern_fault_kind_bad-add-action': 25,
    'pattern_fault_kind_bad-pitch': 25, 'pattern_fault_kind_too-big': 15,
    'chain_db_velocity_lookups_compared': 50000,
    'chain_db_from_amp': 3000, 'chain_db_from_velocity': 1500,
    'chain_velocity_from_amp': 3000, 'chain_velocity_from_db': 1500,
}
# monitors added in round 9 (key sets; player control over mono lines; the
# same player restarted): quick minimum (about a fifth of an undisturbed quick
# run: the host is shared), thorough = 15 x
_NEW_MIN9 = {
    'keyset_sets': 2000, 'keyset_surplus': 4000, 'keyset_equal': 3000,
    'keyset_cases_with_surplus_values_ok': 800, 'keyset_constant': 300,
    'keyset_between': 1000, 'keyset_first': 500, 'keyset_last': 150,
    'keyset_size1': 300, 'keyset_size2': 900, 'keyset_size3': 600,
    'keyset_in_pbind': 1200, 'keyset_in_pmono': 200,
    'keyset_in_pmono_artic': 20, 'keyset_in_pchain_left': 100,
    'keyset_short_rows_too-few-values': 60, 'keyset_short_rows_no-list': 30,
    'pattern_fault_kind_short-key-set': 100,
    'tl_cases_with_key_sets_ok': 1000, 'control_cases_with_key_sets_ok': 150,
    'entry_cases_with_key_sets_ok': 120,
    'mono_control_cases_with_key_sets_ok': 50,
    'mono_control_cases_ok': 500,
    'mono_control_nodes_released_exactly_once': 1000,
    'mono_mono_set_checked': 1200,
    **{f'mono_control_node_released_by_{k}': v for k, v in (
        ('stop', 80), ('reset', 100), ('reset-play', 80), ('play-reset', 120),
        ('end-of-pattern', 300), ('scheduled', 80), ('pdur-cut', 40),
        ('call-after-failed-event', 60))},
    **{f'mono_control_{k}_with_a_node_alive': v for k, v in (
        ('stop', 100), ('reset', 100), ('reset-play', 100),
        ('play-reset', 120), ('pause', 250), ('resume', 150))},
    'mono_control_runs_that_died_of_a_failing_event': 250,
    'mono_control_repaired_and_restarted': 80,
    'mono_control_restarted_without_repair': 70,
    'mono_control_node_alive_when_its_line_failed': 50,
    'mono_control_with_pmono': 300, 'mono_control_with_pmono_artic': 150,
    'tl_same_player_restarted_after_stop': 200,
    'tl_same_player_restart_nodes_released_by_the_stop': 60,
    'tl_restart_by_reset-play': 100, 'tl_restart_by_play-reset': 60,
    'tl_restart_by_new-player': 50,
}
# monitors added in round 10 (minimal pitch key sets, shifted scales, derived
# pattern objects): quick minimum (about a quarter of an undisturbed quick
# run), thorough = 6 x
_PITCH_INPUT_KEYS = ('degree', 'mtranspose', 'gtranspose', 'root', 'octave',
                     'scale', 'ctranspose', 'harmonic', 'detune', 'note',
                     'midinote', 'freq')
_NEW_MIN10 = {
    'chain_minimal_pitch_key_sets_looked_up': 6000,
    'chain_minimal_size2': 2000, 'chain_minimal_size3': 500,
    **{f'chain_pitch_key_alone_{k}': 250 for k in _PITCH_INPUT_KEYS},
    'chain_shifted_scale_alone': 200,
    'chain_events_with_shifted_scale_looked_up': 2500,
    **{f'scale_kind_shifted-{k}': 900 for k in ('degrees', 'tuning', 'both')},
    'play_minimal_pitch_key_sets_freq_checked': 3500,
    **{f'play_pitch_key_alone_{k}': 150 for k in _PITCH_INPUT_KEYS},
    'play_shifted_scale_alone': 120,
    'tl_pitch_alone_cases_ok': 400,
    **{f'tl_pitch_key_alone_{k}': 15 for k in _PITCH_INPUT_KEYS},
    'tl_shifted_scale_alone_events': 40,
    'tl_pitch_alone_shape_plain': 200, 'tl_pitch_alone_shape_ppar': 80,
    'tl_pitch_alone_shape_pchain-left': 60,
    'tl_pitch_alone_shape_pchain-right': 80,
    'tl_special_chain-in-sequence': 70,
    'derive_cases_ok': 800,
    **{f'derive_by_{k}': v for k, v in (
        ('chain', 160), ('copy', 80), ('copy-chain', 50), ('ctor-parts', 80),
        ('ctor-parts-edit', 50), ('pbind-dict-edit', 35),
        ('deepcopy', 80), ('deepcopy-chain', 20), ('pbind-dict-or', 30),
        ('pbind-dict-star', 45), ('stream-consumed', 65),
        ('wrap-pchain-chain', 30), ('wrap-pchain-left', 40),
        ('wrap-pdelta', 55), ('wrap-pdur', 80), ('wrap-pn', 55),
        ('wrap-ppar', 55), ('wrap-pseq-after', 55),
        ('wrap-pseq-before', 55))},
    'derive_base_pchain': 300, 'derive_base_pbind': 200,
    'derive_base_ppar': 120,
    'derive_original_played_after_the_derivation': 1100,
    'derive_original_events_after_the_derivation': 4500,
    'derive_original_playing_at_the_derivation': 60,
    'derive_derived_object_played': 1300,
    'derive_derived_object_events_checked': 7000,
    'derive_two_derivations': 300, 'derive_from_a_derived_object': 140,
    'derive_plays_overlapping': 300, 'derive_plays_one_after_the_other': 450,
    **{f'derive_order_{k}': 180 for k in (
        'derived-first', 'original-first', 'original-before-the-derivation',
        'mixed')},
}
MIN_COUNTERS = {
    'quick': {'chain_lookups_compared': 10000, 'scale_keys_compared': 3000,
              'play_s_new_checked': 5000, 'play_gate_off_checked': 2000,
              'play_no_gate_checked': 2000, 'play_control_values_checked': 10000,
              'play_replay_s_new_checked': 1000, 'play_replay_copy': 200,
              'play_replay_replay': 200,
              'tl_s_new_checked': 4000, 'tl_rests_silent': 300,
              'tl_total_duration_checked': 800, 'tl_with_ppar': 300,
              'tl_with_pdur_clipping': 40, 'tl_with_pdelta': 200,
              'tl_with_pchain': 200, 'tl_mono_set_checked': 200,
              'tl_special_pmono-artic': 100, 'tl_special_pchain-pmono': 100,
              'tl_pchain_pbind<>pmono': 50, 'tl_pchain_pmono<>pbind': 20, 'tl_special_type-rest': 40, 'tl_special_delta-none': 20,
              'tl_special_dur-inf': 20, 'tl_total_duration_bounded': 40,
              'play_programs_with_undescribed_instrument': 100,
              'tl_reuse_cases_ok': 500,
              'tl_repeated_embedding_s_new_checked': 2000,
              'tl_reuse_cut-then-full': 40, 'tl_reuse_players-overlap': 40,
              'tl_reuse_stop-replay': 40, 'tl_reuse_par-twice': 20,
              **{k: v for k, v in _NEW_MIN.items()},
              **_NEW_MIN8, **_NEW_MIN9, **_NEW_MIN10},
    'thorough': {'chain_lookups_compared': 300000, 'scale_keys_compared': 100000,
                 'play_s_new_checked': 80000, 'play_gate_off_checked': 30000,
                 'play_no_gate_checked': 30000,
                 'play_control_values_checked': 200000,
                 'play_replay_s_new_checked': 20000, 'play_replay_copy': 4000,
                 'play_replay_replay': 4000,
                 'tl_s_new_checked': 50000, 'tl_rests_silent': 3000,
                 'tl_total_duration_checked': 15000, 'tl_with_ppar': 5000,
                 'tl_with_pdur_clipping': 1000, 'tl_with_pdelta': 3000,
                 'tl_with_pchain': 3000, 'tl_mono_set_checked': 2000,
                 'tl_special_pmono-artic': 2000,
                 'tl_special_pchain-pmono': 2000,
                 'tl_pchain_pbind<>pmono': 1000, 'tl_pchain_pmono<>pbind': 400, 'tl_special_type-rest': 800, 'tl_special_delta-none': 400,
                 'tl_special_dur-inf': 400, 'tl_total_duration_bounded': 800,
                 'play_programs_with_undescribed_instrument': 2000,
                 'tl_reuse_cases_ok': 10000,
                 'tl_repeated_embedding_s_new_checked': 40000,
                 'tl_reuse_cut-then-full': 800, 'tl_reuse_players-overlap': 800,
                 'tl_reuse_stop-replay': 800, 'tl_reuse_par-twice': 400,
                 **{k: v * 15 for k, v in _NEW_MIN.items()},
                 **{k: v * 15 for k, v in _NEW_MIN8.items()},
                 **{k: v * 15 for k, v in _NEW_MIN9.items()},
                 # (round 10: 6 x - the thorough timeline shards are bound by
                 # their seconds, a derived-object history costs about three
                 # ordinary cases, and the host is shared)
                 **{k: v * 6 for k, v in _NEW_MIN10.items()}},
}


def plan(tier, seed):
    q = tier == 'quick'
    # budgets are in cases AND seconds: on an idle 16-core host quick takes
    # ~15 s and thorough ~6 min; on a loaded one the `secs` cap ends the shards
    secs = 40 if q else 570
    # 16 shards: one wave of the driver's 16 workers
    # (round 9: the control shards also hold the mono-line histories and the
    # short key sets - a third shard, taken from the cheap chain monitor)
    sizes = {'chain': (110000, 1) if q else (3600000, 2),
             'scale': (30000, 1) if q else (1000000, 1),
             'play': (40000, 3) if q else (1600000, 4),
             'timeline': (40000, 7) if q else (900000, 5),
             'fault': (12000, 1) if q else (300000, 1),
             'control': (15000, 3) if q else (400000, 3)}
    shards = []
    for kind, (total, parts) in sizes.items():
        for p, (f, n) in enumerate(split(total, parts)):
            shards.append({'name': f'{kind}{p}', 'mode': 'nrt', 'kind': kind,
                           'first_case': f, 'n': n, 'secs': secs,
                           'hard_timeout': secs + 180, 'part': p})
    # interleave the kinds: the evidence keeps the samples of the first shards
    order = ['timeline', 'play', 'fault', 'control', 'chain', 'scale']
    shards.sort(key=lambda sh: (sh['part'], order.index(sh['kind'])))
    return shards


# ------------------------------------------------------------------ helpers

def raise_key(mon, e):
    """Full mechanism key for an exception raised inside sc3 while monitor
    `mon` was driving it."""
    if isinstance(e, AttributeError) and "'arrayed_param' object" in str(e):
        # one mechanism, whichever monitor meets it
        return 'C14/event-raises/scale-key-becomes-arrayed-param'
    return f'C14/{mon}-raises/{exc_key(e)}'


def exc_key(e):
    """Mechanism part of a key for an exception raised inside sc3."""
    msg = '' if isinstance(e, KeyError) else str(e)   # KeyError: a data value
    sites = tb_sites(e)
    site = '.'.join((sites[-1][0].replace('.py', ''), sites[-1][1])) \
        if sites else 'outside-sc3'
    m = re.sub(r'[0-9]+(\.[0-9]+)?', 'N', msg)
    m = re.sub(r"[^A-Za-z' ]+", ' ', m).strip().replace(' ', '-')[:60]
    return f'{type(e).__name__}/{site}/{m}'


def _flat_kinds(p, out=None):
    out = set() if out is None else out
    out.add(p[0])
    if p[0] in ('ppar', 'pseq'):
        for c in p[1]:
            _flat_kinds(c, out)
    elif p[0] in ('pchain', 'pdur', 'pdelta', 'pn', 'pevent'):
        _flat_kinds(p[2], out)
    return out


# ------------------------------------------------------------------ shards

def run_shard(spec, acc):
    kind = spec['shard']['kind']
    {'chain': run_chain, 'scale': run_scale, 'play': run_play,
     'timeline': run_timeline, 'fault': run_fault,
     'control': run_control}[kind](spec, acc)


def _ignored_pitch_key(ev, attr, got):
    from vf import c14_run as run
    return run.ignored_pitch_key(ev, attr, got)


def _chain_lookups(acc, i, e, ev, res, prev=None, ctx=None):
    """Look up every key the statement decides for the explicit key set `ev`
    on the real event `e` and compare with the model `res`.  prev: models of
    the key sets the object (or the object it was derived from) had before
    (histories): a value that is wrong now but right for one of them is a
    stale one.  False: stop this case (raised, or a history differs)."""
    from vf import c14_run as run
    ctx = ctx or {}
    hist = prev is not None
    pitch_failed = False
    for key, exp in run.wanted_lookups(ev, res):
        pitch = key in ('note', 'midinote', 'freq')
        if pitch and pitch_failed:
            continue        # downstream of an already reported difference
        try:
            got = e(key)
        except Exception as x:      # noqa
            acc.violation(raise_key('key-chain-history' if hist else
                                    'key-chain', x),
                          dict(ctx, case=i, event=ev, key=key,
                               tb=short_tb(x)))
            return False
        acc.count('chain_history_lookups_compared' if hist else
                  'chain_lookups_compared')
        try:
            g = float(got)
        except Exception:       # noqa
            acc.violation(f'C14/key-chain-differs/{key}/not-a-number',
                          dict(ctx, case=i, event=ev, got=repr(got)))
            continue
        if run.close(g, float(exp)):
            continue
        if pitch:
            pitch_failed = True
        if hist:
            stale = any(run.close(g, float(getattr(p, key))) for p in prev)
            chain = 'pitch' if pitch else 'amp' if key == 'amp' else 'dur'
            k = ('C14/key-chain-history/' + (
                'value-of-earlier-key-set-returned' if stale else
                f'differs/{chain}') + '/after-' + ctx.get('mclass', 'edit'))
            acc.violation(k, dict(ctx, case=i, event=ev, key=key, got=g,
                                  expected=exp))
            return False
        elif pitch and _ignored_pitch_key(ev, key, g):
            # (round 10: an event with one to three pitch input keys, one of
            # which the value does not depend on)
            k = _ignored_pitch_key(ev, key, g)
        elif pitch:
            if run._pitch_class(res, ev):
                k = run.pitch_key('key-chain-differs', key, res, ev)
            elif res.pitch_source == 'default':
                k = ('C14/key-chain-differs/pitch-modifiers-ignored-'
                     'without-degree-or-note-key')
            else:
                k = run.pitch_key('key-chain-differs', key, res, ev)
        else:
            src = res.amp_source if key == 'amp' else 'dur'
            k = f'C14/key-chain-differs/{key}/from-{src}'
        acc.violation(k, dict(ctx, case=i, event=ev, key=key, got=g,
                              expected=exp))
    # the other two units of the amplitude (AmplitudeKeys' db / velocity
    # functions)
    for key, exp, slack in run.amp_reverse_lookups(ev, res):
        try:
            got = e(key)
            g = float(got)
        except Exception as x:      # noqa
            acc.violation(raise_key('key-chain-history' if hist else
                                    'key-chain', x),
                          dict(ctx, case=i, event=ev, key=key,
                               tb=short_tb(x)))
            return False
        acc.count('chain_db_velocity_lookups_compared')
        acc.count(f'chain_{key}_from_'
                  + ('explicit' if key in ev else res.amp_source))
        if run.close(g, float(exp), 1e-9, 1e-9) or (
                slack and abs(g - exp) < slack + 1e-9):
            continue
        stale = False
        if hist:
            # right for an earlier key set of the object: a history defect;
            # otherwise the conversion itself differs (same key as without
            # a history)
            import math
            for p_ in prev:
                old = (127.0 * p_.amp if key == 'velocity' else
                       20.0 * math.log10(p_.amp) if p_.amp > 0 else -math.inf)
                if run.close(g, old, 1e-9, 1e-9) or (
                        slack and abs(g - old) < slack + 1e-9):
                    stale = True
        k = ('C14/key-chain-history/value-of-earlier-key-set-returned/after-'
             + ctx.get('mclass', 'edit') if stale else
             f'C14/key-chain-differs/{key}/from-'
             + ('explicit' if key in ev else res.amp_source))
        acc.violation(k, dict(ctx, case=i, event=ev, key=key, got=g,
                              expected=exp))
        if hist:
            return False
    return True


# mechanism class of a mutator (part of the key): the defect classes are
# "item assignment / deletion", "another dict method" and "derived object"
MUT_CLASS = {'setitem': 'item-assignment', 'delitem': 'item-assignment',
             'derive': 'derived-object'}


def run_chain(spec, acc):
    from vf import c14_gen as gen, c14_run as run, model_events as me
    from sc3.seq.event import event
    for i in iter_cases(spec):
        rng = case_rng(spec['seed'], 'C14', 'chain', i)
        ev = {}
        # round 10: a quarter of the events give a MINIMAL set of pitch keys -
        # every input key of the chain alone, in pairs and triples
        minimal = rng.random() < 0.25
        ev.update(gen.minimal_pitch_keys(rng) if minimal
                  else gen.pitch_keys(rng))
        given = sorted(k for k in ev if k in gen.PITCH_INPUTS)
        ev.update(gen.amp_keys(rng))
        offgrid = rng.random() < 0.5
        ev.update(gen.dur_keys(rng, offgrid))
        if rng.random() < 0.1:      # a rest value somewhere: timing still counts
            k = rng.choice([k for k in ev if k != 'scale'] or ['dur'])
            ev[k] = {'rest': ev.get(k, 1.0)}
        # 35 %: a history on the event object - look up, edit with one of the
        # dict methods (or derive a new object), look up again ...
        ops = gen.chain_history(rng, ev, offgrid) if rng.random() < 0.35 else []
        res = me.resolve(ev)
        scale_kind = (ev.get('scale') or {}).get('kind', 'default-scale')
        pitch_n = sum(k in ev for k in ('degree', 'mtranspose', 'gtranspose',
                                        'root', 'octave', 'note', 'midinote',
                                        'ctranspose', 'harmonic', 'detune',
                                        'freq', 'scale'))
        amp_n = sum(k in ev for k in ('amp', 'db', 'velocity'))
        dur_n = sum(k in ev for k in ('dur', 'stretch', 'legato', 'sustain',
                                      'delta'))
        acc.case(h64(repr((sorted(ev.items(), key=lambda kv: kv[0]), ops))),
                 nontrivial=pitch_n >= 2 or amp_n >= 2 or dur_n >= 2
                 or bool(ops))
        acc.count(f'chain_pitch_source_{res.pitch_source}')
        acc.count(f'chain_scale_{scale_kind}')
        try:
            e = event(run.to_event_dict(ev))
        except Exception as x:      # noqa
            acc.violation(f'C14/event-construction-raises/{exc_key(x)}',
                          {'case': i, 'event': ev, 'tb': short_tb(x)})
            continue
        if not _chain_lookups(acc, i, e, ev, res,
                              ctx={'minimal': True} if minimal else None):
            continue
        if minimal and not res.rest:
            acc.count('chain_minimal_pitch_key_sets_looked_up')
            acc.count(f'chain_minimal_size{len(given)}')
            if len(given) == 1:
                acc.count(f'chain_pitch_key_alone_{given[0]}')
            else:
                for k_ in given:
                    acc.count(f'chain_pitch_key_in_small_set_{k_}')
            if scale_kind.startswith('shifted'):
                acc.count('chain_minimal_with_shifted_scale')
                if given == ['scale']:
                    acc.count('chain_shifted_scale_alone')
        if scale_kind.startswith('shifted') and not res.rest:
            acc.count('chain_events_with_shifted_scale_looked_up')
        if not acc.samples and pitch_n >= 3:
            acc.sample({'case': i, 'event': ev, 'model': res.as_dict()})
        if not ops:
            continue
        # ---- history: every state of the object resolves from its own keys
        # (the first state that differs ends the history: later ones would
        # repeat it)
        cur, cur_res, earlier, src = ev, res, [], None
        for n, op in enumerate(ops):
            mclass = MUT_CLASS.get(op['m'], 'dict-method')
            name = op['how'] if op['m'] == 'derive' else op['m']
            ctx = {'history': ops[:n + 1], 'first_event': ev,
                   'mclass': mclass, 'mutator': name}
            recheck = src           # the source of the object derived last
            src = None
            try:
                if op['m'] == 'derive':
                    recheck = src = (e, cur, cur_res)
                    e = run.derive(e, op['how'], op['set'])
                    cur = me.apply_mutation(cur, {'m': 'update-dict',
                                                  'set': op['set']})
                else:
                    run.apply_mutation(e, op)
                    cur = me.apply_mutation(cur, op)
            except Exception as x:      # noqa
                acc.violation(f'C14/key-chain-history-raises/{name}/'
                              f'{exc_key(x)}', dict(ctx, case=i,
                                                    tb=short_tb(x)))
                break
            if set(e) != set(cur):
                # harness self-check of the state model (dict semantics)
                acc.violation('C14/key-chain-history/keys-of-the-object-differ'
                              f'/after-{mclass}',
                              dict(ctx, case=i, got=sorted(map(str, e)),
                                   expected=sorted(cur)))
                break
            new_res = me.resolve(cur)
            acc.count(f'chain_history_after_{name}')
            changed = any(
                not run.close(float(a), float(b)) for a, b in
                ((getattr(cur_res, k), getattr(new_res, k))
                 for k in ('delta', 'sustain', 'amp', 'midinote', 'freq')))
            if changed:
                acc.count('chain_history_edits_changing_a_resolved_value')
            earlier.append(cur_res)
            if not _chain_lookups(acc, i, e, cur, new_res, earlier, ctx):
                break
            if recheck is not None:
                # the object it was derived from still resolves from its keys
                acc.count('chain_history_source_rechecked')
                if not _chain_lookups(acc, i, recheck[0], recheck[1],
                                      recheck[2], [new_res],
                                      dict(ctx, mclass='edit-of-an-object-'
                                           'derived-from-it')):
                    break
            cur_res = new_res


def run_scale(spec, acc):
    from vf import c14_gen as gen, c14_run as run, model_events as me
    import math
    for i in iter_cases(spec):
        rng = case_rng(spec['seed'], 'C14', 'scale', i)
        sp = gen.scale_spec(rng)
        acc.case(h64(repr(sp)), nontrivial=sp['kind'] != 'et12-explicit')
        acc.count(f"scale_kind_{sp['kind']}")
        try:
            sc = run.to_scale(sp)
            ratio = sc.tuning.octave_ratio
            spo = sc.tuning.spo
        except Exception as x:      # noqa
            acc.violation(f'C14/scale-raises/{exc_key(x)}',
                          {'case': i, 'scale': sp, 'tb': short_tb(x)})
            continue
        if sp['tuning'] is not None and not run.close(ratio, sp['ratio']):
            acc.violation('C14/scale/tuning-octave-ratio-dropped',
                          {'case': i, 'scale': sp, 'got': ratio})
        span = 12.0 * math.log2(sp['ratio'])
        for d in rng.sample(range(-20, 30), 6):
            try:
                key = sc.degree_to_key(d)
            except Exception as x:      # noqa
                acc.violation(f'C14/scale-raises/{exc_key(x)}',
                              {'case': i, 'scale': sp, 'degree': d})
                break
            acc.count('scale_keys_compared')
            frac = key / spo
            exp = me.degree_to_semitones(sp, d) / span
            if not run.close(frac, exp, 1e-9, 1e-12):
                acc.violation(f"C14/scale/degree-to-key/{sp['kind']}",
                              {'case': i, 'scale': sp, 'degree': d, 'key': key,
                               'steps_per_octave': spo,
                               'octave_fraction': frac, 'expected': exp})
                break
        if not acc.samples and sp['kind'] == 'nonet12':
            acc.sample({'case': i, 'scale': sp})


def _setup(spec, kind):
    from vf import c14_gen as gen, c14_run as run
    from sc3.synth.node import Group
    from sc3.synth.server import Server
    run.setup_logging()
    irng = case_rng(spec['seed'], 'C14', 'instruments', 0)
    insts = gen.instruments(irng)
    info = run.build_instruments(insts)
    g = Group.basic_new(Server.default, 555)
    return insts, info, {'obj': g, 'id': 555}


def _report_raises(acc, mon, cap, i, payload):
    """True when the case raised (reported, nothing else compared)."""
    if cap.raised is not None:
        acc.violation(raise_key(mon, cap.raised),
                      dict(payload, case=i, tb=short_tb(cap.raised)))
        return True
    if cap.task_errors:
        msg, exc = cap.task_errors[0]
        key = raise_key(mon, exc) if exc is not None else \
            f'C14/{mon}-raises/logged-error'
        acc.violation(key,
                      dict(payload, case=i, log=msg,
                           tb=short_tb(exc) if exc is not None else None))
        return True
    return False


def run_play(spec, acc):
    from vf import c14_gen as gen, c14_run as run, model_events as me
    insts, info, groups = _setup(spec, 'play')
    tags = itertools.count(1)
    for i in iter_cases(spec):
        rng = case_rng(spec['seed'], 'C14', 'play', i)
        prog = gen.play_program(rng, insts, tags)
        gates = {(info.get(s['event']['instrument']) or {}).get('gate')
                 for s in prog['steps']}
        acc.case(h64(repr(prog)), nontrivial=len(gates) == 2
                 or prog['latency'] > 0 or prog['where'] != 'main'
                 or prog.get('history', False))
        if prog.get('history'):
            acc.count('play_history_programs')
        acc.count(f"play_where_{prog['where']}")
        acc.count('play_latency_nonzero' if prog['latency'] else
                  'play_latency_zero')
        cap, times = run.run_play_program(prog, groups)
        nodesc = any(st['event'].get('instrument') == gen.NODESC
                     for st in prog['steps'])
        if nodesc:
            acc.count('play_programs_with_undescribed_instrument')
        mon = ('play-undescribed-instrument' if nodesc else
               'play-history' if prog.get('history') else 'play')
        if _report_raises(acc, mon, cap, i, {'program': prog}):
            continue
        ex = run.expect_program(prog, times, info, groups)
        bad = run.compare(ex, cap, acc, 'play', prog['offgrid'])
        for st in prog['steps']:
            if st.get('mut'):
                acc.count(f"play_history_edit_{st['mut']}")
                if st.get('peek'):
                    acc.count('play_history_lookups_before_edit')
                if st.get('copy_how'):
                    acc.count(f"play_history_copy_{st['copy_how']}")
        # look-ups between the edit and the play: the keys the object holds
        for idx, got in cap.extra.get('peeks', []):
            st = prog['steps'][idx]
            res = me.resolve(st['event'])
            for key, exp in run.wanted_lookups(st['event'], res):
                if key not in got:
                    continue
                acc.count('play_history_lookups_compared')
                try:
                    ok = run.close(float(got[key]), float(exp))
                except Exception:       # noqa
                    ok = False
                if not ok:
                    chain = ('pitch' if key in ('midinote', 'freq') else
                             'amp' if key == 'amp' else 'dur')
                    # the keys the object (its source, for a copy) had at
                    # earlier plays: a value that fits one of them is stale
                    line = []
                    o = st['src'] if st.get('op') == 'copy' else st['obj']
                    for p_ in reversed(prog['steps'][:idx]):
                        if p_.get('obj') == o:
                            line.append(me.resolve(p_['event']))
                            if p_.get('op') == 'copy':
                                o = p_['src']
                    try:
                        if any(run.close(float(got[key]),
                                         float(getattr(r_, key)))
                               for r_ in line):
                            chain = 'value-of-earlier-key-set-returned'
                    except Exception:       # noqa
                        pass
                    acc.violation(
                        'C14/play-history/lookup-after-edit-differs/'
                        f'{chain}', {'case': i, 'step': idx, 'key': key,
                                     'got': repr(got[key]), 'expected': exp,
                                     'mutator': st.get('mut'),
                                     'looked_up_before_edit': st.get('peek'),
                                     'program': prog})
                    break
        for k, detail in bad:
            # round 10: the freq of an event with a minimal set of pitch keys
            # - the input key the value does not depend on
            if detail.get('name') == 'freq' and isinstance(
                    detail.get('event'), dict) and any(
                    st.get('minimal') and st['event'].get('tag')
                    == detail['event'].get('tag') for st in prog['steps']):
                k = _ignored_pitch_key(detail['event'], 'detuned',
                                       detail.get('got_list')) or k
            acc.violation(k if k.startswith('C14/') else f'C14/play/{k}',
                          dict(detail, case=i, program=prog))
        if not bad:
            for st in prog['steps']:
                if st.get('minimal') is None:
                    continue
                given = st['minimal']
                acc.count('play_minimal_pitch_key_sets_freq_checked')
                if len(given) == 1:
                    acc.count(f'play_pitch_key_alone_{given[0]}')
                sk = (st['event'].get('scale') or {}).get('kind', '')
                if sk.startswith('shifted'):
                    acc.count('play_minimal_with_shifted_scale')
                    if given == ['scale']:
                        acc.count('play_shifted_scale_alone')
        if not acc.samples and len(prog['steps']) <= 2 and not bad:
            acc.sample({'case': i, 'program': prog,
                        'score': [[t, m.plain()] for t, m in cap.raw]})


def _fault_diag(infos):
    """Mechanism of a difference after failed plays, from what the failed
    plays left in the event object (most specific first)."""
    for f in infos:
        if f['left'] or f['changed']:
            # a chain key the user never gave, or one whose value is not the
            # user's any more
            return 'failed-play-altered-key/' + (f['left'] + f['changed'])[0]
    for f in infos:
        if f['stale_list']:
            return 'event-keeps-control-list-of-the-failed-play'
    return None


def run_fault(spec, acc):
    """Fault histories: plays of event objects that FAIL half way (see
    c14_gen.fault_edit for the kinds), followed by repair and continued use of
    the same object / of copies of it.  Every play of an event whose keys are
    numbers again must send what a fresh event with these keys sends; the
    look-ups after the repair resolve from the user's keys."""
    from vf import c14_gen as gen, c14_run as run, model_events as me
    insts, info, groups = _setup(spec, 'fault')
    tags = itertools.count(1)
    for i in iter_cases(spec):
        rng = case_rng(spec['seed'], 'C14', 'fault', i)
        prog = gen.fault_program(rng, insts, tags)
        acc.case(h64(repr(prog)), nontrivial=True)
        cap, times = run.run_play_program(prog, groups)
        faults = {f['tag']: f for f in cap.extra.get('faults', [])}
        for f in faults.values():
            acc.count('fault_plays')
            if f['raised']:
                acc.count('fault_plays_raised')
                acc.count(f"fault_raised_in_{f['phase']}")
                if f['first_play']:
                    acc.count('fault_first_play_of_the_object_raised')
                for k in f['kinds']:
                    acc.count(f'fault_kind_raised_{k}')
            else:
                acc.count('fault_plays_did_not_raise')
        diag_all = _fault_diag(list(faults.values()))
        err = cap.raised or (cap.task_errors[0][1] if cap.task_errors else None)
        if cap.raised is not None or cap.task_errors:
            # a play of an event whose keys are all numbers raised
            n_played = len(times)
            st = prog['steps'][min(n_played, len(prog['steps'])) - 1]
            infos = [faults[t] for t in st.get('after_fault', [])
                     if t in faults]
            diag = _fault_diag(infos)
            if diag:
                acc.violation(f'C14/play-after-failed-play/{diag}',
                              {'case': i, 'raised': short_tb(err) if err
                               is not None else cap.task_errors[0][0],
                               'failed_plays': infos, 'program': prog})
            elif st.get('after_fault'):
                acc.violation(raise_key('play-after-failed-play', err)
                              if err is not None else
                              'C14/play-after-failed-play-raises/logged-error',
                              {'case': i, 'tb': short_tb(err) if err
                               is not None else None, 'program': prog})
            else:
                _report_raises(acc, 'play-history', cap, i, {'program': prog})
            continue
        ex = run.expect_program(prog, times, info, groups)
        bad = run.compare(ex, cap, acc, 'fault', prog['offgrid'])
        by_tag = {n['tag']: n for n in ex.notes}
        for n in ex.notes:
            if n['after_fault'] and 'id' in n:
                acc.count('fault_plays_after_a_failed_play_checked')
                if len(n['after_fault']) > 1:
                    acc.count('fault_plays_after_several_failed_plays_checked')
                if n['op'] == 'copy':
                    acc.count('fault_plays_of_a_copy_of_a_failed_object_checked')
                if any(faults.get(t, {}).get('raised') for t in n['after_fault']):
                    acc.count('fault_plays_after_a_play_that_raised_checked')
        # look-ups between the repair and the play
        for idx, got in cap.extra.get('peeks', []):
            st = prog['steps'][idx]
            evx = me.effective(st['event'])
            res = me.resolve(evx)
            infos = [faults[t] for t in st.get('after_fault', []) if t in faults]
            for key, exp in run.wanted_lookups(evx, res):
                if key not in got:
                    continue
                acc.count('fault_lookups_after_repair_compared'
                          if infos else 'fault_lookups_compared')
                try:
                    ok = run.close(float(got[key]), float(exp))
                except Exception:       # noqa
                    ok = False
                if not ok:
                    diag = _fault_diag(infos) or (
                        'lookup-differs' if infos else None)
                    acc.violation(
                        f'C14/play-after-failed-play/{diag}' if diag else
                        'C14/play-history/lookup-after-edit-differs/'
                        + ('pitch' if key in ('midinote', 'freq') else
                           'amp' if key == 'amp' else 'dur'),
                        {'case': i, 'step': idx, 'key': key,
                         'got': repr(got[key]), 'expected': exp,
                         'failed_plays': infos, 'program': prog})
                    break
        for k, detail in bad:
            tag = detail.get('tag', detail.get('tag_now'))
            if tag is None and isinstance(detail.get('event'), dict):
                tag = detail['event'].get('tag')
            n = by_tag.get(tag)
            if n is not None:
                infos = [faults[t] for t in n['after_fault'] if t in faults]
                diag = _fault_diag(infos)
                after = bool(n['after_fault'])
            else:       # not attributed to one play: the case's failed plays
                infos = list(faults.values())
                diag, after = diag_all, True
            short = k.split('/', 1)[1] if k.startswith('C14/') else k
            if diag:
                key = f'C14/play-after-failed-play/{diag}'
            elif after:
                key = f'C14/play-after-failed-play/differs/{short}'
            else:
                key = k if k.startswith('C14/') else f'C14/play/{k}'
            acc.violation(key, dict(detail, case=i, difference=k,
                                    failed_plays=infos, program=prog))
        if not bad and acc.want_sample() and len(prog['steps']) <= 4:
            acc.sample({'case': i, 'program': prog,
                        'failed_plays': list(faults.values()),
                        'score': [[t, m.plain()] for t, m in cap.raw]})


def _diff_class(k):
    for pre, cls in (('missing-s_new', 'event-not-played'),
                     ('time/', 'event-at-wrong-time'),
                     ('extra-s_new', 'event-played-again'),
                     ('duplicate-s_new', 'event-played-again'),
                     ('muted-player-sent-traffic', 'muted-event-played'),
                     ('rest-sent-traffic', 'rest-played'),
                     ('unexpected-traffic', 'unexpected-traffic'),
                     ('total-duration', 'end-of-player-differs'),
                     ('player-still-running', 'end-of-player-differs'),
                     ('gate-off', 'gate-off-differs'),
                     ('mono-release', 'mono-release-differs')):
        if k.startswith(pre):
            return cls
    return 'message-content-differs'


def _control_diff_class(k):
    """Coarse class of a difference of a player-control history: the time
    line (an event missing, late, early, twice, the end of the player), a
    muted event that was sent, or the content of a message."""
    c = _diff_class(k)
    if c in ('muted-event-played', 'message-content-differs'):
        return c
    return 'time-line-differs'


def _diff_time(k, d, ex):
    """Time of a difference (for the diagnosis: after which control call)."""
    if 'expected_at' in d:
        return d['expected_at']
    if isinstance(d.get('expected'), (int, float)) and k.startswith('time/'):
        return d['expected']
    if 't' in d:
        return d['t']
    for n in ex.notes:
        if n['tag'] == d.get('tag'):
            return n['time']
    return None


def _mono_diff_class(k):
    """Class of a difference of a mono line under player control: what
    happened to a node (released twice, never, at the wrong time, traffic for
    a node nobody expects), else the time line / the message contents."""
    for pre, cls in (('mono-release-duplicated', 'node-released-twice'),
                     ('unexpected-traffic/n_set', 'node-released-twice'),
                     ('unexpected-traffic/n_free', 'node-released-twice'),
                     ('mono-release-missing', 'node-never-released'),
                     ('time/mono-release', 'node-released-at-wrong-time'),
                     ('missing-n_set/mono', 'mono-set-missing'),
                     ('duplicate-n_set/mono', 'mono-set-sent-twice'),
                     ('time/n_set/mono', 'mono-set-at-wrong-time')):
        if k.startswith(pre):
            return cls
    return _control_diff_class(k)


def _key_set_counts(acc, case, mon):
    st = case.get('keysets')
    if not st:
        return
    acc.count(f'{mon}_cases_with_key_sets_ok')
    for k in ('sets', 'surplus', 'equal', 'constant', 'between', 'first',
              'last', 'size1', 'size2', 'size3', 'in_pbind', 'in_pmono',
              'in_pmono_artic', 'in_pchain_left'):
        if st.get(k):
            acc.count(f'keyset_{k}', st[k])
    if st.get('surplus'):
        acc.count('keyset_cases_with_surplus_values_ok')


def _key_set_culprit(case, failed_without):
    """A case with key sets (tuple keys) differs from its expectation: is it
    the key sets?  failed_without(case2) -> bool runs a variant of the case.
    'value-list-longer-than-the-key-set': the case passes once the surplus
    values of the rows are removed; 'one-value-per-key': it passes once the
    key sets are written out as plain keys; None: not a matter of key sets."""
    from vf import c14_gen as gen
    if not case.get('keysets'):
        return None
    try:
        if case['keysets'].get('surplus') and not failed_without(
                gen.key_set_variant(case, 'no-surplus')):
            return 'value-list-longer-than-the-key-set'
        if not failed_without(gen.key_set_variant(case, 'plain')):
            return 'one-value-per-key'
    except Exception:       # noqa
        pass
    return None


def _control_failed(case, info, groups):
    from vf import c14_run as run
    ex = run.expect_control(case, info, groups)
    cap = run.run_control_case(case)
    allowed = len(ex.control.deaths) if case.get('dies') else 0
    if cap.raised is not None or len(cap.task_errors) > allowed:
        return True
    return bool(run.compare(ex, cap, run._NoCount(), 'control', False))


def run_control(spec, acc):
    """Three kinds of cases (c14_gen.control_shard_case):
    player control - one EventStreamPlayer under a history of mute / unmute /
        pause / resume / play / reset / stop / reset + play calls;
    entry points   - Pkey columns, Pevent, Pchain built by .chain() inside the
        ordinary compositions, played once;
    pattern faults - a player whose k-th event fails while other players run
        on the same pattern objects and prototype event."""
    from vf import c14_gen as gen, c14_run as run, model_events as me
    insts, info, groups = _setup(spec, 'control')
    tags = itertools.count(1)
    for i in iter_cases(spec):
        rng = case_rng(spec['seed'], 'C14', 'control', i)
        case = gen.control_shard_case(rng, insts, tags)
        acc.case(h64(repr(case)), nontrivial=True)
        form = case.get('form', 'entry')
        if form == 'control':
            ex = run.expect_control(case, info, groups)
            if ex is None:
                acc.count('control_cases_skipped_action_at_a_wake_up')
                continue
            cap = run.run_control_case(case)
            raised = cap.raised is not None or bool(cap.task_errors)
            bad = [] if raised else run.compare(ex, cap, acc, 'control',
                                                False)
            if raised or bad:
                ks = _key_set_culprit(case, lambda c2: _control_failed(
                    c2, info, groups))
                if ks:
                    _key_set_violation(acc, i, ks, case, cap, bad)
                    continue
            if _report_raises(acc, 'player-control', cap, i,
                              {'control_case': case}):
                continue
            acts = case['controls']
            if bad:
                # after which control call does the first difference lie
                times = [t for t in (_diff_time(k, d, ex) for k, d in bad)
                         if t is not None]
                t0 = min(times) if times else None
                first = sorted(bad, key=lambda kd: (
                    _diff_time(kd[0], kd[1], ex) or float('inf')))[0]
                cls = _control_diff_class(first[0])
                # the last call before it that moves the time line (for a
                # muted event that was sent: the last mute / unmute)
                group = ('mute', 'unmute') if cls == 'muted-event-played' \
                    else ('pause', 'resume', 'play', 'reset', 'stop',
                          'reset-play', 'play-reset')
                before = [a for a in acts if a['do'] in group and (
                    t0 is None or a['at'] + case['latency'] <= t0 + 1e-9)]
                last = before[-1]['do'] if before else 'play'
                where = f'after-{last}'
                if case['clock'] == 'tempo':
                    # the same history on SystemClock (the expectation does
                    # not depend on the clock): a difference that is tied to
                    # the kind of clock is one mechanism whatever call shows it
                    c2 = dict(case, clock='system')
                    cap2 = run.run_control_case(c2)
                    if cap2.raised is None and not cap2.task_errors and \
                            not run.compare(ex2 := run.expect_control(
                                c2, info, groups), cap2, run._NoCount(),
                                'control', False):
                        where = 'on-a-tempo-clock-only'
                        if any(_control_diff_class(k) == 'time-line-differs'
                               for k, _ in bad):
                            cls = 'time-line-differs'
                acc.violation(
                    f'C14/player-control/{where}/{cls}',
                    {'case': i, 'control_case': case, 'first_difference_at': t0,
                     'differences': sorted({k for k, _ in bad})[:8],
                     'first': first[1], 'player_ended_at': cap.elapsed})
                continue
            acc.count('control_cases_ok')
            _key_set_counts(acc, case, 'control')
            acc.count(f"control_family_{case['family']}")
            acc.count(f"control_clock_{case['clock']}")
            c = ex.control
            for do, n_ in c.effect.items():
                acc.count(f'control_{do}_with_effect', n_)
            for a in acts:
                acc.count(f"control_calls_{a['do']}")
            acc.count('control_muted_events_silent', ex.muted)
            acc.count('control_restarts_checked', c.runs - 1)
            # events played after the first call that moved or restarted the
            # player's time line
            moved = [a['at'] for a in acts if a['do'] in (
                'resume', 'play', 'reset', 'reset-play', 'play-reset')]
            if moved:
                acc.count('control_events_after_resume_or_restart_checked',
                          sum(1 for n in ex.notes
                              if n['time'] - case['latency'] > moved[0]))
            if acc.want_sample() and len(ex.notes) <= 8 and len(acts) >= 2:
                acc.sample({'case': i, 'control_case': case,
                            'score': [[t, m.plain()] for t, m in cap.raw]})
            continue
        if form == 'mono-control':
            _run_mono_control(acc, i, case, info, groups)
            continue
        if form == 'pattern-fault':
            ex = run.expect_pattern_fault(case, info, groups)
            cap = run.run_pattern_fault_case(case)
            acc.count('pattern_fault_cases')
            if cap.raised is not None or \
                    len(cap.task_errors) > ex.failing_players:
                ks = _key_set_culprit(case, lambda c2: _pattern_fault_failed(
                    c2, info, groups))
                if ks:
                    _key_set_violation(acc, i, ks, case, cap, [],
                                       ex.failing_players)
                    continue
                if cap.raised is None:
                    cap.task_errors = cap.task_errors[ex.failing_players:]
                _report_raises(acc, 'pattern-fault', cap, i,
                               {'fault_case': case})
                continue
            acc.count('pattern_fault_players_that_raised',
                      len(cap.task_errors))
            bad = run.compare(ex, cap, acc, 'pfault', False)
            if bad and case.get('keysets'):
                ks = _key_set_culprit(case, lambda c2: _pattern_fault_failed(
                    c2, info, groups))
                if ks:
                    _key_set_violation(acc, i, ks, case, cap, bad,
                                       len(cap.task_errors))
                    continue
            if bad and case['fault']['kind'] == 'short-key-set':
                acc.violation(
                    'C14/key-set/value-list-shorter-than-the-key-set/'
                    'players-beside-it-or-rows-before-it-differ',
                    {'case': i, 'fault_case': case,
                     'class': _diff_class(bad[0][0]),
                     'differences': sorted({k for k, _ in bad})[:8],
                     'first': bad[0][1]})
                continue
            if bad:
                acc.violation(
                    'C14/players-beside-a-failing-event/'
                    + _diff_class(bad[0][0]),
                    {'case': i, 'fault_case': case,
                     'differences': sorted({k for k, _ in bad})[:8],
                     'first': bad[0][1]})
                continue
            acc.count('pattern_fault_cases_ok')
            _key_set_counts(acc, case, 'pattern_fault')
            acc.count(f"pattern_fault_kind_{case['fault']['kind']}")
            if case['fault']['kind'] == 'short-key-set':
                acc.count('keyset_short_rows_' + (
                    'no-list' if not isinstance(case['fault']['bad'], dict)
                    else 'too-few-values'))
            acc.count('pattern_fault_plays_of_the_failing_pattern',
                      ex.failing_players)
            continue
        # entry points
        pat = case['pattern']
        kinds = _flat_kinds(pat)
        failed, cap, ex, bad = _entry_run(case, info, groups, acc, 'entry')
        if failed:
            ks = _key_set_culprit(case, lambda c2: _entry_run(
                c2, info, groups, run._NoCount(), 'entry')[0])
            if ks:
                _key_set_violation(acc, i, ks, case, cap, bad)
                continue
            culprit = _entry_culprit(case, info, groups)
            if cap.raised is not None or cap.task_errors:
                err = cap.raised or cap.task_errors[0][1]
                acc.violation(
                    f'C14/timeline-entry-raises/{culprit}/' + (
                        exc_key(err) if err is not None else 'logged-error'),
                    {'case': i, 'timeline_case': case,
                     'tb': short_tb(err) if err is not None else
                     cap.task_errors[0][0]})
                continue
            first = bad[0]
            acc.violation(
                f'C14/timeline-entry/{culprit}/'
                + _control_diff_class(first[0].split('/', 2)[-1]
                                      if first[0].startswith('C14/')
                                      else first[0]),
                {'case': i, 'timeline_case': case,
                 'differences': sorted({k for k, _ in bad})[:8],
                 'first': first[1]})
            continue
        acc.count('entry_cases_ok')
        _key_set_counts(acc, case, 'entry')
        for e_ in case['entry']:
            acc.count(f'entry_{e_}')
        for k in kinds:
            acc.count(f'entry_with_{k}')
        if acc.want_sample() and len(ex.notes) <= 6 and len(case['entry']) > 1:
            acc.sample({'case': i, 'timeline_case': case,
                        'score': [[t, m.plain()] for t, m in cap.raw]})


def _key_set_violation(acc, i, ks, case, cap, bad, allowed=0):
    """allowed: logged errors that belong to the case (failing elements)."""
    errors = cap.task_errors[allowed:]
    err = cap.raised or (errors[0][1] if errors else None)
    if err is not None or errors:
        # (one key: the diagnosis names the mechanism, whatever exception
        # the misplaced values end in)
        acc.violation(
            f'C14/key-set-raises/{ks}',
            {'case': i, 'timeline_case': case,
             'exception': exc_key(err) if err is not None else 'logged-error',
             'tb': short_tb(err) if err is not None else errors[0][0]})
        return
    first = bad[0]
    k = first[0].split('/', 2)[-1] if first[0].startswith('C14/') \
        else first[0]
    acc.violation(
        f'C14/key-set/{ks}/{_control_diff_class(k)}',
        {'case': i, 'timeline_case': case,
         'differences': sorted({k_ for k_, _ in bad})[:8],
         'first': first[1], 'player_ended_at': cap.elapsed})


def _run_mono_control(acc, i, case, info, groups):
    """A player over mono lines (Pmono / PmonoArtic) under control calls
    while the node of a line is alive: see c14_gen.mono_control_case."""
    from vf import c14_run as run
    ex = run.expect_control(case, info, groups)
    if ex is None:
        acc.count('control_cases_skipped_action_at_a_wake_up')
        return
    c = ex.control
    cap = run.run_control_case(case)
    fault = case.get('fault')
    # the failing element: one logged error per run that dies of it
    allowed = len(c.deaths) if fault else 0
    raised = cap.raised is not None or len(cap.task_errors) > allowed
    bad = [] if raised else run.compare(ex, cap, acc, 'mono', False)
    if (raised or bad) and case.get('keysets'):
        ks = _key_set_culprit(case, lambda c2: _control_failed(c2, info,
                                                               groups))
        if ks:
            _key_set_violation(acc, i, ks, case, cap, bad, allowed)
            return
    acts = case['controls']

    def last_call(t0):
        before = [a for a in acts if a['do'] in (
            'pause', 'resume', 'play', 'reset', 'stop', 'reset-play',
            'play-reset') and (t0 is None
                               or a['at'] + case['latency'] <= t0 + 1e-9)]
        where = f"after-{before[-1]['do']}" if before else 'after-play'
        if fault and c.deaths and (t0 is None or min(c.deaths.values())
                                   + case['latency'] <= t0 + 1e-9):
            where = 'after-failed-event-and-' + (
                before[-1]['do'] if before and before[-1]['at'] >
                min(c.deaths.values()) else 'nothing')
        return where
    if raised:
        if cap.raised is None:
            cap.task_errors = cap.task_errors[allowed:]
        err = cap.raised or cap.task_errors[0][1]
        # (one key whichever call raised: reset(), reset() + play(),
        # play(reset=True) share the code)
        sites = tb_sites(err) if err is not None else []
        inside_reset = 'reset' in (cap.extra.get('raised_in') or '') and \
            ('eventstream.py', 'clear') in sites
        acc.violation(
            'C14/player-control-mono-raises/'
            + ('reset-runs-the-pattern-that-follows-in-the-sequence/'
               + type(err).__name__ if inside_reset and sites[-1] != (
                   'eventstream.py', 'clear')
               else exc_key(err) if err is not None else 'logged-error'),
            {'case': i, 'control_case': case,
             'raised_in': cap.extra.get('raised_in') or 'player',
             'tb': short_tb(err) if err is not None else
             cap.task_errors[0][0]})
        return
    if bad:
        times = [t for t in (_diff_time(k, d, ex) for k, d in bad)
                 if t is not None]
        t0 = min(times) if times else None
        first = sorted(bad, key=lambda kd: (
            _diff_time(kd[0], kd[1], ex) or float('inf')))[0]
        # a node that is released twice / never is the mechanism whatever
        # else differs
        classes = [_mono_diff_class(k) for k, _ in bad]
        cls = next((c_ for c_ in ('node-released-twice',
                                  'node-never-released') if c_ in classes),
                   _mono_diff_class(first[0]))
        key = f'C14/player-control-mono/{last_call(t0)}/{cls}'
        if cls == 'node-released-twice':
            # one mechanism whatever the history: named by the call at
            # which the extra release was sent (reset, reset + play and
            # play(reset=True) are one: the reset)
            ts = []
            for k, d in bad:
                if k.startswith('mono-release-duplicated'):
                    ts += sorted(d['released_at'])[1:]
                elif k.startswith('unexpected-traffic/n_'):
                    ts.append(d['t'])
            t2 = min(ts) - case['latency'] if ts else None
            call = next((a['do'] for a in acts if t2 is not None
                         and abs(a['at'] - t2) < 1e-6), 'no-call')
            call = 'reset' if 'reset' in call else call
            key = f'C14/player-control-mono/node-released-twice/at-{call}'
        acc.violation(
            key,
            {'case': i, 'control_case': case, 'first_difference_at': t0,
             'differences': sorted({k for k, _ in bad})[:8],
             'first': first[1], 'player_ended_at': cap.elapsed,
             'voices': ex.voices})
        return
    acc.count('mono_control_cases_ok')
    _key_set_counts(acc, case, 'mono_control')
    acc.count(f"mono_control_shape_{case['shape']}")
    acc.count(f"mono_control_family_{case['family']}")
    acc.count(f"mono_control_clock_{case['clock']}")
    kinds = _flat_kinds(case['pattern'])
    for k in ('pmono', 'pmono_artic'):
        if k in kinds:
            acc.count(f'mono_control_with_{k}')
    for do, n_ in c.effect.items():
        acc.count(f'mono_control_{do}_with_effect', n_)
    acc.count('mono_control_runs_checked', c.runs)
    acc.count('mono_control_nodes_released_exactly_once', len(ex.voices))
    for run_, _mid, _t, _x, by in ex.voices:
        acc.count(f'mono_control_node_released_by_{by}')
    # calls made while a node of a line was alive (from its /s_new to its
    # release; after a failing element: to the first call that stops or
    # restarts the player)
    L = case['latency']
    born = {n['mono']: n['time'] - L for n in ex.notes
            if n['mono'] is not None}
    spans = []
    for run_, mid, t_, _x, by in ex.voices:
        if (run_, mid) not in born:
            continue
        end = t_
        if by == 'call-after-failed-event':
            end = next((a['at'] for a in acts if a['at'] > t_ and a['do'] in (
                'stop', 'reset-play', 'play-reset')), float('inf'))
        spans.append((born[(run_, mid)], end))
    for a in acts:
        if any(b < a['at'] <= e for b, e in spans):
            acc.count(f"mono_control_{a['do']}_with_a_node_alive")
    if fault:
        acc.count('mono_control_runs_that_died_of_a_failing_event',
                  len(c.deaths))
        acc.count(f"mono_control_fault_kind_{fault['kind']}")
        if c.repair_before is not None:
            acc.count('mono_control_repaired_and_restarted')
        elif c.runs > 1:
            acc.count('mono_control_restarted_without_repair')
        if any(by == 'call-after-failed-event' for *_x, by in ex.voices):
            acc.count('mono_control_node_alive_when_its_line_failed')
    if acc.want_sample() and len(ex.notes) + len(ex.sets) <= 10 \
            and len(acts) >= 2 and ex.voices:
        acc.sample({'case': i, 'control_case': case,
                    'score': [[t, m.plain()] for t, m in cap.raw]})


def _pattern_fault_failed(case, info, groups):
    from vf import c14_run as run
    ex = run.expect_pattern_fault(case, info, groups)
    cap = run.run_pattern_fault_case(case)
    if cap.raised is not None or len(cap.task_errors) > ex.failing_players:
        return True
    return bool(run.compare(ex, cap, run._NoCount(), 'pfault', False))


def _entry_run(case, info, groups, acc, mon):
    """(failed, capture, expectation, differences) of one entry-point case."""
    from vf import c14_run as run
    cap, start = run.run_timeline_case(case)
    case['expanded'] = case['pattern']
    try:
        ex = run.expect_timeline(case, start, info, groups)
    finally:
        del case['expanded']
    if cap.raised is not None or cap.task_errors:
        return True, cap, ex, []
    bad = run.compare(ex, cap, acc, mon, False)
    return bool(bad), cap, ex, bad


def _neutralise(p, feat):
    """The same pattern without one entry point: Pkey columns written out as
    the values they copy, Pchain objects built by the constructor."""
    from vf import model_events as me
    kind = p[0]
    if kind in ('pbind', 'pmono'):
        m = p[1] if kind == 'pbind' else p[2]
        if feat != 'pkey' or not any(me._is_key_column(v) for v in m.values()):
            return p
        rows = me._bind_events(m)
        if not rows:
            return p
        m2 = {k: (['seq', [r[k] for r in rows], 1, 0]
                  if me._is_key_column(v) else v) for k, v in m.items()}
        return ['pbind', m2] if kind == 'pbind' else ['pmono', p[1], m2]
    if kind == 'ppar':
        return ['ppar', [_neutralise(c, feat) for c in p[1]]]
    if kind == 'pchain':
        how = p[3] if len(p) > 3 else 'ctor'
        return ['pchain', p[1], _neutralise(p[2], feat),
                'ctor' if feat == 'pchain' else how]
    if kind == 'pevent':
        return ['pevent', p[1], _neutralise(p[2], feat), p[3]]
    if kind in ('pdur', 'pdelta'):
        return [kind, p[1], _neutralise(p[2], feat)]
    return p


def _entry_culprit(case, info, groups):
    """Which entry point a difference belongs to: the one without which the
    case passes (tried in turn: Pkey written out, Pchain built by the
    constructor); Pevent when neither helps."""
    from vf import c14_run as run
    feats = sorted({'pchain-chain' if f.startswith('pchain') else f
                    for f in case['entry']})
    if len(feats) <= 1:
        return feats[0] if feats else 'none'
    for feat, name in (('pkey', 'pkey'), ('pchain', 'pchain-chain')):
        if name not in feats:
            continue
        c2 = dict(case, pattern=_neutralise(case['pattern'], feat))
        try:
            failed = _entry_run(c2, info, groups, run._NoCount(), 'entry')[0]
        except Exception:       # noqa
            continue
        if not failed:
            return name
    return 'pevent' if 'pevent' in feats else feats[0]


def _timeline_failed(case, info, groups):
    from vf import c14_run as run, model_events as me
    case = dict(case)
    case.pop('expanded', None)
    cap, start = run.run_timeline_case(case)
    case['expanded'] = me.expand(case['pattern'], case.get('shared') or {})
    ex = run.expect_timeline(case, start, info, groups)
    if cap.raised is not None or cap.task_errors:
        return True
    return bool(run.compare(ex, cap, run._NoCount(), 'tl', case['offgrid']))


def _rest_valued_delta_onsets(case, tl):
    """Onsets (relative) of events that hand a Rest-valued delta straight to the
    player: a Rest in dur/stretch/delta of a leaf that is not below a Ppar."""
    from vf import model_events as me
    kinds = _flat_kinds(case['expanded'])
    if 'ppar' in kinds or case.get('plays'):
        return []
    out = []
    for onset, e in tl.items:
        if e.kind == 'silent':
            continue
        k = e.keys
        if me.is_rest_value(k.get('delta')) or ('delta' not in k and (
                me.is_rest_value(k.get('dur'))
                or me.is_rest_value(k.get('stretch')))):
            out.append(onset)
    return out


def run_timeline(spec, acc):
    from vf import c14_gen as gen, c14_run as run, model_events as me
    insts, info, groups = _setup(spec, 'timeline')
    tags = itertools.count(1)
    for i in iter_cases(spec):
        rng = case_rng(spec['seed'], 'C14', 'timeline', i)
        case = gen.timeline_case(rng, insts, tags)
        if case.get('form') == 'derive':
            acc.case(h64(repr(case)), nontrivial=True)
            _run_derive(acc, i, case, info, groups)
            continue
        pat = me.expand(case['pattern'], case.get('shared') or {})
        kinds = _flat_kinds(pat)
        tl = me.timeline(pat)
        has_rest = any(e.rest and e.kind != 'silent' for _, e in tl.items)
        acc.case(h64(repr(case)), nontrivial=len(kinds) > 1 or has_rest
                 or 'form' in case or 'special' in case)
        if 'special' in case:
            acc.count(f"tl_special_{case['special']}")
        cap, start = run.run_timeline_case(case)
        case['expanded'] = pat
        ex = run.expect_timeline(case, start, info, groups)
        # diagnosis: an exception while an event was played, at the time of a
        # rest that is a rest only by a Rest object in a key that is neither a
        # duration nor a pitch source key (amp, pan, legato, a control ...)
        err = cap.raised or (cap.task_errors[0][1] if cap.task_errors else None)
        played = err is not None and ex.odd_rests \
            and ('event.py', 'play') in tb_sites(err)
        bad = []
        if cap.raised is None and not cap.task_errors:
            bad = run.compare(ex, cap, acc, 'tl', case['offgrid'])
            # ... or such a rest sent an /s_new (the Rest sits in a key that
            # is no control of the instrument): what else differs follows
            played = any(k == 'rest-sent-traffic'
                         and d.get('tag') in ex.odd_rest_tags for k, d in bad)
        if case.get('keysets') and (err is not None or cap.task_errors
                                    or bad):
            # key sets (tuple keys): a difference / exception that is gone
            # once the key sets are written out (or their surplus values
            # removed) belongs to them
            ks = _key_set_culprit(case, lambda c2: _timeline_failed(
                c2, info, groups))
            if ks:
                del case['expanded']
                _key_set_violation(acc, i, ks, case, cap, bad)
                continue
        # diagnosis: a child of a Ppar whose event is a rest only by the Rest
        # object in its delta - the Ppar replaces the delta by a plain number
        # and the event is played (a Pmono child's first event: before it was
        # prepared, KeyError)
        if ex.delta_only_rest_tags and 'ppar' in kinds and (
                any(k == 'rest-sent-traffic'
                    and d.get('tag') in ex.delta_only_rest_tags
                    for k, d in bad)
                or (isinstance(err, KeyError)
                    and ('event.py', 'play') in tb_sites(err))):
            del case['expanded']
            acc.violation('C14/timeline/ppar-child-rest-by-rest-valued-delta-'
                          'is-played',
                          {'case': i, 'timeline_case': case,
                           'sent': [d for k, d in bad
                                    if k == 'rest-sent-traffic'][:2],
                           'tb': short_tb(err) if err is not None else None})
            continue
        if played:
            del case['expanded']
            where = ('prototype-event' if case.get('proto') == 'event-rest'
                     else 'other-than-duration-or-pitch-key')
            acc.violation(f'C14/timeline/rest-is-played/rest-object-in-{where}',
                          {'case': i, 'timeline_case': case,
                           'player_ended_at': cap.elapsed,
                           'such_rests_at': ex.odd_rests[:6],
                           'sent': [d for k, d in bad
                                    if k == 'rest-sent-traffic'][:2],
                           'tb': short_tb(err) if err is not None else None})
            continue
        if _report_raises(acc, 'timeline', cap, i, {'timeline_case': case}):
            continue
        del case['expanded']
        if case.get('special') == 'pchain-pmono':
            acc.count(f"tl_pchain_{case['shape']}")
            if case['left_controls']:
                acc.count('tl_pchain_pmono_left_controls')
            if case['left_controls'] and bad:
                # the left operand defines values the mono messages carry
                acc.violation('C14/timeline/pchain-over-pmono-left-values-'
                              'not-carried', {'case': i, 'timeline_case': case,
                                              'differences': sorted(
                                                  {k for k, _ in bad}),
                                              'first': bad[0][1]})
                continue
            if bad:
                # the chained line is no mono line any more / its timeline or
                # release differs: one key, the witness lists the differences
                acc.violation('C14/timeline/chained-pmono-line-differs',
                              {'case': i, 'timeline_case': case,
                               'differences': sorted({k for k, _ in bad}),
                               'first': bad[0][1]})
                continue
        if case.get('special') == 'chain-in-sequence':
            # round 10: a Pchain inside a sequence that ends by its left
            # operand: the pattern that follows is a fresh embedding
            if bad and case['ends_by'] == 'left-operand':
                acc.violation(
                    'C14/timeline/pchain-ended-by-a-left-operand-hands-its-'
                    'unfinished-event-to-the-next-pattern-of-a-sequence',
                    {'case': i, 'timeline_case': case,
                     'differences': sorted({k for k, _ in bad})[:8],
                     'first': bad[0][1]})
                continue
            if not bad:
                acc.count('tl_chain_in_sequence_ok_ended_by_'
                          + case['ends_by'])
                acc.count(f"tl_chain_in_sequence_ok_{case['shape']}")
        # differences that already carry their own mechanism key (input
        # classes of the pitch chain) are reported as they are; the rest goes
        # through the diagnoses below
        for k, detail in bad:
            if k.startswith('C14/'):
                if case.get('special') == 'pitch-alone' and detail.get(
                        'name') == 'freq' and isinstance(detail.get('event'),
                                                         dict):
                    # round 10: the input key the played freq does not
                    # depend on
                    k = _ignored_pitch_key(detail['event'], 'detuned',
                                           detail.get('got_list')) or k
                acc.violation(k, dict(detail, case=i, timeline_case=case))
        full, bad = bad, [(k, d) for k, d in bad if not k.startswith('C14/')]
        if case.get('special') == 'pitch-alone' and not full:
            acc.count('tl_pitch_alone_cases_ok')
            acc.count(f"tl_pitch_alone_shape_{case['shape']}")
            if len(case['alone']) == 1:
                acc.count(f"tl_pitch_key_alone_{case['alone'][0]}")
            shifted = sum(
                1 for n_ in ex.notes + ex.sets
                if (n_['ev'].get('scale') or {}).get('kind', '').startswith(
                    'shifted'))
            acc.count('tl_pitch_alone_events_with_shifted_scale', shifted)
            if case['alone'] == ['scale']:
                acc.count('tl_shifted_scale_alone_events', shifted)
        # diagnosis: a Pmono whose first events are rests
        if bad and 'pmono-leading-rest' in tl.flags and all(
                k.startswith(('missing-s_new/mono_on', 'missing-n_set/mono',
                              'unexpected-traffic/n_set', 'mono-release',
                              'unexpected-traffic/n_free'))
                for k, _ in bad):
            acc.violation('C14/timeline/pmono-leading-rest-node-never-created',
                          {'case': i, 'differences': sorted({k for k, _ in bad}),
                           'first': bad[0][1], 'timeline_case': case})
            continue
        if 'pmono-leading-rest' in tl.flags and not bad:
            acc.count('tl_pmono_leading_rest_ok')
        if 'form' in case:
            # the same pattern object embedded / played more than once: one
            # mechanism class per kind of re-use history
            acc.count(f"tl_reuse_{case['form']}")
            same = case.get('restart', 'new-player') != 'new-player'
            if not full:
                acc.count('tl_reuse_cases_ok')
                _key_set_counts(acc, case, 'tl')
                if case['form'] == 'stop-replay':
                    acc.count(f"tl_restart_by_{case['restart']}")
                    if same:
                        # mono nodes that were alive when the player was
                        # stopped (released there, once) before a restart
                        n_alive = sum(
                            1 for (_st, tl_), pl in zip(ex.tls, case['plays'])
                            if pl.get('stop') is not None
                            and pl is not case['plays'][-1]
                            for t_, _m, _x in tl_.releases
                            if t_ == pl['stop'] - pl['at'])
                        acc.count('tl_same_player_restarted_after_stop')
                        acc.count('tl_same_player_restart_nodes_released_'
                                  'by_the_stop', n_alive)
            if bad and same:
                # the SAME player restarted (reset + play / play(reset=True))
                # after a stop: what happened to the mono nodes, else the
                # time line
                classes = [_mono_diff_class(k) for k, _ in bad]
                cls = next((c_ for c_ in ('node-released-twice',
                                          'node-never-released')
                            if c_ in classes), classes[0])
                acc.violation(
                    'C14/timeline-object-reuse/same-player-restarted-after-'
                    f'stop/{cls}',
                    {'case': i, 'form': case['form'],
                     'restart': case['restart'],
                     'differences': sorted({k for k, _ in bad}),
                     'first': bad[0][1], 'timeline_case': case})
                continue
            if bad:
                cls = {'cut-then-full': 'embedded-again-after-a-cut',
                       'cuts': 'embedded-again-after-a-cut',
                       'pn-cut': 'embedded-again-after-a-cut',
                       'pn-full': 'embedded-again-after-a-complete-run',
                       'par-twice': 'embedded-concurrently',
                       'players-overlap': 'embedded-concurrently',
                       'stop-replay': 'played-again-after-stop'}[case['form']]
                acc.violation(
                    f'C14/timeline-object-reuse/{cls}',
                    {'case': i, 'form': case['form'],
                     'differences': sorted({k for k, _ in bad}),
                     'first': bad[0][1], 'timeline_case': case})
            continue
        if case.get('special') == 'pmono-artic' and bad:
            # Pmono(articulate=True): one key for the slur / re-articulation
            # logic, the witness lists the traffic differences
            acc.violation('C14/timeline/articulated-pmono-slur-or-release-'
                          'differs', {'case': i, 'timeline_case': case,
                                      'differences': sorted({k for k, _ in bad}),
                                      'first': bad[0][1]})
            continue
        if 'special' in case and not full:
            acc.count(f"tl_special_ok_{case['special']}")
        case['expanded'] = pat
        # diagnosis: the player stopped at a rest whose delta is a Rest object
        rv = _rest_valued_delta_onsets(case, tl)
        if bad and rv and cap.elapsed is not None \
                and run.close(cap.elapsed, start + rv[0], 1e-9, 1e-9) \
                and all(k.startswith(('missing-', 'total-duration',
                                      'mono-release', 'gate-off-missing'))
                        for k, _ in bad):
            acc.violation('C14/timeline/player-stops-at-rest-valued-delta',
                          {'case': i, 'timeline_case': case,
                           'stopped_at': cap.elapsed,
                           'expected_total': ex.total})
            continue
        del case['expanded']
        # diagnosis: Pdur cut an event whose delta is an int
        if bad and 'clipped-delta-was-int' in tl.flags and all(
                k.startswith(('total-duration', 'time/mono-release'))
                for k, _ in bad):
            acc.violation('C14/timeline/pdur-truncates-remaining-time-of-int-'
                          'delta', {'case': i, 'timeline_case': case,
                                    'elapsed': cap.elapsed,
                                    'expected_total': ex.total})
            continue
        for k, detail in bad:
            acc.violation(k if k.startswith('C14/') else f'C14/timeline/{k}',
                          dict(detail, case=i, timeline_case=case))
        if not full:
            _key_set_counts(acc, case, 'tl')
            acc.count('tl_rests_silent', ex.rests)
            for c, k in ex.rest_classes.items():
                acc.count(f'tl_rests_with_rest_object_in_{c}_key', k)
            if ex.odd_rests:
                acc.count('tl_rests_only_by_other_than_dur_or_pitch_key',
                          len(ex.odd_rests))
                last = max(ex.odd_rests)
                acc.count('tl_notes_after_such_a_rest_checked',
                          sum(1 for n in ex.notes if n['time'] > last))
            if case.get('proto') == 'event-rest':
                acc.count('tl_rest_in_prototype_event_cases')
            for k in kinds:
                if k == 'pdur':
                    continue
                acc.count(f'tl_with_{k}')
            if 'pdur' in kinds:
                acc.count('tl_with_pdur')
                if _clips(pat):
                    acc.count('tl_with_pdur_clipping')
        if not acc.samples and len(kinds) >= 3 and len(tl.items) <= 8 \
                and not bad:
            acc.sample({'case': i, 'timeline_case': case,
                        'expected_total': ex.total,
                        'score': [[t, m.plain()] for t, m in cap.raw]})


def _run_derive(acc, i, case, info, groups):
    """Round 10: a history on two or three pattern objects, one derived from
    the other (vf/c14_derive.py); every play is judged against the timeline
    of what the played object's OWN construction says."""
    from vf import c14_derive as dv, c14_run as run
    ex = dv.expect_derive(case, info, groups)
    cap = dv.run_derive_case(case)
    raised = cap.raised is not None or bool(cap.task_errors)
    bad = [] if raised else run.compare(ex, cap, acc, 'derive', False)
    hows = [o['build'][0] for o in case['objects'][1:]]
    if raised or bad:
        what, how, j = dv.culprit(case, info, groups)
        m_ = case['objects'][j]['model'] if j is not None else None
        if what in ('derived-object-differs', 'base-pattern') and m_ \
                and dv.unfinished_chain_event_in_sequence(m_):
            # diagnosis: the object is a sequence (Pseq / Pn) in which a
            # Pchain ends by an operand other than its rightmost one: the
            # event it had begun is handed to the pattern that follows
            acc.violation(
                'C14/timeline/pchain-ended-by-a-left-operand-hands-its-'
                'unfinished-event-to-the-next-pattern-of-a-sequence',
                {'case': i, 'derive_case': case, 'object': j,
                 'differences': sorted({k_ for k_, _ in bad})[:8],
                 'first': bad[0][1] if bad else None,
                 'tb': short_tb(cap.raised) if cap.raised is not None
                 else None})
            return
        if raised:
            err = cap.raised or cap.task_errors[0][1]
            acc.violation(
                f'C14/derived-pattern-object-raises/{what}/{how}/' + (
                    exc_key(err) if err is not None else 'logged-error'),
                {'case': i, 'derive_case': case,
                 'raised_in': cap.extra.get('raised_in') or 'player',
                 'tb': short_tb(err) if err is not None else
                 cap.task_errors[0][0]})
            return
        first = sorted(bad, key=lambda kd: (
            _diff_time(kd[0], kd[1], ex) or float('inf')))[0]
        k = first[0].split('/', 2)[-1] if first[0].startswith('C14/') \
            else first[0]
        acc.violation(
            f'C14/derived-pattern-object/{what}/{how}/'
            + _control_diff_class(k),
            {'case': i, 'derive_case': case,
             'differences': sorted({k_ for k_, _ in bad})[:8],
             'first': first[1], 'player_ended_at': cap.elapsed})
        return
    acc.count('derive_cases_ok')
    acc.count(f"derive_order_{case['order']}")
    acc.count('derive_plays_overlapping' if case['overlap']
              else 'derive_plays_one_after_the_other')
    acc.count(f"derive_base_{case['objects'][0]['kind']}")
    for h in hows:
        acc.count(f'derive_by_{h}')
    if len(hows) > 1:
        acc.count('derive_two_derivations')
        if case['objects'][2].get('src') != 'a':
            acc.count('derive_from_a_derived_object')
    t_d = case['objects'][1]['at']
    for pl, tl in ex.plays:
        n_ = sum(1 for _, e in tl.items if not e.rest)
        if pl['use'] == 'a':
            if pl['at'] > t_d or t_d == 0.0:
                acc.count('derive_original_played_after_the_derivation')
                acc.count('derive_original_events_after_the_derivation', n_)
            elif pl['at'] + tl.total > t_d:
                acc.count('derive_original_playing_at_the_derivation')
        else:
            acc.count('derive_derived_object_played')
            acc.count('derive_derived_object_events_checked', n_)
    if acc.want_sample() and len(ex.notes) <= 10 and len(case['plays']) >= 2:
        acc.sample({'case': i, 'derive_case': case,
                    'score': [[t, m.plain()] for t, m in cap.raw]})


def _clips(p):
    from vf import model_events as me
    if p[0] == 'pdur':
        return me.timeline(p[2]).total > p[1] or _clips(p[2])
    if p[0] in ('ppar', 'pseq'):
        return any(_clips(c) for c in p[1])
    if p[0] in ('pchain', 'pdelta', 'pn'):
        return _clips(p[2])
    return False
