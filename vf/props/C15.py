"""C15 - operators lift uniformly over functions, streams, patterns, lists,
channel lists and operands; numeric kernels satisfy their range/inverse laws.

Monitors
* lifting (methods): every operator method found in vars(AbstractObject)
  (special methods are applied the way Python applies them: -a, a + b, 3 + a,
  abs(a), round(a), math.floor(a) ...) is applied to freshly built operands of
  every kind; the composed object is evaluated to a normal form and compared
  with the plain numeric selector applied to the operands' known values
  (vf/c15_kinds.py: element-wise, shortest stream, list wrap-around, left
  operand decides the outer structure).  Exception *types* must agree too.
* lifting (builtins): the same for every function of sc3.base.builtins made by
  the scbuiltin decorators, including the number-on-the-left forms.
* laws: wrap/fold/wrap2/fold2/clip2 inside closed bounds, clip idempotent, round/roundup/
  trunc multiples of the quantum on the correct side, mod in [0, b), the four
  inverse pairs (vf/c15_laws.py; in-domain arguments only).
* laws, operands a hair beside a multiple (round 10, vf/c15_laws.py law_near):
  x = (k +- 2**-j) * quant and (k + 1/2 +- 2**-j) * quant, 1 ulp ... 2**-28
  relative, dyadic quanta, all exactly representable, so the documented
  formulas are exact: trunc / roundup / round must return THE nearest multiple
  on the correct side (exact fractions.Fraction reference) - the tolerance
  laws accept a wrong-side multiple within a few ulp of the operand.
* comparisons (round 10, vf/c15_compare.py, run with the meta checks): the six
  comparison operators, Python spelling, on Operand / Rest / lifted objects
  against a plain number or the same family on either side, over int / float
  spellings of equal and unequal values and ints beyond 2**53; reference: the
  Python comparison of the plain numbers.
* meta: a method's selector has the method's name; every binary special
  method has its reflected form; no operator method is hidden by an instance
  attribute of a subclass.
* effects (vf/c15_effects.py): operand functions and operand streams WITH
  state, side effects and failures (TypeError and other exception types raised
  inside the operand's body, for some inputs or at some point of its life),
  lifted with every operator, called / pulled repeatedly with continued use
  after a failure.  A trace checker over the operand bodies' own logs: every
  body runs once per occurrence and per call (never twice, never after another
  operand failed), receives the arguments of the direct call (spare positional
  / keyword arguments discarded), its exception comes out of the lifted call
  unchanged, the value returned is the operator applied to the logged values.
Kernel bugs cancel in the lifting law (same kernel on both sides) and are the
law monitors' business.
"""

from vf.common import iter_cases, case_rng, h64, split, short_tb, tb_sites

LEVEL = 'exploration'
RULE = ("operator entry points enumerated by introspection (all operator methods "
        "of AbstractObject, all scbuiltin-decorated functions of "
        "sc3.base.builtins; one counter per entry point), each applied round-"
        "robin to random operand kinds {int, float, Function, composed Function, "
        "Routine, composed stream, Pattern, composed pattern, ChannelList, nested "
        "ChannelList, arrayed_param, list, tuple, nested list, Operand, Rest} on "
        "either side with random small int/float values; law samples draw "
        "in-domain int/float arguments incl. boundaries and mixed types, and operands "
        "(k +- 2**-j) * quant a hair beside multiples / ties of dyadic quanta; a "
        "deterministic grid of 9600 comparisons (6 operators x 50 value pairs in "
        "int/float spellings x 32 kind pairs); a lifting "
        "case is non-trivial when the evaluation is a value (not an exception); "
        "a law case always is; distinct = hash of entry point, kinds and values; "
        "effects cases: random expression (depth <= 2) of one operator entry over "
        "logging operand functions (signatures (), (x), (x, y), (x, gain=2); scripted "
        "per run or computed from the arguments; 15 ways of failing) or logging "
        "operand streams (FunctionStream, Pfunc, Pfuncn, Routine, Prout), 5-12 calls "
        "/ pulls with random call shapes; non-trivial when a value is returned "
        "after an operand failure in the same history")
ASSUMPTIONS = [
    "the numeric meaning of an operator method is the selector it hands to the "
    "composition hook (found with a probe object), applied to plain numbers; "
    "its name is checked against the method name",
    "the lifting monitors apply the SAME kernel to the plain values, so they "
    "are blind to kernel defects by construction (also when both sides raise: "
    "outcomes are equal when the exception classes are equal); kernels are "
    "judged only by the law monitors: wrap/fold/clip/wrap2/fold2/clip2 bounds, "
    "clip idempotence, round/roundup/trunc, mod, the four inverse pairs, and "
    "the exact fraction reference (round family, wrap, fold, clip, mod, ceil, "
    "floor on ties and boundaries, int vs float spellings).  Kernels outside "
    "the statement's law list (pow, div, scaleneg, lin*/exp* maps, moddif, "
    "bit operations, gcd/lcm, random ranges ...) are not judged; an audit with "
    "independent references is recorded in "
    "proposed_fixes/C15-observations-kernels.md",
    "vf/c15_kinds.py reference: streams end with the shortest operand, lists "
    "wrap around (the empty list gives the empty list), the left operand "
    "decides the outer structure, functions are evaluated at the call "
    "argument, operands unwrap to their value",
    "not generated: a list receiver combined with a Routine on the right (the "
    "channels would share one stateful routine; evaluation order is "
    "unspecified); a plain number as receiver of an n-ary operator with "
    "abstract arguments (no reflected n-ary form exists); empty lists as "
    "arguments of n-ary operators (sclang's flop pads them, no agreed meaning); "
    "random kernels with nested operand kinds (draw order unspecified); zero / "
    "negative moduli, lo >= hi, quantum <= 0 in the laws (outside the "
    "documented domains); UGen operands (C03)",
    "re-entrant cases: when several levels of a recursion raise, any of their "
    "exception classes is accepted (evaluation order of the levels is not "
    "part of the property)",
    "stream histories: PausedStream and StopStream count as the same outcome "
    "of a pull; reset() of a composed stream restarts all its operands",
    "effects monitor: the order in which the operands of ONE lifted call are "
    "evaluated is not judged (stateful operands occur once per expression, "
    "operands occurring twice are pure in the call arguments); Function's "
    "calling convention 'spare positional and unknown keyword arguments are "
    "discarded' is taken from the library (functions.py doc string of value(), "
    "Function.__call__); only calls that bind for every operand are generated; "
    "functions with *args / **kwargs are not generated; routine based operand "
    "streams count as ended after their body raised; a pattern embedded in "
    "Pseq is not pulled again after an exception (the embedding routine is "
    "over); the operand bodies' own logs are trusted",
    "law tolerances: 4 ulp of the largest argument for range laws, 1e-12 "
    "relative for multiples, 1e-9 relative for inverse pairs (vf/c15_laws.py); "
    "the exact laws compare exactly on dyadic arguments",
    "law_near: only operands for which x, x / quant (and x / quant + 1/2) are "
    "exactly representable are generated (checked with Fraction), so the "
    "documented formulas floor(x/q)*q, ceil(x/q)*q, floor(x/q + .5)*q involve no "
    "rounding; trunc toward zero is accepted for negative operands as in "
    "law_round; decimal quanta (0.1 ...) stay with the tolerance laws",
    "comparison grid: the result of a comparison is evaluated like every lifted "
    "object (an Operand(False) unwraps to False); its truth value as an object is "
    "not judged; mixed families are left to the random lifting cases"]
FX_MIN = {'fx_function_calls_judged': 50000,
          'fx_function_calls_with_operand_failure': 18000,
          'fx_function_calls_after_a_failure': 30000,
          'fx_function_histories_value_after_failure': 4000,
          'fx_operand_failure_TypeError': 8000,
          'fx_operand_failure_other_types': 15000,
          'fx_expressions_with_an_operand_used_twice': 250,
          'fx_expressions_nested': 2000,
          'fx_function_call_pos-spare': 8000, 'fx_function_call_kw-spare': 8000,
          'fx_stream_pulls_judged': 18000,
          'fx_stream_pulls_with_operand_failure': 4500,
          'fx_stream_pulls_after_a_failure': 6000,
          'fx_stream_histories_value_after_failure': 1000,
          'fx_stream_operand_pfuncn': 700, 'fx_stream_operand_routine': 700,
          'fx_operand_bodies_run': 90000}
# round 10: comparison grid (deterministic, vf/c15_compare.py) and operands a
# hair beside a multiple of the quantum (vf/c15_laws.py law_near)
CMP_MIN = {'compare_cases_checked': 9000, 'compare_op_ne': 1500, 'compare_op_le': 1500,
           'compare_values_int-vs-float-equal-value': 1000,
           'compare_values_float-vs-int-equal-value': 1000,
           'compare_values_large-int-vs-float': 500,
           'compare_abstract-left_operand': 500, 'compare_number-left_operand': 500,
           'compare_both-abstract_operand': 1000}
NEAR_MIN = {'law_near': 2500,
            'law_near_hair-below-multiple': 500, 'law_near_hair-above-multiple': 500,
            'law_near_one-ulp-below-multiple': 80, 'law_near_one-ulp-above-multiple': 80,
            'law_near_hair-below-tie': 100, 'law_near_hair-above-tie': 100,
            'law_op_trunc': 2000, 'law_op_roundup': 2000}
MIN_COUNTERS = {
    'quick': {'lift_method_evaluations': 5000, 'lift_builtin_evaluations': 5000,
              'lift_value_agreements': 6000, 'law_samples': 20000,
              'law_exact_tie': 1500, 'evaluated_with_non_None_inval': 20000,
              'channellist_narop_longer_list_argument': 40,
              'stream_history_pulls_compared': 20000,
              'reentrant_function_calls_compared': 3000,
              'concurrent_function_calls_compared': 3000,
              # (lowered in round 7 from 1000 / 300: the time-bounded reent shards
              # reached 930 with 20 checks running on the 16 cores; 2500 / 850 alone)
              'shared_pattern_stream_pairs_compared': 700,
              'concurrent_pattern_stream_pairs_compared': 200,
              'stream_histories_poll_paused_then_continue': 500,
              'stream_histories_exhaust_then_reset_operand': 300,
              'max_method_entry_points': 100, 'max_builtin_entry_points': 100,
              'meta_checks': 100, **CMP_MIN, **NEAR_MIN,
              **{k: v for k, v in FX_MIN.items()}},
    'thorough': {'lift_method_evaluations': 600000,
                 'lift_builtin_evaluations': 600000,
                 'lift_value_agreements': 800000, 'law_samples': 3000000,
                 'law_exact_tie': 50000, 'evaluated_with_non_None_inval': 500000,
                 'channellist_narop_longer_list_argument': 2000,
                 'stream_history_pulls_compared': 1000000,
                 'reentrant_function_calls_compared': 100000,
                 'concurrent_function_calls_compared': 100000,
                 # (halved in round 7: with 20 checks running on the 16 cores the
                 # time-bounded reent shards reached 18000 / 6000)
                 'shared_pattern_stream_pairs_compared': 15000,
                 'concurrent_pattern_stream_pairs_compared': 5000,
                 'stream_histories_poll_paused_then_continue': 20000,
                 'stream_histories_exhaust_then_reset_operand': 10000,
                 'max_method_entry_points': 100, 'max_builtin_entry_points': 100,
                 'meta_checks': 100, **CMP_MIN,
                 **{k: 10 * v for k, v in NEAR_MIN.items()},
                 **{k: 5 * v for k, v in FX_MIN.items()}},
}


def plan(tier, seed):
    # thorough: 16 shards = one wave on 16 cores, bounded by time (secs per
    # shard); the case numbers are upper limits
    q = tier == 'quick'
    secs = 45 if q else 450
    shards = []
    for kind, total, parts in (('lift_m', 60000 if q else 7_000_000, 5 if q else 4),
                               ('lift_b', 60000 if q else 7_000_000, 5 if q else 4),
                               ('laws', 300000 if q else 30_000_000, 4 if q else 3)):
        for p, (f, n) in enumerate(split(total, parts)):
            shards.append({'name': f'{kind}{p}', 'mode': 'nrt', 'kind': kind,
                           'first_case': f, 'n': n, 'secs': secs,
                           'hard_timeout': secs + 150})
    for p, (f, n) in enumerate(split(30000 if q else 4_000_000, 2)):
        shards.append({'name': f'hist{p}', 'mode': 'nrt', 'kind': 'hist',
                       'first_case': f, 'n': n, 'secs': secs,
                       'hard_timeout': secs + 150})
    for p, (f, n) in enumerate(split(6000 if q else 300_000, 2)):
        shards.append({'name': f'reent{p}', 'mode': 'nrt', 'kind': 'reent',
                       'first_case': f, 'n': n, 'secs': secs,
                       'hard_timeout': secs + 150})
    # thorough stays at 16 shards (one wave): the single effects shard also
    # runs the (short) meta checks
    for p, (f, n) in enumerate(split(18000 if q else 900_000, 2 if q else 1)):
        shards.append({'name': f'fx{p}', 'mode': 'nrt', 'kind': 'fx',
                       'first_case': f, 'n': n, 'secs': secs, 'with_meta': not q,
                       'hard_timeout': secs + 150})
    if q:
        shards.append({'name': 'meta', 'mode': 'nrt', 'kind': 'meta',
                       'first_case': 0, 'n': 1, 'secs': secs,
                       'hard_timeout': secs + 150})
        # quick has more shards than cores: the reent shards (threads, sleeps:
        # the only ones that take their whole time budget on a busy machine)
        # start first, the others take seconds
        shards.sort(key=lambda s: s['kind'] != 'reent')
    return shards


class Timeout(BaseException):
    pass


def _alarm(signum, frame):
    raise Timeout()


class time_limit:
    def __init__(self, secs):
        self.secs = secs

    def __enter__(self):
        import signal
        self.old = signal.signal(signal.SIGALRM, _alarm)
        signal.setitimer(signal.ITIMER_REAL, self.secs)

    def __exit__(self, *exc):
        import signal
        signal.setitimer(signal.ITIMER_REAL, 0)
        signal.signal(signal.SIGALRM, self.old)
        return False


# ---------------------------------------------------------------------------
# operand kind selection

def other_kinds_for(akind, rng, plain_ok=True):
    """Kinds allowed on the other side of a binary operator whose receiver
    (the operand that decides the structure) has kind akind."""
    from vf import c15_kinds as ck
    fam = ck.family(akind)
    kinds = list(ck.NUMBER_KINDS) * 2 + list(ck.ABSTRACT_KINDS)
    if fam == 'channels':
        kinds = [k for k in kinds if ck.family(k) != 'stream']
        if plain_ok:
            kinds += ck.PLAIN_LIST_KINDS * 2
    return kinds


def narop_arg_kinds(akind):
    from vf import c15_kinds as ck
    fam = ck.family(akind)
    if fam == 'function':
        return ck.NUMBER_KINDS * 2 + ck.FUNC_KINDS
    if fam in ('stream', 'pattern'):
        return ck.NUMBER_KINDS * 2 + ['routine', 'cstream', 'pstream', 'fstream',
                                      'istream', 'pattern', 'cpattern', 'ipattern',
                                      'ifuncn']
    if fam == 'channels':
        return ck.NUMBER_KINDS
    if fam == 'operand':
        return ck.NUMBER_KINDS * 2 + ck.OPERAND_KINDS
    return ck.NUMBER_KINDS


RANDOM_RECEIVERS = ['func', 'cfunc', 'operand', 'rest', 'routine', 'pattern',
                    'chan', 'aparam']


def vrepr(nf):
    return repr(nf)[:300]


def overridden_by(obj, name):
    """Name of the class that overrides an operator method of AbstractObject
    (e.g. Operand.__eq__), else None."""
    from sc3.base import absobject as aob
    for cls in type(obj).__mro__:
        if name in cls.__dict__:
            if cls is aob.AbstractObject:
                return None
            return f'{cls.__name__}.{name}'
    return None


OPERAND_EQ_KEY = 'C15/lifting/operand/eq-delegates-to-value-dunder-eq'


class LiftCase:
    """One application of an operator entry point to fresh operands; can be
    rebuilt identically (same rng state) with some operands replaced by their
    plain values - used to classify a mismatch by mechanism."""

    def __init__(self, src, e, i, rng, x0, ints):
        self.src, self.e, self.i, self.rng = src, e, i, rng
        self.x0, self.ints = x0, ints
        self.expand = False
        self.number_left = False

    # -- choice of kinds (consumes rng once) ---------------------------------
    def choose(self, cycle):
        from vf import c15_kinds as ck
        e, rng = self.e, self.rng
        self.hook = e['hook'] if self.src == 'method' else \
            {'unop': 'unop', 'binop': 'binop', 'narop': 'narop'}[e['arity']]
        self.nsup = e['nreq'] + (rng.randint(0, e['nopt']) if e['nopt'] else 0)
        if self.src == 'builtin' and self.hook == 'binop' and self.nsup >= 1 \
                and rng.random() < 0.35 and not e['random']:
            self.number_left = True
        if e['random']:
            self.akind = rng.choice(RANDOM_RECEIVERS)
        elif self.number_left:
            self.akind = rng.choice(ck.NUMBER_KINDS + ['list'])
        else:
            self.akind = ck.ABSTRACT_KINDS[cycle % len(ck.ABSTRACT_KINDS)] \
                if rng.random() < 0.7 else rng.choice(ck.ABSTRACT_KINDS)
        fam = ck.family(self.akind)
        self.okinds = []
        for j in range(self.nsup):
            if e['random']:
                k = rng.choice(ck.NUMBER_KINDS)
            elif self.number_left:
                k = rng.choice(ck.CHAN_KINDS) if self.akind == 'list' else \
                    rng.choice(ck.ABSTRACT_KINDS)
            elif self.hook == 'rbinop':
                k = rng.choice(ck.NUMBER_KINDS)     # plain number on the left
            elif self.hook == 'binop':
                k = rng.choice(other_kinds_for(self.akind, rng))
            else:
                k = rng.choice(narop_arg_kinds(self.akind))
                if fam == 'channels' and rng.random() < 0.3:
                    k = rng.choice(['chan', 'list'])
                    self.expand = True
            self.okinds.append(k)
        self.fam = ck.family(self.okinds[0]) if self.number_left else fam
        self.state = rng.getstate()
        self.seedv = rng.randrange(10 ** 9)

    # -- operands ------------------------------------------------------------------
    def build(self, plain=()):
        from vf import c15_kinds as ck
        self.rng.setstate(self.state)
        a, nfa = ck.make(self.akind, self.rng, self.x0, self.ints)
        objs, nfs = [], []
        for j, k in enumerate(self.okinds):
            # an empty list as *argument* of an n-ary operator has no agreed
            # meaning (sclang's flop pads it); empty receivers / binary operands do
            o, nf = ck.make(k, self.rng, self.x0, self.ints,
                            allow_empty=self.hook != 'narop')
            if j in plain:
                o = nf
            objs.append(o); nfs.append(nf)
        return a, nfa, objs, nfs

    # -- reference ------------------------------------------------------------------
    def expected(self, nfa, nfs):
        from vf import c15_kinds as ck
        e = self.e
        ck.mods()['main']._m_rgen.seed(self.seedv)
        if self.src == 'method':
            sel = e['selector']
            sargs = []
            for kind_, v in e['template']:
                if kind_ == 'const':
                    sargs.append(v)
                elif v < self.nsup:
                    sargs.append(nfs[v])
                else:
                    sargs.append(e['opt_defaults'][v - e['nreq']])
        else:
            sel = e['func']
            sargs = list(nfs) + list(e['opt_defaults'][self.nsup - e['nreq']:])
        if self.hook == 'unop':
            exp = ck.ap1(sel, nfa)
        elif self.hook == 'binop':
            exp = ck.ap2(sel, nfa, sargs[0])
        elif self.hook == 'rbinop':
            exp = ck.ap2(sel, sargs[0], nfa)
        else:
            exp = ck.apn(sel, nfa, sargs, expand_lists=self.expand)
        return ck.collapse(exp)

    # -- the library ------------------------------------------------------------------
    def library(self, a, objs, via_wrapper_hook=False):
        from vf import c15_kinds as ck, c15_ops as ops
        e = self.e
        ck.mods()['main']._m_rgen.seed(self.seedv)
        try:
            with time_limit(10):
                try:
                    if via_wrapper_hook:
                        comp = a._compose_binop(e['wrapper'], objs[0])
                    elif self.src == 'builtin':
                        comp = e['wrapper'](a, *objs)
                    elif e['dunder']:
                        call = ops.DUNDER_CALL[e['name']]
                        comp = call(objs[0], a) if self.hook == 'rbinop' \
                            else call(a, *objs)
                    else:
                        comp = getattr(a, e['name'])(*objs)
                    return ck.evaluate(comp, self.x0)
                except Exception as ex:
                    return ('exc', type(ex).__name__)
        except Timeout:
            return ('exc', 'HANG')

    # -- mechanism key of a mismatch ---------------------------------------------------
    def classify(self, a, exp):
        from vf import c15_kinds as ck
        hook, fam = self.hook, self.fam
        fams = [ck.family(k) for k in self.okinds]

        def agrees_with(plain):
            a2, nfa2, objs2, nfs2 = self.build(plain)
            return ck.same(self.expected(nfa2, nfs2), self.library(a2, objs2))

        if getattr(self.e.get('selector'), '__name__', '') == 'eq' and \
                (fam == 'operand' or 'operand' in fams):
            return OPERAND_EQ_KEY
        if hook == 'narop' and fam == 'function' and 'cfunc' in self.okinds:
            idx = [j for j, k in enumerate(self.okinds) if k == 'cfunc']
            if agrees_with(idx):
                return ('C15/lifting/function/narop/'
                        'composed-function-argument-not-evaluated')
        if hook == 'narop' and fam == 'operand' and 'operand' in fams:
            idx = [j for j, f in enumerate(fams) if f == 'operand']
            if agrees_with(idx):
                return ('C15/lifting/operand/narop/'
                        'operand-argument-not-unwrapped')
        def has_empty(nf):
            return ck.is_chan(nf) and (not nf[1] or any(has_empty(i) for i in nf[1]))
        a0, nfa0, objs0, nfs0 = self.build()
        if has_empty(nfa0) or any(has_empty(x) for x in nfs0):
            # "lists of any length": the empty list
            if self.src == 'method' and \
                    (overridden_by(a, self.e['name']) or '').startswith('ChannelList.'):
                return 'C15/lifting/channels/empty-list-operand/multichannel-perform'
            return f'C15/lifting/channels/empty-list-operand/list-{hook}'
        if self.src == 'method' and self.akind == 'nchan' \
                and (overridden_by(a, self.e['name']) or '').startswith('ChannelList.'):
            # ChannelList's own (UGen oriented) operator methods perform on
            # ugen_param wrappers; a nested list becomes a UGenSequence
            return 'C15/lifting/channels/overridden-method/nested-ChannelList'
        if hook == 'narop' and self.expand:
            if self.src == 'method' and \
                    (overridden_by(a, self.e['name']) or '').startswith('ChannelList.'):
                # ChannelList's own n-ary methods do expand list arguments
                # (flop): a wrong expansion is not the known list_narop finding
                return ('C15/lifting/channels/method-narop/'
                        'ChannelList-list-argument-expansion')
            return 'C15/lifting/channels/narop/list-argument-not-expanded'
        if self.src == 'builtin' and hook == 'binop' and not self.number_left \
                and fams and fams[0] not in ('number', fam):
            a2, nfa2, objs2, nfs2 = self.build()
            if hasattr(a2, '_compose_binop') and ck.same(
                    self.expected(nfa2, nfs2),
                    self.library(a2, objs2, via_wrapper_hook=True)):
                return ('C15/lifting/builtin-binop/'
                        'undecorated-kernel-meets-other-kind')
        o = '+'.join(sorted(set(fams))) if fams else 'none'
        if self.number_left:
            o, hook = ck.family(self.akind), 'rbinop'
        k = f'C15/lifting/{fam}/{self.src}-{hook}/with-{o}'
        ov = overridden_by(a, self.e['name']) if self.src == 'method' else None
        k += f'/{ov}' if ov else ''
        if ck.EVAL_MODE[0] != 'stream':
            # does the same application agree when the composed pattern is
            # streamed directly?  then the embedding path is the mechanism
            mode = ck.EVAL_MODE[0]
            ck.EVAL_MODE[0] = 'stream'
            try:
                a2, nfa2, objs2, nfs2 = self.build()
                if ck.same(self.expected(nfa2, nfs2), self.library(a2, objs2)):
                    # one mechanism whatever the spelling / argument kinds
                    k = f'C15/lifting/{fam}/{hook}/only-when-embedded'
            finally:
                ck.EVAL_MODE[0] = mode
        return k


def run_lift(spec, acc, src):
    from vf import c15_kinds as ck, c15_ops as ops
    bents = ops.builtin_entries()
    if src == 'method':
        entries = ops.method_entries()
        for e in entries:
            e['random'] = ops.random_selector(e['selector'], bents)
        acc.counters['max_method_entry_points'] = len(entries)
        tag, cnt = 'lift_m', 'lift_method_evaluations'
    else:
        entries = bents
        acc.counters['max_builtin_entry_points'] = len(entries)
        tag, cnt = 'lift_b', 'lift_builtin_evaluations'
    ne = len(entries)
    for i in iter_cases(spec):
        rng = case_rng(spec['seed'], 'C15', tag, i)
        e = entries[i % ne]
        acc.count(('m_' if src == 'method' else 'b_') + e['name'])
        x0 = rng.choice([-2, 0, 1, 3, 0.5, 2.5])
        lc = LiftCase(src, e, i, rng, x0, rng.random() < 0.5)
        ck.EVAL_MODE[0] = 'stream' if rng.random() < 0.4 else \
            rng.choice(ck.EVAL_MODES[1:])
        ck.INVAL[0] = rng.choice([None, 3, 2.5, -2])
        if ck.INVAL[0] is not None:
            acc.count('evaluated_with_non_None_inval')
        ck.CALL_BY_KEYWORD[0] = rng.random() < 0.3
        if ck.CALL_BY_KEYWORD[0]:
            acc.count('functions_called_by_keyword')
        lc.choose(i // ne)
        a, nfa, objs, nfs = lc.build()
        exp = lc.expected(nfa, nfs)
        got = lc.library(a, objs)
        acc.count(cnt)
        acc.count('patterns_evaluated_via_' + ck.EVAL_MODE[0])
        if lc.expand and lc.src == 'method' and lc.akind == 'chan' and any(
                ck.is_chan(x) and len(x[1]) > len(nfa[1]) for x in nfs):
            acc.count('channellist_narop_longer_list_argument')
        if any(ck.family(k) == 'stream' for k in lc.okinds) and \
                ck.family(lc.akind) == 'pattern' and ck.EVAL_MODE[0] != 'stream':
            acc.count('embedded_pattern_with_stream_argument')
        if lc.number_left:
            acc.count('builtin_number_on_the_left')
        if lc.hook == 'rbinop':
            acc.count('method_number_on_the_left')
        acc.count(f'receiver_{lc.akind}')
        for k in lc.okinds:
            acc.count(f'other_{k}')
        sig = (e['name'], lc.akind, tuple(lc.okinds), vrepr(nfa), vrepr(nfs), x0)
        isval = not ck.is_exc(exp)
        acc.case(h64(sig), nontrivial=isval)
        if ck.same(exp, got):
            acc.count('lift_value_agreements' if isval else
                      'lift_exception_agreements')
        else:
            key = lc.classify(a, exp)
            acc.violation(key, {
                'case': i, src: e['name'], 'hook': lc.hook,
                'receiver_kind': lc.akind, 'receiver_value': vrepr(nfa),
                'other_kinds': lc.okinds, 'other_values': vrepr(nfs), 'x0': x0,
                'number_on_the_left': lc.number_left or lc.hook == 'rbinop',
                'pattern_evaluated_via': ck.EVAL_MODE[0],
                'expected': vrepr(exp), 'library': vrepr(got)})
        if acc.want_sample() and isval and lc.okinds and rng.random() < 0.01:
            acc.sample({'case': i, src: e['name'], 'receiver': lc.akind,
                        'others': lc.okinds, 'receiver_value': vrepr(nfa),
                        'other_values': vrepr(nfs), 'evaluates_to': vrepr(got)})


# ---------------------------------------------------------------------------
# multi-step histories on composed streams: next(s op t) = next(s) op next(t)
# at every step while the operand routines are paused / resumed / reset /
# stopped between pulls.  The expectation is never written by hand: twin
# routines are driven through the same history and pulled left to right.

def srepr(x, n=200):
    try:
        return repr(x)[:n]
    except ValueError:          # int too large for str conversion
        return '<huge int>'


def _routine_pair(rng):
    """Two identical fresh routines (operand and twin) over varying values."""
    from sc3.base.stream import Routine
    start, step = rng.choice([-3, 0, 1, 2, 7]), rng.choice([1, 2, -1, 3, 0.5])
    length = rng.choice([2, 3, 4, None, None])      # None: endless

    def gen():
        n, k = start, 0
        while length is None or k < length:
            yield n
            n += step
            k += 1
    return Routine(gen), Routine(gen), (start, step, length)


def run_hist(spec, acc):
    from vf import c15_kinds as ck, c15_ops as ops
    from sc3.base.stream import StopStream
    from sc3.base.clock import Scheduler, SystemClock
    bents = ops.builtin_entries()
    ments = ops.method_entries()
    for e in ments:
        e['random'] = ops.random_selector(e['selector'], bents)
        e['src'] = 'method'
    for e in bents:
        e['src'] = 'builtin'
        e['hook'] = e['arity']
    entries = [e for e in ments + bents if not e['random']]
    wrappers = [e for e in ments if not e['random'] and e['hook'] in
                ('unop', 'binop', 'rbinop')]

    def apply(e, a, objs):
        if e['src'] == 'builtin':
            return e['wrapper'](a, *objs)
        if e['dunder']:
            call = ops.DUNDER_CALL[e['name']]
            return call(objs[0], a) if e['hook'] == 'rbinop' else call(a, *objs)
        return getattr(a, e['name'])(*objs)

    def selector_call(e, nsup):
        """plain function (receiver value, other values) -> result / ('exc', T)"""
        if e['src'] == 'builtin':
            sel = e['func']
            rest = list(e['opt_defaults'][nsup - e['nreq']:])
            return lambda a, vals: ck.scalar_call(sel, a, *vals, *rest)
        sel = e['selector']

        def f(a, vals):
            sargs = []
            for kind_, v in e['template']:
                if kind_ == 'const':
                    sargs.append(v)
                elif v < nsup:
                    sargs.append(vals[v])
                else:
                    sargs.append(e['opt_defaults'][v - e['nreq']])
            if e['hook'] == 'rbinop':
                return ck.scalar_call(sel, sargs[0], a)
            return ck.scalar_call(sel, a, *sargs)
        return f

    ne = len(entries)
    for i in iter_cases(spec):
        rng = case_rng(spec['seed'], 'C15', 'hist', i)
        e = entries[i % ne]
        hook = e['hook']
        acc.count('h_' + ('m_' if e['src'] == 'method' else 'b_') + e['name'])
        clock = Scheduler(SystemClock)          # never advanced
        reals, twins, descr = [], [], []
        r, t, d = _routine_pair(rng)
        reals.append(r); twins.append(t); descr.append(d)
        nsup = e['nreq'] + (rng.randint(0, e['nopt']) if e['nopt'] else 0)
        objs, others = [], []      # others: ('num', v) | ('rt', index)
        for j in range(nsup):
            if hook != 'rbinop' and rng.random() < 0.4:
                r, t, d = _routine_pair(rng)
                reals.append(r); twins.append(t); descr.append(d)
                objs.append(r); others.append(('rt', len(reals) - 1))
            else:
                v = ck.num(rng)
                objs.append(v); others.append(('num', v))
        try:
            comp = apply(e, reals[0], objs)
        except Exception as ex:
            acc.count('stream_history_compose_raises')
            continue
        inner = selector_call(e, nsup)
        outer = None
        if rng.random() < 0.35:                 # e.g. -(r + 1)
            e2 = rng.choice(wrappers)
            v2 = ck.num(rng)
            n2 = e2['nreq']
            try:
                comp = apply(e2, comp, [v2] * n2)
            except Exception:
                acc.count('stream_history_compose_raises')
                continue
            f2 = selector_call(e2, n2)
            outer = (e2['name'], lambda x, f2=f2, v2=v2, n2=n2: f2(x, [v2] * n2))
        if not hasattr(comp, 'next'):
            acc.count('stream_history_not_a_stream')
            continue

        def expected_pull():
            # next(s) op next(t), left to right; a StopStream (PausedStream is
            # one) of an operand ends this pull before later operands are asked
            try:
                if hook == 'rbinop':
                    a = twins[0].next()
                    vals = [o[1] for o in others]
                else:
                    a = twins[0].next()
                    vals = []
                    for o in others:
                        vals.append(o[1] if o[0] == 'num' else twins[o[1]].next())
            except StopStream:
                return ('exc', 'StopStream')
            res = inner(a, vals)
            if outer is not None and not ck.is_exc(res):
                res = outer[1](res)
            return res

        def real_pull():
            try:
                return comp.next()
            except StopStream:
                return ('exc', 'StopStream')
            except Exception as ex:
                return ('exc', type(ex).__name__)

        steps = rng.randint(5, 14)
        hist, last_ctl, bad = [], 'none', None
        paused_polled = [False] * len(reals)
        saw_end = False
        f_poll = f_exh = False
        for k in range(steps):
            c = rng.random()
            if c < 0.55 or k == 0:
                exp, got = expected_pull(), real_pull()
                hist.append(('pull', srepr(exp, 60)))
                acc.count('stream_history_pulls_compared')
                if ck.is_exc(exp) and exp[1] == 'StopStream':
                    saw_end = True
                    for idx, t in enumerate(twins):
                        if t.state == t.State.Paused:
                            paused_polled[idx] = True
                elif any(paused_polled) and last_ctl in ('resume', 'reset'):
                    f_poll = True
                if not ck.same(exp, got):
                    bad = (k, exp, got)
                    break
            else:
                idx = rng.randrange(len(reals))
                op = rng.choices(['pause', 'resume', 'reset', 'stop', 'reset-composed'],
                                 [4, 4, 3, 1, 1])[0]
                if op == 'reset-composed':
                    # reset() of a composed stream restarts all its operands
                    comp.reset()
                    for t in twins:
                        t.reset()
                    hist.append((op,))
                    last_ctl = op
                    acc.count('stream_history_reset_composed')
                    if saw_end:
                        f_exh = True
                    continue
                for rt in (reals[idx], twins[idx]):
                    if op == 'resume':
                        rt.resume(clock)
                    else:
                        getattr(rt, op)()
                if op == 'reset' and saw_end:
                    f_exh = True
                hist.append((op, idx))
                last_ctl = op
                acc.count('stream_history_' + op)
        if f_poll:
            acc.count('stream_histories_poll_paused_then_continue')
        if f_exh:
            acc.count('stream_histories_exhaust_then_reset_operand')
        acc.case(h64((e['src'], e['name'], repr(others), repr(descr), repr(hist))),
                 nontrivial=f_poll or f_exh)
        if bad:
            k, exp, got = bad
            acc.violation(
                f'C15/stream-history/diverges-after-{last_ctl}',
                {'case': i, e['src']: e['name'], 'hook': hook,
                 'wrapped_in': outer[0] if outer else None,
                 'routines(start,step,length)': descr, 'others': others,
                 'history': hist, 'step': k, 'expected': srepr(exp),
                 'library': srepr(got)})
        elif acc.want_sample() and (f_poll or f_exh) and rng.random() < 0.02:
            acc.sample({'case': i, e['src']: e['name'], 'others': others,
                        'routines': descr, 'history': hist})


# ---------------------------------------------------------------------------
# overlapping evaluations of ONE lifted object: re-entrancy in one thread,
# several threads under schedule injection, and two streams of one lifted
# pattern.  Oracle: the pointwise reference from plain Python values.

def _op_entries():
    from vf import c15_ops as ops
    bents = ops.builtin_entries()
    ments = ops.method_entries()
    for e in ments:
        e['random'] = ops.random_selector(e['selector'], bents)
        e['src'] = 'method'
    for e in bents:
        e['src'] = 'builtin'
        e['hook'] = e['arity']
    return [e for e in ments + bents if not e['random']]


def _apply_entry(e, a, objs):
    from vf import c15_ops as ops
    if e['src'] == 'builtin':
        return e['wrapper'](a, *objs)
    if e['dunder']:
        call = ops.DUNDER_CALL[e['name']]
        return call(objs[0], a) if e['hook'] == 'rbinop' else call(a, *objs)
    return getattr(a, e['name'])(*objs)


def _selector_call(e, nsup):
    """plain function (receiver value, [other values]) -> result | ('exc', T)"""
    from vf import c15_kinds as ck
    if e['src'] == 'builtin':
        sel = e['func']
        rest = list(e['opt_defaults'][nsup - e['nreq']:])
        return lambda a, vals: ck.scalar_call(sel, a, *vals, *rest)
    sel = e['selector']

    def f(a, vals):
        sargs = []
        for kind_, v in e['template']:
            if kind_ == 'const':
                sargs.append(v)
            elif v < nsup:
                sargs.append(vals[v])
            else:
                sargs.append(e['opt_defaults'][v - e['nreq']])
        if e['hook'] == 'rbinop':
            return ck.scalar_call(sel, sargs[0], a)
        return ck.scalar_call(sel, a, *sargs)
    return f


class FnCase:
    """h = op(f, args...) lifted over functions of x (linear, so that values
    differ with x), optionally with one participating function that evaluates
    h itself for x - step before returning its own value, optionally nested in
    a second expression that uses the object h twice."""

    def __init__(self, e, rng):
        self.e, self.rng = e, rng
        self.hook = e['hook']
        self.nsup = e['nreq'] + (rng.randint(0, e['nopt']) if e['nopt'] else 0)
        ints = rng.random() < 0.5
        lin = lambda: (rng.choice([1, 2, -1, 3, -2]),
                       rng.choice([0, 1, 4, -3]) if ints else
                       rng.choice([0.5, 1.0, -2.5, 4.0]))
        self.a = lin()
        self.args = []              # ('fn', k, c, composed) | ('num', v)
        for j in range(self.nsup):
            if self.hook != 'rbinop' and rng.random() < 0.65:
                self.args.append(('fn',) + lin() + (rng.random() < 0.3,))
            else:
                self.args.append(('num', rng.choice([0, 1, 2, 5, -1]) if ints else
                                  rng.choice([0.0, 0.5, 1.0, 2.5, 8.0])))
        if self.hook == 'narop' and not any(x[0] == 'fn' for x in self.args) \
                and self.args:
            j = rng.randrange(len(self.args))
            self.args[j] = ('fn',) + lin() + (False,)
        fpos = ['a'] + [j for j, x in enumerate(self.args) if x[0] == 'fn']
        self.reenter = rng.choice(fpos)
        self.step = rng.choice([1, 2, 3])
        self.variant = rng.choice(['plain', 'plain', 'twice', 'shifted', 'as-arg'])
        bins = [x for x in FnCase.binops]
        self.e2 = rng.choice(bins)
        self.sel = _selector_call(e, self.nsup)
        self.sel2 = _selector_call(self.e2, 1)

    binops = []

    # -- plain Python meaning --------------------------------------------------
    def py_h(self, x):
        a = x * self.a[0] + self.a[1]
        vals = [x * t[1] + t[2] if t[0] == 'fn' else t[1] for t in self.args]
        return self.sel(a, vals)

    def py_expr(self, x, excs):
        from vf import c15_kinds as ck

        def h(y):
            r = self.py_h(y)
            if ck.is_exc(r):
                excs.add(r[1])
            return r
        v = self.variant
        if v == 'plain':
            return h(x)
        if v == 'twice':
            l, r = h(x), h(x)
        elif v == 'shifted':
            l, r = h(x), h(x + 1)
        else:   # h used as receiver and as first argument of the same operator
            l = h(x)
            if ck.is_exc(l):
                return l
            vals = [l if j == 0 else (x * t[1] + t[2] if t[0] == 'fn' else t[1])
                    for j, t in enumerate(self.args)]
            r = self.sel(l, vals)
            if ck.is_exc(r):
                excs.add(r[1])
            return r
        if ck.is_exc(l):
            return l
        if ck.is_exc(r):
            return r
        out = self.sel2(l, [r])
        if ck.is_exc(out):
            excs.add(out[1])
        return out

    # -- real objects ----------------------------------------------------------------
    def build(self, reentrant):
        from sc3.base import functions as fn
        cell = [None]
        self.inner = inner = []
        step = self.step

        def mk(k, c, re_, composed=False):
            if re_:
                def f(x):
                    if x >= step:
                        inner.append((x - step, cell[0](x - step)))
                    return x * k + c
            else:
                def f(x):
                    return x * k + c
            F = fn.Function(f)
            return F + 0 if composed else F
        a = mk(self.a[0], self.a[1], reentrant and self.reenter == 'a')
        objs = [mk(t[1], t[2], reentrant and self.reenter == j, t[3])
                if t[0] == 'fn' else t[1] for j, t in enumerate(self.args)]
        h = cell[0] = _apply_entry(self.e, a, objs)
        v = self.variant
        if v == 'plain' or (v == 'as-arg' and (self.hook != 'narop' or not objs)):
            if v == 'as-arg':
                self.variant = 'plain'
            return h, h
        if v == 'twice':
            return h, _apply_entry(self.e2, h, [h])
        if v == 'shifted':
            return h, _apply_entry(self.e2, h, [fn.Function(lambda x: h(x + 1))])
        return h, _apply_entry(self.e, h, [h] + objs[1:])

    def describe(self):
        return {'operator': f"{self.e['src']}:{self.e['name']}", 'hook': self.hook,
                'f(x)=x*k+c': self.a, 'arguments': self.args,
                'reentrant_function': self.reenter, 'step': self.step,
                'expression': self.variant, 'second_operator': self.e2['name']}


def _call(f, x):
    try:
        return f(x)
    except Exception as ex:
        return ('exc', type(ex).__name__)


def _agree(exp, got, excs):
    from vf import c15_kinds as ck
    if ck.is_exc(got) and excs:
        return got[1] in excs       # several sources: any of their types
    return ck.same(exp, got)


def run_reent(spec, acc):
    import sys
    import threading
    from vf import c15_kinds as ck, inject
    from sc3.base import functions as fn, stream as stm
    from sc3.seq import pattern as ptt
    from sc3.seq.patterns import listpatterns as lp
    entries = _op_entries()
    narops = [e for e in entries if e['hook'] == 'narop' and e['nreq'] + e['nopt'] > 0]
    FnCase.binops = [e for e in entries if e['src'] == 'method' and
                     e['hook'] == 'binop' and e['name'] in
                     ('__add__', '__sub__', '__mul__', 'min', 'max', 'absdif')]
    codes = [inject.func_code(c.__call__) for c in
             (fn.NaropFunction, fn.BinopFunction, fn.UnopFunction, fn.Function)]
    codes += [inject.func_code(f) for f in
              (stm.NaropStream.next, stm.BinopStream.next, stm.UnopStream.next,
               ptt.Pnarop.__embed__, ptt.Punop.__embed__, lp.Pseq.__embed__)]
    inj = inject.Injector(codes, seed=spec['seed'])
    inj.max_sleep = 0.0003
    inj.start()
    old_si = sys.getswitchinterval()
    try:
        for i in iter_cases(spec):
            rng = case_rng(spec['seed'], 'C15', 'reent', i)
            nontrivial = False
            # ---- 1. re-entrant evaluation in one thread -------------------
            e = narops[i % len(narops)] if i % 3 else entries[i % len(entries)]
            acc.count('r_' + ('m_' if e['src'] == 'method' else 'b_') + e['name'])
            fc = FnCase(e, rng)
            xs = [rng.randint(0, 3 * fc.step) for _ in range(3)]
            try:
                h, expr = fc.build(reentrant=True)
            except Exception:
                acc.count('reent_compose_raises')
                h = None
            if h is not None:
                bad = None
                for x in xs:
                    fc.inner.clear()
                    excs = set()
                    exp = fc.py_expr(x, excs)
                    # every level of the recursion evaluates h as well
                    starts = [x, x + 1] if fc.variant == 'shifted' else [x]
                    for y0 in starts:
                        y = y0
                        while y >= 0:
                            r = fc.py_h(y)
                            if ck.is_exc(r):
                                excs.add(r[1])
                            if y < fc.step:
                                break
                            y -= fc.step
                    got = _call(expr, x)
                    acc.count('reentrant_function_calls_compared')
                    depth = x // fc.step
                    acc.count(f'reentrant_depth_{min(depth, 4)}')
                    if not _agree(exp, got, excs):
                        bad = (x, 'outer', exp, got)
                    else:
                        for y, r in list(fc.inner):
                            acc.count('reentrant_inner_results_compared')
                            if not ck.same(fc.py_h(y), r):
                                bad = (y, 'inner call made while h was being '
                                          'evaluated', fc.py_h(y), r)
                                break
                    if depth >= 1 and not ck.is_exc(exp):
                        nontrivial = True
                    if bad:
                        break
                if bad:
                    # the same object without re-entrancy, same x
                    _, expr2 = fc.build(reentrant=False)
                    ex2 = set()
                    seq_ok = _agree(fc.py_expr(bad[0], ex2), _call(expr2, bad[0]), ex2) \
                        if bad[1] == 'outer' else True
                    key = (f'C15/lifting/function/{fc.hook}/reentrant-evaluation'
                           if seq_ok else
                           f'C15/lifting/function/{fc.hook}/function-arguments')
                    w = fc.describe()
                    w.update({'case': i, 'x': bad[0], 'which': bad[1],
                              'expected': srepr(bad[2]), 'library': srepr(bad[3])})
                    acc.violation(key, w)
            # ---- 2. threads on the same lifted object ----------------------------
            if h is not None and i % 2 == 0:
                try:
                    h, expr = fc.build(reentrant=False)
                except Exception:
                    expr = None
                if expr is not None:
                    nth = rng.randint(2, 4)
                    plans = [[rng.randint(-4, 9) + 20 * t for _ in range(5)]
                             for t in range(nth)]
                    res = [None] * nth
                    barrier = threading.Barrier(nth)

                    def work(t):
                        barrier.wait(5)
                        res[t] = [_call(expr, x) for x in plans[t]]
                    ths = [threading.Thread(target=work, args=(t,), daemon=True)
                           for t in range(nth)]
                    inj.p_yield = 0.35
                    sys.setswitchinterval(5e-5)
                    try:
                        for t in ths:
                            t.start()
                        for t in ths:
                            t.join(20)
                    finally:
                        inj.p_yield = 0.0
                        sys.setswitchinterval(old_si)
                    if any(t.is_alive() for t in ths) or any(r is None for r in res):
                        acc.count('concurrent_threads_not_finished')
                    else:
                        bad = None
                        for t in range(nth):
                            for x, got in zip(plans[t], res[t]):
                                excs = set()
                                exp = fc.py_expr(x, excs)
                                acc.count('concurrent_function_calls_compared')
                                if not _agree(exp, got, excs) and bad is None:
                                    bad = (t, x, exp, got)
                        acc.count(f'concurrent_threads_{nth}')
                        nontrivial = True
                        if bad:
                            ex2 = set()
                            seq_ok = _agree(fc.py_expr(bad[1], ex2),
                                            _call(expr, bad[1]), ex2)
                            key = (f'C15/lifting/function/{fc.hook}/concurrent-evaluation'
                                   if seq_ok else
                                   f'C15/lifting/function/{fc.hook}/function-arguments')
                            w = fc.describe()
                            w.update({'case': i, 'threads': nth, 'thread': bad[0],
                                      'x': bad[1], 'expected': srepr(bad[2]),
                                      'library': srepr(bad[3]),
                                      'all_x': plans})
                            acc.violation(key, w)
            # ---- 3. two streams of one lifted pattern ------------------------------
            e3 = entries[(i * 7 + 3) % len(entries)]
            src3 = e3['src']
            lc = LiftCase(src3, e3, i, rng, 1, rng.random() < 0.5)
            lc.hook = e3['hook']
            lc.nsup = e3['nreq'] + (rng.randint(0, e3['nopt']) if e3['nopt'] else 0)
            lc.akind = rng.choice(['pattern', 'cpattern'])
            lc.okinds = [rng.choice(ck.NUMBER_KINDS if lc.hook == 'rbinop' else
                                    ck.NUMBER_KINDS + ['pattern', 'cpattern', 'pattern'])
                         for _ in range(lc.nsup)]
            lc.fam = 'pattern'
            lc.state = rng.getstate()
            lc.seedv = 0
            a, nfa, objs, nfs = lc.build()
            exp = lc.expected(nfa, nfs)
            try:
                comp = _apply_entry(e3, a, objs)
            except Exception:
                comp = None
            if isinstance(comp, ptt.Pattern) and ck.is_seq(exp) and len(exp[1]) >= 2:
                threaded = i % 4 == 1

                def pulls(s, n=ck.K):
                    out = []
                    for _ in range(n):
                        try:
                            out.append(s.next(None))
                        except stm.StopStream:
                            break
                        except Exception as ex:
                            return ('exc', type(ex).__name__)
                    return ck.collapse(('seq', out))
                s1 = stm.stream(comp)
                s2 = stm.stream(lp.Pseq([comp], 1))     # the embedding path
                if not threaded:
                    outs, done = [[], []], [False, False]
                    err = None
                    while not all(done):
                        k = rng.randrange(2)
                        if done[k]:
                            k = 1 - k
                        try:
                            outs[k].append((s1, s2)[k].next(None))
                        except stm.StopStream:
                            done[k] = True
                        except Exception as ex:
                            err = ('exc', type(ex).__name__)
                            break
                        if len(outs[k]) >= ck.K:
                            done[k] = True
                    got = [err or ck.collapse(('seq', o)) for o in outs]
                    acc.count('shared_pattern_stream_pairs_compared')
                    how = 'shared-object-alternate-streams'
                else:
                    got = [None, None]

                    def w3(k):
                        got[k] = pulls((s1, s2)[k])
                    ths = [threading.Thread(target=w3, args=(k,), daemon=True)
                           for k in (0, 1)]
                    inj.p_yield = 0.35
                    sys.setswitchinterval(5e-5)
                    try:
                        for t in ths:
                            t.start()
                        for t in ths:
                            t.join(20)
                    finally:
                        inj.p_yield = 0.0
                        sys.setswitchinterval(old_si)
                    acc.count('concurrent_pattern_stream_pairs_compared')
                    how = 'shared-object-concurrent-streams'
                nontrivial = True
                for k in (0, 1):
                    if got[k] is None or not ck.same(exp, got[k]):
                        acc.violation(
                            f'C15/lifting/pattern/{lc.hook}/{how}',
                            {'case': i, src3: e3['name'], 'receiver': vrepr(nfa),
                             'others': vrepr(nfs), 'stream': ('stream(p)',
                                                              'stream(Pseq([p]))')[k],
                             'expected': vrepr(exp), 'library': vrepr(got[k])})
                        break
            acc.case(h64((e['src'], e['name'], repr(fc.describe()), repr(xs),
                          e3['name'], vrepr(nfa), vrepr(nfs))), nontrivial=nontrivial)
            if acc.want_sample() and nontrivial and rng.random() < 0.01:
                acc.sample({'case': i, **fc.describe(), 'x_values': xs})
    finally:
        sys.setswitchinterval(old_si)
        acc.counters['injected_yields'] = inj.injected
        inj.stop()


def run_laws(spec, acc):
    from vf import c15_laws as laws
    from sc3.base import builtins as bi
    names = sorted(laws.LAWS)
    for i in iter_cases(spec):
        rng = case_rng(spec['seed'], 'C15', 'laws', i)
        law = names[i % len(names)]
        try:
            args, bad = laws.LAWS[law](bi, rng)
        except Exception as e:
            sites = tb_sites(e)
            where = sites[-1][1] if sites else '?'
            acc.violation(f'C15/law/{law}/raises-{type(e).__name__}/{where}',
                          {'case': i, 'law': law, 'tb': short_tb(e)})
            acc.case(h64((law, i)), nontrivial=True)
            continue
        acc.count('law_samples')
        acc.count('law_' + law)
        if law == 'inverse':
            acc.count('law_inverse_' + args['pair'])
        if 'op' in args:
            acc.count('law_op_' + args['op'])
        if law in ('exact', 'near'):
            acc.count(f'law_{law}_' + str(args.get('class', 'other')).split('/')[0])
            if 'via' in args:
                acc.count(f'law_{law}_via_' + args['via'])
        acc.case(h64((law, repr(sorted(args.items())))), nontrivial=True)
        if bad:
            lawname = bad[2] if len(bad) > 2 else law
            key = f'C15/law/{lawname}/' + '/'.join(bad[:2])
            w = dict(args)
            w.update({'case': i, 'law': law})
            acc.violation(key, w)
        elif acc.want_sample() and rng.random() < 0.001:
            acc.sample({'case': i, 'law': law, **args})


def run_meta(spec, acc):
    import inspect
    import re
    from vf import c15_ops as ops
    from sc3.base import absobject as aob
    import sc3.all  # noqa: every subclass defined
    entries = ops.method_entries()
    names = {e['name'] for e in entries}
    # 1. a method's selector carries the method's name
    for e in entries:
        ok, want, got = ops.selector_name_ok(e)
        acc.count('meta_checks')
        acc.count('meta_selector_names_checked')
        if not ok:
            acc.violation(f"C15/method-selector-name/{e['name']}",
                          {'case': 0, 'method': e['name'], 'selector': got,
                           'expected_name': want})
    # 2. every binary special method has its reflected form
    for e in entries:
        n = e['name']
        if e['hook'] == 'binop' and n.startswith('__') and \
                n not in ('__lt__', '__le__', '__eq__', '__ne__', '__gt__',
                          '__ge__', '__round__', '__trunc__'):
            acc.count('meta_checks')
            acc.count('meta_reflected_forms_checked')
            r = '__r' + n[2:]
            ent = [x for x in entries if x['name'] == r]
            if not ent or ent[0]['hook'] != 'rbinop' or \
                    ent[0]['selector'] is not e['selector']:
                acc.violation(f'C15/reflected-form-missing/{n}',
                              {'case': 0, 'method': n, 'reflected': r,
                               'found': bool(ent)})
    # 2b. == on operands whose value and the other side are int / float: the
    # composed comparison must evaluate like the plain one (deterministic
    # companion of the random lifting cases, which hit equal int/float pairs
    # rarely)
    from sc3.base.operand import Operand
    from sc3.seq.event import Rest
    for a, b in ((Operand(3), 3.0), (Operand(3.0), 3), (Rest(2), 2.0),
                 (Operand(3), Operand(3.0)), (3.0, Operand(3)),
                 (Operand(3), 3), (Operand(2.5), 2.5), (Operand(3), 4.0)):
        acc.count('meta_checks')
        acc.count('meta_operand_eq_checked')
        va = a.value if isinstance(a, Operand) else a
        vb = b.value if isinstance(b, Operand) else b
        r = a == b
        r = r.value if isinstance(r, Operand) else r
        if r is NotImplemented or bool(r) != (va == vb):
            acc.violation(OPERAND_EQ_KEY, {'case': 0, 'left': repr(a),
                                           'right': repr(b), 'result': repr(r),
                                           'expected': va == vb})
    # 2b'. all six comparison operators on int / float spellings of equal and
    # unequal values, Operand / Rest / lifted objects on either side
    # (vf/c15_compare.py)
    from vf import c15_compare
    c15_compare.run(acc, OPERAND_EQ_KEY)
    # 2c. the empty list as receiver / binary operand (deterministic companion
    # of the random lifting cases): the result is the empty list
    from sc3.synth.ugen import ChannelList
    for key, thunk in (
            ('C15/lifting/channels/empty-list-operand/multichannel-perform',
             lambda: ChannelList([]).clip(0, 1)),
            ('C15/lifting/channels/empty-list-operand/list-binop',
             lambda: ChannelList([1, [2, 3]]) + ChannelList([])),
            ('C15/lifting/channels/empty-list-operand/list-binop',
             lambda: ChannelList([]) * 2),
            ('C15/lifting/channels/empty-list-operand/list-binop',
             lambda: ChannelList([1, 2]) + [])):
        acc.count('meta_checks')
        acc.count('meta_empty_list_checked')
        try:
            r = thunk()
            bad = None if list(r) == [] else repr(r)
        except Exception as ex:
            bad = f'{type(ex).__name__}: {ex}'
        if bad:
            acc.violation(key, {'case': 0, 'result': bad, 'expected': '[]'})
    # 3. operator methods hidden by instance attributes of subclasses
    public = {n for n in names if not n.startswith('_')}

    def subclasses(c):
        for s in c.__subclasses__():
            yield s
            yield from subclasses(s)
    seen = set()
    for cls in subclasses(aob.AbstractObject):
        if cls in seen or not cls.__module__.startswith('sc3.'):
            continue
        seen.add(cls)
        acc.count('meta_checks')
        acc.count('meta_classes_scanned')
        attrs = set()
        for k in cls.__mro__:
            if k is aob.AbstractObject or not k.__module__.startswith('sc3.'):
                continue
            for fname in ('__init__', '__new__'):
                f = k.__dict__.get(fname)
                if f is None:
                    continue
                try:
                    src = inspect.getsource(f)
                except (OSError, TypeError):
                    continue
                attrs |= set(re.findall(r'\bself\.(\w+)\s*=[^=]', src))
            for n2, v in k.__dict__.items():
                if n2 in public and not callable(v) and \
                        not isinstance(v, (property, staticmethod, classmethod)):
                    attrs.add(n2)
        for hit in sorted(attrs & public):
            # properties defined on the class are not instance attributes
            if isinstance(inspect.getattr_static(cls, hit, None), property):
                continue
            w = {'case': 0, 'class': cls.__name__, 'attribute': hit,
                 'module': cls.__module__}
            if cls.__name__ == 'Pslide':
                try:
                    cls([1, 2, 3]).wrap(0, 2)
                    w['dynamic'] = 'call succeeded'
                except Exception as ex:
                    w['dynamic'] = f'{type(ex).__name__}: {ex}'
            # report once, for the class that introduces the attribute
            owner = cls
            for k in cls.__mro__[1:]:
                if k.__module__.startswith('sc3.') and k is not aob.AbstractObject:
                    f = k.__dict__.get('__init__')
                    try:
                        if f and re.search(r'\bself\.%s\s*=[^=]' % hit,
                                           inspect.getsource(f)):
                            owner = k
                    except (OSError, TypeError):
                        pass
            if owner is cls:
                acc.violation(
                    f'C15/operator-method-hidden-by-attribute/{cls.__name__}.{hit}', w)
    acc.case(h64('meta'), nontrivial=True)
    acc.case(h64('meta2'), nontrivial=True)


def run_shard(spec, acc):
    kind = spec['shard']['kind']
    if kind == 'lift_m':
        run_lift(spec, acc, 'method')
    elif kind == 'lift_b':
        run_lift(spec, acc, 'builtin')
    elif kind == 'laws':
        run_laws(spec, acc)
    elif kind == 'hist':
        run_hist(spec, acc)
    elif kind == 'reent':
        run_reent(spec, acc)
    elif kind == 'fx':
        from vf import c15_effects as fx
        if spec['shard'].get('with_meta'):
            run_meta(spec, acc)
        fx.run(spec, acc, _op_entries(), _apply_entry, _selector_call,
               time_limit, Timeout, iter_cases, case_rng, h64)
    else:
        run_meta(spec, acc)
