"""C06 - OSC encoding round-trips, conforms to OSC 1.0 and is sized correctly.

Monitors (all decide on bytes produced by the real library):

  roundtrip      every message / bundle list the library accepts
                 (OscInterface._build_msg/_build_bundle, or the public
                 NetAddr.send_msg/send_bundle with `_send` of the interface
                 instance replaced by a recorder) is decoded by the strict,
                 independent OSC 1.0 reader vf/osc.py and compared with the
                 coercion model vf/c06_model.py (address, tags, values, nested
                 packets inside blobs, arrays, timetags).  Values without an
                 OSC representation must be refused.
  library reader OscMessage / OscBundle / OscPacket applied to the same bytes
                 must give the same address, parameters and timetags;
                 OscPacket.messages must be the document-order flattening of
                 the independent decode, stably sorted by timetag (bundles
                 with exactly tied / all-immediate times at depth 2-4 are
                 generated on purpose).
  dispatch       RT: the datagram is handed to the interface's own
                 _handle_request; recv functions must get the messages in
                 that same sequence, with time == (timetag - offset) / 2**32.
  size           NetAddr._calc_msg_dgram_size/_calc_bndl_dgram_size >= len(dgram).
  clump          datagrams handed to `_send` by send_clumped_bundles, by the
                 flush of a BundleNetAddr block and by sync(elements=...)
                 (replies fed back through _handle_request): each <= 65507
                 bytes, concatenation of their elements over the datagrams in
                 send order == the elements the caller gave (deep copy taken
                 before the call, unique ids), exactly once, plus exactly one
                 fresh trailing /sync per sync datagram.  Histories re-use
                 the same list object for 2-4 sends (sync / clumped / plain
                 bundle / BundleNetAddr): no stale elements, caller's list
                 unchanged.  Family 'big-among-small' puts an element >= the
                 clump size (8192 / 65468) after, between or behind small
                 ones.
  d_recv route   SynthDef._do_send: when /d_recv is chosen the datagram fits.
  concurrency    3-6 threads encode at once (send_msg / send_bundle build
                 outside the main lock; _build_msg / _build_bundle) under
                 yield injection on the builders: every datagram decodes to
                 the message its own thread gave, no valid message is refused.

  arguments are  (round 10) class: MUTABLE ARGUMENT OBJECTS SENT MORE THAN ONCE AND
  inputs         INSPECTED AFTER THE CALL.  A deep snapshot (vf/c06_model.snapshot)
                 of the caller's list is taken before the first send: bytearray
                 blobs, writable memoryviews over a bytearray / BytesIO buffer,
                 nested message / bundle lists, array regions, element lists.
                 After EVERY operation (accepted or refused build, public send,
                 size prediction, clumped / sync / BundleNetAddr send, /d_recv,
                 concurrent encode) the objects must still equal the snapshot
                 (C06/argument-mutated/<kind of object>), and the same objects
                 then go through 1-3 further operations (builder again, public
                 send, predictor, as element of an immediate bundle, as
                 completion message of another message; SynthDef bytes sent 2-3
                 times; clump 'reuse' histories with bytearray / view payloads):
                 the k-th encoding must decode to the expectation computed from
                 the snapshot - never from the possibly mutated object - and a
                 repeated build with the same send time must be byte-identical
                 (C06/resend-differs/<what>).  In 8 % of the cases the SAME
                 mutable object sits at two positions of one packet (aliasing).

Observation outside the property (counted, never a violation): MIDI 4-tuples
with values outside 0-255 are masked with & 0xFF (observed_midi_bytes_masked).
"""

from vf.common import iter_cases, case_rng, h64, split, short_tb, tb_sites

LEVEL = 'exploration'
RULE = ("seeded random OSC lists: addresses over printable ASCII, 0-10 "
        "arguments from int32 (and just outside), float (inf, nan, denormal, "
        "above float32 range), ASCII / non-ASCII strings of every length mod 4, "
        "strings with NUL, bytes/bytearray/memoryview of length 0-70 and up to "
        "6000 (bytearrays and writable views re-sent 1-3 times through builder / "
        "send / predictor / wrapping packets, the same object at two positions), "
        "bool, None, [], nested message and bundle lists to depth 3, array "
        "markers (balanced and not), MIDI 4-tuples, unsupported types; bundles "
        "nested to depth 5 with None / negative / equal / increasing / "
        "decreasing latencies; element lists whose predicted size straddles "
        "8192, 65468 and 65504 bytes (tiny, mixed, huge, nested, unaligned "
        "elements, one element >= the clump size among small ones, the same "
        "list object sent 2-4 times).  A case is non-trivial when the packet was accepted and "
        "contains an unaligned blob, a non-ASCII string, a nested packet, an "
        "array, a coerced value or (clumping) was split into >= 2 datagrams or re-used a list; "
        "distinct = hash of the input list")
ASSUMPTIONS = [
    "vf/osc.py (strict OSC 1.0 reader written from the specification, "
    "self-tested against hand-written vectors each run) and the coercion "
    "model vf/c06_model.py are the meaning of 'conforms' and 'same value'",
    "UDP limit = 65507 payload bytes (IPv4); a single element larger than "
    "that is outside the domain of the clumping clause",
    "refusing a representable value with a documented, deliberate check is "
    "allowed by the statement and only counted (empty blob: docstring of "
    "write_blob; nested bundle earlier than its parent, also among negative "
    "'immediately' values: docstring of NetAddr.send_bundle); an exception "
    "escaping the size predictor for a packet the builder accepts is NOT a "
    "refusal but a finding (C06/size-predictor-raises/*)",
    "message order on the real UDP loop-back path is not judged (the UDP "
    "thread schedules one task per message reading the global current time "
    "thread, so arrival order there is not a function of the datagram); "
    "order is judged on OscPacket.messages and on _handle_request driven "
    "from a quiet main thread",
    "strings are UTF-8 (the statement's domain includes non-ASCII strings; "
    "OSC 1.0 itself only knows ASCII); addresses must begin with '/' "
    "(OSC 1.0)",
    "4-tuples (the 'm' MIDI extension of the builder) are outside the "
    "property's argument domain: tuples of four bytes are round-tripped like "
    "everything else, tuples with values outside 0-255 give no verdict; the "
    "library masks them with & 0xFF instead of refusing (counter "
    "observed_midi_bytes_masked, suggestion in "
    "proposed_fixes/C06-midi-bytes-masked.md) - an observation, not a "
    "violation",
    "SynthDef._do_send is driven with a SynthDef object whose bytes are "
    "injected and a non-local address: the /d_load fallback (def file "
    "written to disk) is not exercised",
    "CPython struct module for IEEE float32 rounding",
]
MIN_COUNTERS = {
    'msgs_roundtrip_compared': 3000,
    'bundles_roundtrip_compared': 600,
    'args_compared': 10000,
    'timetags_compared': 1000,
    'lib_reader_compared': 3000,
    'size_predictions_compared': 3000,
    'hostile_values_refused': 200,
    'clump_cases_checked': 30,
    'clump_cases_split': 15,
    'clump_elements_conserved': 10000,
    'clump_reuse_steps_checked': 40,
    'clump_family/big-among-small': 15,
    'clump_cases_bundlenetaddr': 10,
    'drecv_routes_checked': 20,
    'conc_encodings': 1500,
    'conc_overlapping_encodings': 500,
    'conc_injected_yields': 200,
    'packet_sequences_with_timetag_ties': 300,
    'dispatch_sequences_compared': 200,
    'argument_snapshots_compared': 50000,
    'resend_histories_checked': 3000,
    'resend_histories_with_mutable_blob': 1000,
    'resend_ops_checked': 6000,
    'aliased_argument_cases': 500,
    'clump_reuse_steps_with_mutable_blob': 20,
    'drecv_resends_checked': 100,
}


def plan(tier, seed):
    quick = tier == 'quick'
    secs = 35 if quick else 540
    shards = []

    def add(kind, mode, total, parts):
        for p, (f, n) in enumerate(split(total, parts)):
            shards.append({'name': f'{kind}-{mode}{p}', 'mode': mode,
                           'kind': kind, 'first_case': f, 'n': n, 'secs': secs,
                           'hard_timeout': secs + 150})
    add('msg', 'nrt', 40000 if quick else 1_500_000, 2 if quick else 4)
    add('msg', 'rt', 40000 if quick else 1_500_000, 2 if quick else 4)
    add('bundle', 'nrt', 5000 if quick else 120_000, 1 if quick else 2)
    add('bundle', 'rt', 5000 if quick else 120_000, 1 if quick else 2)
    add('clump', 'rt', 480 if quick else 20_000, 4 if quick else 4)
    add('drecv', 'rt', 1000 if quick else 20_000, 1)
    add('conc', 'rt', 60 if quick else 3000, 2 if quick else 3)
    return shards


# --------------------------------------------------------------------------

class Ctx:
    def __init__(self, spec, acc):
        from sc3.base.main import main
        from sc3.base.netaddr import NetAddr
        from sc3.base import _osclib as oli
        from vf import osc, c06_model as M
        self.main = main
        self.oli = oli
        self.osc = osc
        self.M = M
        self.acc = acc
        self.mode = spec['shard']['mode']
        self.iface = main._osc_interface
        self.addr = NetAddr('127.0.0.1', 57110)
        self.offset = int((main._init_time + 2208988800) * 2 ** 32)
        self.captured = []
        if self.mode == 'rt':
            self.iface._send = self._hook     # instance attribute
        assert osc.selftest()

    def _hook(self, msg, target):
        self.captured.append(bytes(msg.dgram))

    def ttf(self, send_time):
        """Expected timetag as a function of the latency, for a packet built
        with _build_*(send_time, ...) from outside a routine."""
        if self.mode == 'rt':
            off = self.offset

            def f(L):
                if L is None or L < 0:
                    return 1
                return int((L + send_time) * 2 ** 32) + off
        else:
            def f(L):       # NRT outside routines: absolute from zero
                if L is None or L < 0:
                    L = 0.0
                return int(L * 2 ** 32)
        return f

    @staticmethod
    def ttf_unknown(L):
        return 1 if (L is None or L < 0) else None


def _exc_key(e):
    sites = tb_sites(e)
    site = sites[-1][1] if sites else 'outside-sc3'
    return f'{type(e).__name__}@{site}'


def check_packet(cx, i, lst, is_bundle, rng, hostile):
    """Build one message / bundle list with the real library and run the
    roundtrip, library-reader and size monitors on it."""
    acc, M, osc = cx.acc, cx.M, cx.osc
    send_time = rng.choice([0.0, rng.uniform(0, 5), rng.uniform(0, 100000)])
    public = cx.mode == 'rt' and rng.random() < 0.3
    ttf = cx.ttf_unknown if public else cx.ttf(send_time)
    feats = set()
    exp = must = undecided = None
    try:
        exp = (M.expect_bundle if is_bundle else M.expect_msg)(lst, ttf, feats)
    except M.MustRefuse as e:
        must = e.reason
    except M.Undecided as e:
        undecided = e.reason
    what = 'bundle' if is_bundle else 'msg'
    before = M.srepr(lst)
    snap = M.snapshot(lst)     # the caller's objects before the first send
    try:
        if public:
            del cx.captured[:]
            if is_bundle:
                cx.addr.send_bundle(lst[0], *lst[1:])
            else:
                cx.addr.send_msg(*lst)
            if len(cx.captured) != 1:
                acc.violation(f'C06/send-{what}-handed-{len(cx.captured)}-datagrams',
                              {'case': i, 'input': before})
                return None
            dgram = cx.captured[0]
        elif is_bundle:
            dgram = bytes(cx.iface._build_bundle(send_time, lst).dgram)
        else:
            dgram = bytes(cx.iface._build_msg(send_time, lst).dgram)
    except Exception as e:    # a refusal
        acc.count(f'{what}s_refused')
        if must:
            acc.count('hostile_values_refused')
            acc.count(f'refused/{must}')
        elif undecided:
            acc.count(f'refused_undecided/{undecided}')
        else:
            acc.count(f'refused_representable/{_exc_key(e)}')
            if 'blob-memoryview-of-multibyte-items' in feats and \
                    type(e).__name__ in ('OscMessageParseError',
                                         'OscBundleParseError',
                                         'UnicodeDecodeError'):
                # the builder's own read-back choked on what it built
                acc.violation('C06/blob-size-field-counts-items-not-bytes',
                              {'case': i, 'input': before[:400],
                               'exception': f'{type(e).__name__}: {e}'[:200]})
            elif type(e).__name__ in ('OscMessageParseError',
                                      'OscBundleParseError',
                                      'UnicodeDecodeError', 'IndexError',
                                      'AttributeError', 'KeyError'):
                # not a deliberate refusal: an internal failure
                acc.violation(
                    f'C06/build-fails-on-representable-value/{_exc_key(e)}',
                    {'case': i, 'input': before[:400],
                     'exception': f'{type(e).__name__}: {e}'[:200]})
        # refused or not: the arguments are the caller's
        report_mutations(cx, i, snap, lst, before, 'refused ' + what, [])
        return None
    acc.count(f'{what}s_accepted')
    if 'memoryview-released' in report_mutations(
            cx, i, snap, lst, before, 'first send',
            ['send' if public else 'build']):
        return None             # the caller's view is gone: nothing to re-send
    if undecided:
        acc.count(f'accepted_undecided/{undecided}')
        if undecided == 'midi-byte-out-of-range':
            # observation outside the property (see ASSUMPTIONS)
            acc.count('observed_midi_bytes_masked')
        return None
    if must:
        how = 'nonconformant'
        try:
            osc.decode(dgram)
            how = 'decodes-to-something-else'
        except osc.OscError:
            pass
        acc.violation(f'C06/accepted-unrepresentable/{must}',
                      {'case': i, 'input': before, 'dgram': dgram[:200],
                       'result': how})
        return None
    # ---- roundtrip ------------------------------------------------------
    mview = 'blob-memoryview-of-multibyte-items' in feats
    try:
        dec = osc.decode(dgram)
    except osc.OscError as e:
        if mview:
            acc.violation('C06/blob-size-field-counts-items-not-bytes',
                          {'case': i, 'input': before, 'dgram': dgram[:300],
                           'error': str(e)})
            return None
        acc.violation(f'C06/nonconformant-{what}/{M._slug(str(e))}',
                      {'case': i, 'input': before, 'dgram': dgram[:300],
                       'error': str(e)})
        return None
    mism = M.compare(dec, exp)
    acc.count(f'{what}s_roundtrip_compared')
    nargs = _count_nodes(exp)
    acc.count('args_compared', nargs[0])
    if not public:
        acc.count('timetags_compared', nargs[1])
    acc.count('nested_packets_compared', nargs[2])
    for f in feats:
        acc.count(f'feature/{f}')
    if mism and mview:
        acc.violation('C06/blob-size-field-counts-items-not-bytes',
                      {'case': i, 'input': before, 'dgram': dgram[:300]})
        mism = ['x']
    for slug in sorted({M.mechanism(m) for m in mism} if not mview else ()):
        acc.violation(f'C06/roundtrip-differs/{slug}',
                      {'case': i, 'input': before, 'dgram': dgram[:300],
                       'decoded': repr(dec)[:600], 'mode': cx.mode})
    # ---- library reader ---------------------------------------------------
    if not mism:
        try:
            bad = lib_reader_check(cx, dgram, dec, exp)
        except Exception as e:
            bad = f'raises-{_exc_key(e)}'
        acc.count('lib_reader_compared')
        if bad:
            acc.violation(f'C06/library-reader-differs/{bad}',
                          {'case': i, 'input': before, 'dgram': dgram[:300]})
        if cx.mode == 'rt' and is_bundle and 'nested-bundle-element' in feats:
            try:
                bad = dispatch_check(cx, dgram, dec, exp)
            except Exception as e:
                bad = f'raises-{_exc_key(e)}'
            if bad:
                acc.violation(f'C06/dispatch-differs/{bad}',
                              {'case': i, 'input': before, 'dgram': dgram[:300]})
    # ---- size prediction --------------------------------------------------
    try:
        if is_bundle:
            pred = cx.addr._calc_bndl_dgram_size(lst[1:])
        else:
            pred = cx.addr._calc_msg_dgram_size(lst)
    except Exception as e:
        # the builder accepted this packet (it is on the wire above): a
        # predictor that cannot size it makes send_clumped_bundles / sync /
        # every BundleNetAddr (server.bind) block fail for it
        acc.count(f'size_predictor_raised/{_exc_key(e)}')
        acc.violation(f'C06/size-predictor-raises/{predictor_failure(e)}',
                      {'case': i, 'input': before[:600],
                       'exception': f'{type(e).__name__}: {e}'[:200]})
        pred = None
    if pred is not None:
        acc.count('size_predictions_compared')
        real = len(dgram)
        if real != M.size_of(exp):       # the model's own arithmetic
            acc.violation('C06/size-model-disagrees-with-datagram',
                          {'case': i, 'input': before, 'real': real,
                           'model': M.size_of(exp)})
        if pred == real:
            acc.count('size_predictions_exact')
        elif pred > real:
            acc.count('size_predictions_above')
        else:
            report_underprediction(cx, i, lst, before, pred, real,
                                   'message' if not is_bundle else 'bundle')
    if pred is not None:
        report_mutations(cx, i, snap, lst, before, 'size prediction',
                         ['send' if public else 'build', 'predict'])
    # ---- the same objects again ---------------------------------------------
    if not mism:
        resend_history(cx, i, lst, is_bundle, rng, snap, before, exp, dgram,
                       public, send_time, pred)
    nontriv = M.features_nontrivial(feats)
    if acc.want_sample() and nontriv and len(before) < 200:
        acc.sample({'case': i, 'input': before, 'dgram': dgram,
                    'predicted_size': pred, 'real_size': len(dgram)})
    return nontriv


def report_mutations(cx, i, snap, obj, before, when, history, role='packet'):
    """Arguments are inputs: the caller's objects must still equal the deep
    snapshot taken before the first send.  -> set of mutation kinds."""
    muts = cx.M.mutations(snap, obj, role)
    cx.acc.count('argument_snapshots_compared')
    for k in sorted(muts):
        cx.acc.violation(f'C06/argument-mutated/{k}',
                         {'case': i, 'after': when, 'history': list(history),
                          'given': before[:400],
                          'now': cx.M.srepr(obj)[:400], 'mode': cx.mode})
    return muts


def resend_history(cx, i, lst, is_bundle, rng, snap, before, exp, first,
                   public, send_time, pred):
    """The SAME list / blob objects go through 1-3 further operations (builder,
    public send, size predictor, as element of an immediate bundle, as
    completion message of another message).  Every expectation comes from
    `exp` / `snap`, computed before the first send: the k-th encoding must
    carry what the first one carried and the objects must stay as given."""
    acc, M, osc = cx.acc, cx.M, cx.osc
    mutable = M.has_mutable_blob(lst)
    if rng.random() >= (0.8 if mutable else 0.1):
        return
    menu = ['build', 'build', 'predict', 'wrapped', 'completion']
    if cx.mode == 'rt':
        menu += ['send', 'send']
    if pred is None:              # the predictor's failure is reported above
        menu = [o for o in menu if o != 'predict']
    ops = [rng.choice(menu) for _ in range(rng.randint(1, 3))]
    if all(o == 'predict' for o in ops):
        ops.append('build')
    imm = cx.ttf(send_time)(None)
    exp_u = M.untimed(exp)
    done = ['send' if public else 'build']
    acc.count('resend_histories_checked')
    if mutable:
        acc.count('resend_histories_with_mutable_blob')
    reported = set()
    for op in ops:
        if op == 'completion' and is_bundle and \
                not (len(lst) > 1 and isinstance(lst[1], list)):
            op = 'build'            # [time] alone is not bundle-shaped
        done.append(op)
        w = {'case': i, 'history': list(done), 'given': before[:400],
             'mode': cx.mode}
        raw = want = None
        try:
            if op == 'build':
                raw = bytes((cx.iface._build_bundle if is_bundle else
                             cx.iface._build_msg)(send_time, lst).dgram)
                want = exp
            elif op == 'send':
                del cx.captured[:]
                if is_bundle:
                    cx.addr.send_bundle(lst[0], *lst[1:])
                else:
                    cx.addr.send_msg(*lst)
                if len(cx.captured) != 1:
                    acc.violation(
                        f'C06/resend-differs/handed-{len(cx.captured)}-datagrams', w)
                    return
                raw, want = cx.captured[0], exp_u
            elif op == 'predict':
                p = predict(cx, lst)
                if pred is not None and p != pred:
                    acc.violation('C06/resend-differs/predicted-size',
                                  dict(w, first=pred, now=p))
            elif op == 'wrapped':
                raw = bytes(cx.iface._build_bundle(send_time, [None, lst]).dgram)
                want = ('bundle', imm, [exp])
            else:
                raw = bytes(cx.iface._build_msg(send_time, ['/c06', 7, lst]).dgram)
                want = ('msg', '/c06',
                        [('i', 7), ('blobbundle' if is_bundle else 'blobmsg', exp)])
        except Exception as e:
            # accepted the first time, refused now
            acc.violation(f'C06/resend-differs/refused-{type(e).__name__}',
                          dict(w, exception=f'{type(e).__name__}: {e}'[:200],
                               site=_exc_key(e)))
            report_mutations(cx, i, snap, lst, before, op, done)
            return
        acc.count('resend_ops_checked')
        acc.count(f'resend_ops/{op}')
        if raw is not None:
            same_bytes = op == 'build' and not public and raw == first
            if same_bytes:
                acc.count('resend_bytes_identical')
            else:
                try:
                    slugs = {M.mechanism(m)
                             for m in M.compare(osc.decode(raw), want)}
                except osc.OscError as e:
                    slugs = {'nonconformant-' + M._slug(str(e))}
                if not slugs and op == 'build' and not public:
                    slugs = {'bytes'}
                for s in sorted(slugs - reported):
                    acc.violation(f'C06/resend-differs/{s}',
                                  dict(w, dgram=raw[:300], first_dgram=first[:300]))
                reported |= slugs
        # (reported once per kind; the history goes on with the objects as the
        # library left them, judged against the snapshot)
        muts = M.mutations(snap, lst)
        acc.count('argument_snapshots_compared')
        for k in sorted(muts - reported):
            acc.violation(f'C06/argument-mutated/{k}',
                          dict(w, after=op, now=M.srepr(lst)[:400]))
        reported |= muts


CAUSES = {'blob': 'blob-not-padded',
          'str': 'str-sized-by-characters-not-utf8-bytes',
          'mview': 'memoryview-sized-by-items-not-bytes'}


def predict(cx, lst):
    if isinstance(lst[0], str):
        return cx.addr._calc_msg_dgram_size(lst)
    return cx.addr._calc_bndl_dgram_size(lst[1:])


def active_causes(cx, M, lst, pred):
    """Attribution by differential probing of the real predictor: a variant
    of the packet with the same real size in which one feature (unaligned
    blobs / non-ASCII strings) is neutralised; the feature is a cause of the
    under-prediction when the predictor answers more for the variant."""
    out = {}
    for which, name in CAUSES.items():
        try:
            d = predict(cx, M.neutralize(lst, which)) - pred
        except Exception:
            continue
        if d > 0:
            out[name] = d
    return out


def predictor_failure(e):
    """Mechanism of an exception escaping _calc_*_dgram_size."""
    name, site = type(e).__name__, _exc_key(e).split('@')[-1]
    if name == 'IndexError':
        return 'empty-list-argument'
    if name == 'TypeError' and 'without a string argument' in str(e):
        return 'bundle-shaped-completion-message'
    if name == 'UnicodeEncodeError':
        return 'non-ascii-address'
    if name == 'ValueError' and site in ('_calc_bndl_dgram_size', '_clump_bundle'):
        return 'nested-bundle-time-none'
    return f'other-{name}-in-{site}'


def report_underprediction(cx, i, lst, before, pred, real, where):
    causes = active_causes(cx, cx.M, lst, pred)
    w = {'case': i, 'input': before[:600], 'predicted': pred, 'real': real,
         'where': where, 'bytes_attributed': causes}
    for c in causes:
        cx.acc.violation(f'C06/size-underpredicted/{c}', w)
    if real - pred > sum(causes.values()):
        cx.acc.violation('C06/size-underpredicted/other', w)


def _count_nodes(exp):
    """(argument nodes, timetags, nested packets) in an expected tree."""
    a = t = n = 0

    def rec(x):
        nonlocal a, t, n
        if x[0] == 'bundle':
            t += 1
            for e in x[2]:
                rec(e)
        else:
            args(x[2])

    def args(nodes):
        nonlocal a, n
        for e in nodes:
            a += 1
            if e[0] == 'arr':
                args(e[1])
            elif e[0] in ('blobmsg', 'blobbundle'):
                n += 1
                rec(e[1])
    rec(exp)
    return a, t, n


def lib_reader_check(cx, dgram, dec, exp):
    """OscMessage / OscBundle / OscPacket of the library on its own bytes."""
    M, oli, osc = cx.M, cx.oli, cx.osc

    def msg(lm, d, e):
        if type(lm) is not oli.OscMessage:
            return 'element-kind'
        if lm.address != e[1]:
            return 'address'
        want = M.lib_params(e[2], M.iter_blobs(d.args))
        if not M.same_params(list(lm.params), want):
            return 'params'
        return None

    def bundle(lb, d, e):
        if type(lb) is not oli.OscBundle:
            return 'element-kind'
        if e[1] is not None and lb.timetag != e[1]:
            return 'timetag'
        if lb.timetag != d.timetag:
            return 'timetag'
        if lb.num_contents != len(e[2]):
            return 'bundle-element-count'
        for k in range(lb.num_contents):
            sub = lb.content(k)
            r = (msg if e[2][k][0] == 'msg' else bundle)(sub, d.elements[k], e[2][k])
            if r:
                return r
        return None

    if exp[0] == 'msg':
        r = msg(oli.OscMessage(dgram), dec, exp)
    else:
        r = bundle(oli.OscBundle(dgram), dec, exp)
    if r:
        return r
    # OscPacket: flat list of timed messages.  What the library promises (the
    # recursive flattening + stable sort of the unchanged reader, relied on by
    # dispatch and asserted for flat bundles by test_bndl_atomicity): ordered
    # by timetag, document order among equal timetags.
    pk = oli.OscPacket(dgram).messages
    want = expected_message_sequence(M, osc, dec, exp)
    if exp[0] == 'bundle' and any(e[0] == 'bundle' for e in exp[2]) and \
            len({w[0] for w in want}) < len(want):
        cx.acc.count('packet_sequences_with_timetag_ties')
    if len(pk) != len(want):
        return 'packet-message-count'

    def same(tm, w):
        return w[0] == tm.time and w[1] == tm.message.address and \
            M.same_params(list(tm.message.params), w[2])
    if all(same(tm, w) for tm, w in zip(pk, want)):
        return None
    rest = list(want)
    for tm in pk:
        for k, w in enumerate(rest):
            if same(tm, w):
                del rest[k]
                break
        else:
            return 'packet-messages'
    if any((a.time or 0) > (b.time or 0) for a, b in zip(pk, pk[1:])):
        return 'packet-not-sorted-by-time'
    return 'packet-message-order-among-equal-timetags'


def expected_message_sequence(M, osc, dec, exp):
    """[(timetag | None, address, params)] : document order flattening of the
    independently decoded packet (each message with the timetag of its
    innermost bundle), stably sorted by timetag."""
    flat = []

    def fl(d, tt):
        if isinstance(d, osc.Msg):
            flat.append((tt, d))
        else:
            for x in d.elements:
                fl(x, d.timetag)
    fl(dec, None)
    want = []
    for (tt, d), (_, addr, nodes) in zip(flat, M.flatten(exp)):
        want.append((tt, addr, M.lib_params(nodes, M.iter_blobs(d.args))))
    order = sorted(range(len(want)), key=lambda k: want[k][0] or 0)
    return [want[k] for k in order]


def dispatch_check(cx, dgram, dec, exp):
    """RT only: the datagram is given to the interface's own _handle_request
    (as the UDP thread does) from the main thread while nothing else runs;
    the messages must reach the registered recv functions in the expected
    sequence, timed bundles with time == (timetag - offset) / 2**32."""
    import threading
    from sc3.base.clock import SystemClock
    M, osc = cx.M, cx.osc
    want = expected_message_sequence(M, osc, dec, exp)
    got = []

    def recv(msg, time, addr, port):
        got.append((list(msg), time))
    done = threading.Event()
    t0 = cx.main.elapsed_time()
    cx.main.add_osc_recv_func(recv)
    try:
        cx.iface._handle_request(dgram, ('127.0.0.1', 57110))
        SystemClock.sched(0, lambda: done.set())
        if not done.wait(10):
            cx.acc.count('dispatch_timeouts')
            return None
    finally:
        cx.main.remove_osc_recv_func(recv)
    t1 = cx.main.elapsed_time()
    cx.acc.count('dispatch_sequences_compared')
    cx.acc.count('dispatch_messages_compared', len(want))
    if len(got) != len(want):
        return 'message-count'

    def same(g, w):
        return g[0][0] == w[1] and M.same_params(g[0][1:], w[2])
    if not all(same(g, w) for g, w in zip(got, want)):
        rest = list(want)
        for g in got:
            for k, w in enumerate(rest):
                if same(g, w):
                    del rest[k]
                    break
            else:
                return 'messages'
        return 'message-order'
    for g, w in zip(got, want):
        if w[0] is None or w[0] == 1:
            if not t0 - 1e-6 <= g[1] <= t1 + 1e-6:
                return 'immediate-message-time-not-reception-time'
        elif g[1] != (w[0] - cx.offset) / 2 ** 32:
            # exact: timetag - offset < 2**53, division by 2**32 is exact
            return 'bundle-time'
    return None


# --------------------------------------------------------------------------
# clumping
# --------------------------------------------------------------------------

def _buf(rng, b):
    """A blob as the application may hold it: immutable bytes, its own
    reusable bytearray, or a writable view over one."""
    k = rng.random()
    if k < 0.6:
        return b
    if k < 0.87:
        return bytearray(b)
    return memoryview(bytearray(b))


def gen_payload(rng, M, family, size_hint):
    """Extra arguments of one element."""
    if family == 'tiny':
        return rng.choice([[], [], [rng.randint(0, 9)], [0.5]])
    if family == 'huge':
        n = rng.randint(9000, 60000) // 4 * 4
        return [rng.randbytes(n)]
    out = []
    for _ in range(rng.choice([1, 1, 2, 3])):
        n = int(2 ** rng.uniform(0, size_hint))
        k = rng.random()
        if family == 'under' and k < 0.5:
            if rng.random() < 0.5:
                out.append(_buf(rng, rng.randbytes(n // 4 * 4 + rng.randint(1, 3))))
            else:
                out.append(''.join(rng.choice('é€日𝄞a') for _ in range(n // 3 + 1)))
        elif k < 0.4:
            out.append('s' * n)
        elif k < 0.7:
            out.append(_buf(rng, rng.randbytes(max(4, n // 4 * 4)
                                               + rng.choice([0, 0, 1, 2, 3]))))
        elif k < 0.78:
            out.append(rng.randint(-5, 5))
        elif k < 0.8:
            out.append(rng.choice([None, True, False, []]))
        elif k < 0.9:
            out.append(rng.uniform(-1, 1))
        elif k < 0.97:
            out.append(['/done', rng.randint(0, 9), 'x' * (n // 4)])
        else:       # completion bundle
            out.append([rng.choice([None, 0.2, 2]),
                        ['/done', rng.randint(0, 9), 'x' * (n // 4)]])
    return out


def gen_elements(rng, M, family, target):
    """Element lists with unique ids whose exact size as one bundle (model
    arithmetic: 16 + sum(4 + element)) is close to `target` bytes; family
    'few' lands exactly on target rounded down to a multiple of 4."""
    els = []
    total = 16
    eid = 0
    hint = rng.choice([3, 6, 9, 11.5])
    ttf = (lambda L: None)
    if family == 'few':
        target -= target % 4
        n = rng.randint(1, 3)
        room = target - 16 - 24          # leave room for the filler element
        for _ in range(n):
            share = max(8, (room // n - 20) // 4 * 4 - rng.choice([0, 0, 400, 4000]))
            share = min(share, 60000)
            e = ['/e', eid, rng.randbytes(share)]
            eid += 1
            els.append(e)
            total += 4 + M.size_of(M.expect_msg(e, ttf))
        rest = target - total - 20       # filler: 20 + len(str), len % 4 == 0
        if rest >= 0:
            els.append(['/e', eid, 's' * rest])
            total += 20 + rest
        return els
    while total < target:
        fam = family
        if family == 'mixed+tiny':
            fam = 'tiny' if rng.random() < 0.9 else 'mixed'
        if family == 'nested' and rng.random() < 0.3:
            sub = []
            for _ in range(rng.randint(1, 4)):
                sub.append(['/e', eid] + gen_payload(rng, M, 'mixed', 6))
                eid += 1
            e = [rng.choice([2, 2.5, 3.0, 3.0, None])] + sub
            size = M.size_of(M.expect_bundle(e, ttf))
        else:
            e = ['/e', eid] + gen_payload(rng, M, fam, hint)
            eid += 1
            size = M.size_of(M.expect_msg(e, ttf))
        if 16 + 4 + size > M.UDP_MAX - 40:
            continue            # a single element must be sendable by itself
        els.append(e)
        total += 4 + size
    return els


def flat_ids(exp_elems):
    """ids of the messages of expected element trees, depth first."""
    out = []
    for e in exp_elems:
        if e[0] == 'msg':
            out.append(e[2][0][1])
        else:
            out.extend(flat_ids(e[2]))
    return out


def dec_ids(osc, elems):
    out = []
    for d in elems:
        if isinstance(d, osc.Msg):
            out.append(d.args[0] if d.args else None)
        else:
            out.extend(dec_ids(osc, d.elements))
    return out


def run_sync(cx, latency, elements, timeout=20.0):
    """Drives NetAddr.sync(elements=...) in a routine on SystemClock; every
    datagram handed to _send is recorded and its /sync id answered by a
    /synced reply fed through the interface's own _handle_request."""
    import threading
    from sc3.base.stream import Routine
    from sc3.base.clock import SystemClock
    osc = cx.osc
    done = threading.Event()
    err = []
    target = cx.addr._target

    def hook(msg, tgt):
        raw = bytes(msg.dgram)
        cx.captured.append(raw)
        try:
            d = osc.decode(raw)
            last = d.elements[-1]
            if isinstance(last, osc.Msg) and last.addr == '/sync':
                cx.iface._handle_request(osc.enc_msg('/synced', last.args[0]),
                                         target)
        except Exception:
            pass

    def body():
        try:
            yield from cx.addr.sync(None, latency, elements)
        except Exception as e:
            err.append(e)
        finally:
            done.set()

    del cx.captured[:]
    cx.iface._send = hook
    try:
        Routine(body).play(SystemClock)
        ok = done.wait(timeout)
    finally:
        cx.iface._send = cx._hook
    return ok, (err[0] if err else None)


def gen_big_among_small(rng, M, clump_size, oversize_total):
    """Element list for an oversized bundle in which ONE (sometimes two)
    element is by itself at least as large as the clump size and is preceded
    by smaller elements that have not filled a clump yet: big 2nd..7th, big
    somewhere in the middle, big last.  Message ['/e', id, blob(n)] has size
    16 + n for n % 4 == 0; it cannot share a clump when 16 + 4 + size >=
    clump_size and can be sent alone (with a /sync) when size + 40 <= 65507."""
    lo = clump_size - 20                       # smallest such message size
    hi = min(M.UDP_MAX - 40, max(lo, 30000 if clump_size < 20000 else lo + 16))
    hi -= hi % 4

    def big():
        size = rng.choice([lo, lo, lo + 4, rng.randrange(lo, hi + 1, 4), hi])
        return ['/e', 0, rng.randbytes(size - 16)], size
    bigs = [big() for _ in range(rng.choice([1, 1, 1, 2]))]
    need = max(rng.randint(60, 6000),
               oversize_total - sum(sz + 4 for _, sz in bigs))
    base = []
    total = 0
    hint = rng.choice([3, 6, 9, 9, 11])
    while total < need:
        e = ['/e', 0] + gen_payload(rng, M, rng.choice(['tiny', 'mixed']), hint)
        size = M.size_of(M.expect_msg(e, lambda L: None))
        if size + 20 >= clump_size:
            continue
        base.append(e)
        total += 4 + size
    for e, _ in bigs:
        where = rng.choice(['early', 'early', 'middle', 'last'])
        if where == 'early':
            pos = rng.randint(1, min(7, len(base)))
        elif where == 'middle':
            pos = rng.randint(1, len(base))
        else:
            pos = len(base)
        base.insert(pos, e)
    for k, e in enumerate(base):
        e[1] = k
    return base


def send_via(cx, via, latency, elements):
    """One public send of `elements`; -> (finished, exception | None)."""
    from sc3.base.netaddr import BundleNetAddr
    try:
        if via == 'sync':
            return run_sync(cx, latency, elements)
        del cx.captured[:]
        if via == 'clumped':
            cx.addr.send_clumped_bundles(latency, *elements)
        elif via == 'bundle':
            cx.addr.send_bundle(latency, *elements)
        else:                       # the flush of a BundleNetAddr block
            with BundleNetAddr(cx.addr) as b:
                for e in elements:
                    if isinstance(e[0], str):
                        b.send_msg(*e)
                    else:
                        b.send_bundle(None, e)
        return True, None
    except Exception as e:
        return True, e


def check_plain_paths(cx, i, latency):
    """send_status_msg() and sync() without elements: one datagram each,
    holding exactly ['/status'] resp. a bundle with exactly one /sync."""
    acc, osc = cx.acc, cx.osc
    del cx.captured[:]
    try:
        cx.addr.send_status_msg()
        d = [osc.decode(r) for r in cx.captured]
        if len(d) != 1 or not isinstance(d[0], osc.Msg) or \
                d[0].plain() != ['/status']:
            acc.violation('C06/status-message-differs',
                          {'case': i, 'decoded': repr(d)[:300]})
    except Exception as e:
        acc.violation(f'C06/status-message-differs/raises-{_exc_key(e)}',
                      {'case': i})
    ok, err = run_sync(cx, latency, None)
    if not ok:
        return False
    try:
        d = [osc.decode(r) for r in cx.captured]
        good = err is None and len(d) == 1 and isinstance(d[0], osc.Bundle) \
            and len(d[0].elements) == 1 and d[0].elements[0].addr == '/sync' \
            and len(d[0].elements[0].args) == 1 \
            and ((d[0].timetag == 1) == (latency is None or latency < 0))
    except Exception:
        good = False
    if not good:
        acc.violation('C06/sync/plain-sync-datagram-differs',
                      {'case': i, 'latency': latency, 'error': repr(err),
                       'dgrams': [r[:80] for r in cx.captured[:3]]})
    acc.count('plain_paths_checked')
    return True


def run_clump(spec, acc):
    import copy
    cx = Ctx(spec, acc)
    M, osc = cx.M, cx.osc
    LIM = cx.addr._MAX_UDP_DGRAM_SIZE
    for i in iter_cases(spec):
        rng = case_rng(spec['seed'], 'C06', 'clump', i)
        if i % 8 == 0 and not check_plain_paths(
                cx, i, [None, 0, 0.2, -1][i // 8 % 4]):
            acc.mark_inconclusive(f'plain sync did not finish (case {i})')
            return
        via = rng.choice(['clumped', 'clumped', 'sync', 'sync', 'sync',
                          'bundlenetaddr'])
        family = rng.choice(['tiny', 'tiny', 'mixed', 'mixed', 'huge', 'under',
                             'nested', 'mixed+tiny', 'few', 'few',
                             'big-among-small', 'big-among-small', 'reuse',
                             'reuse', 'reuse'])
        limit = LIM - 36 if via == 'sync' else LIM
        k = rng.random()
        if k < 0.25:
            target = limit + rng.randint(-40, 40)
        elif k < 0.5:
            target = limit + rng.randint(-3000, 3000)
        elif k < 0.6:
            target = rng.randint(200, 20000)
        else:
            target = int(limit * rng.uniform(1.05, 3.2))
        if family == 'few':       # the boundary itself, 4 bytes at a time
            target = rng.randint(65400, 65540)
        ops = [via]
        if family == 'big-among-small':
            elements = gen_big_among_small(
                rng, M, LIM - 36 if via == 'sync' else 8192,
                int(LIM * rng.uniform(1.02, 1.6)))
        elif family == 'reuse':
            # the same list object goes through several sends
            target = rng.choice([rng.randint(60, 3000), rng.randint(60, 30000),
                                 rng.randint(60, 30000), target])
            elements = gen_elements(rng, M, rng.choice(
                ['tiny', 'mixed', 'mixed', 'nested', 'under']), target)
            ops = [rng.choice(['sync', 'sync', 'sync', 'clumped', 'bundle',
                               'bundlenetaddr'])
                   for _ in range(rng.randint(2, 4))]
            if 'sync' not in ops:
                ops[0] = 'sync'
        else:
            elements = gen_elements(rng, M, family, target)
        latency = rng.choice([None, 0, 0.2, 0.2, 1.5])
        original = M.clone(elements)     # (deepcopy cannot copy memoryviews)
        snap = M.snapshot(elements)
        mutable = M.has_mutable_blob(elements)
        exp_elems = [(M.expect_msg if isinstance(e[0], str) else M.expect_bundle)(
            e, lambda L: None) for e in original]
        before = M.srepr(original)
        sync_ids = set()
        total_dgrams = 0
        checked = True
        for step, op in enumerate(ops):
            ok, err = send_via(cx, op, None if op == 'bundlenetaddr' else latency,
                               elements)
            if not ok:
                # judge what was handed to _send, then stop this shard (a
                # stuck routine could still send later)
                check_clump_op(cx, i, op, family, step, ops, elements, original,
                               exp_elems, list(cx.captured), sync_ids)
                acc.mark_inconclusive(f'sync routine did not finish (case {i})')
                return
            if err is not None:
                acc.count(f'clump_refused/{_exc_key(err)}')
                if _exc_key(err).split('@')[-1] in (
                        '_calc_msg_dgram_size', '_calc_bndl_dgram_size',
                        '_clump_bundle'):
                    # elements send_bundle accepts, refused because the size
                    # predictor cannot size them
                    acc.violation(
                        f'C06/size-predictor-raises/{predictor_failure(err)}',
                        {'case': i, 'via': op, 'family': family,
                         'exception': f'{type(err).__name__}: {err}'[:200]})
                checked = False
                break
            dgrams = list(cx.captured)
            total_dgrams = max(total_dgrams, len(dgrams))
            res = check_clump_op(cx, i, op, family, step, ops, elements, original,
                                 exp_elems, dgrams, sync_ids)
            # the caller's list is the caller's: it must come back as given
            muts = M.mutations(snap, elements, 'elements')
            acc.count('argument_snapshots_compared')
            for kind in sorted(muts - {'element-list-length-changed'}):
                # an argument object below the element list was changed
                acc.violation(f'C06/argument-mutated/{kind}',
                              {'case': i, 'after': op, 'family': family,
                               'step': step, 'history': ops[:step + 1]})
                checked = False
            if muts:
                snap = M.snapshot(elements)      # report once
            if M.srepr(elements) != before and \
                    (not muts or 'element-list-length-changed' in muts):
                acc.violation(
                    'C06/sync/caller-list-mutated' if op == 'sync' else
                    'C06/clump/caller-list-mutated',
                    {'case': i, 'via': op, 'family': family, 'step': step,
                     'history': ops, 'given_elements': len(original),
                     'elements_after_call': len(elements),
                     'appended': M.srepr(elements[len(original):])[:300]})
                checked = False
            if muts:
                before = M.srepr(elements)   # report once; the history goes
                # on with the list as the library left it: what later sends
                # carry is judged against the caller's original elements
            if not res:
                checked = False
                break
            acc.count('clump_ops_checked')
            if step:
                acc.count('clump_reuse_steps_checked')
                if mutable:
                    acc.count('clump_reuse_steps_with_mutable_blob')
        if not checked:
            continue
        acc.count('clump_cases_checked')
        acc.count(f'clump_cases_{via}' if family != 'reuse' else 'clump_cases_reuse')
        acc.count(f'clump_family/{family}')
        if total_dgrams > 1:
            acc.count('clump_cases_split')
        acc.case(h64((before, tuple(ops))),
                 nontrivial=total_dgrams > 1 or len(ops) > 1)


def check_clump_op(cx, i, via, family, step, ops, elements, original, exp_elems,
                   dgrams, sync_ids):
    """Datagrams of one send of `original` (the caller's elements as given):
    conformance, UDP limit, exactly one fresh trailing /sync per datagram for
    sync, and concatenation of the decoded elements over the datagrams in send
    order == the given elements.  -> False when a violation ended the case."""
    acc, M, osc = cx.acc, cx.M, cx.osc
    acc.count('clump_datagrams', len(dgrams))
    acc.maxi('max_clump_datagrams_per_case', len(dgrams))
    winfo = {'case': i, 'via': via, 'family': family, 'step': step,
             'history': ops}
    if via == 'bundle' and len(dgrams) != 1:
        acc.violation(f'C06/send-bundle-handed-{len(dgrams)}-datagrams', winfo)
        return False
    got = []       # decoded top level elements in order
    bounds = []    # index in `got` where each datagram starts
    bad = False
    for k, raw in enumerate(dgrams):
        try:
            d = osc.decode(raw)
        except osc.OscError as e:
            acc.violation(f'C06/clump/nonconformant-datagram/{M._slug(str(e))}',
                          dict(winfo, error=str(e), dgram=raw[:200]))
            bad = True
            continue
        if not isinstance(d, osc.Bundle):
            acc.violation('C06/clump/datagram-is-not-a-bundle', winfo)
            bad = True
            continue
        els = list(d.elements)
        if via == 'sync':
            if not els or not isinstance(els[-1], osc.Msg) or \
                    els[-1].addr != '/sync' or len(els[-1].args) != 1:
                acc.violation('C06/clump/sync-datagram-without-trailing-sync',
                              dict(winfo, datagram_index=k))
                bad = True
            else:
                sid = els.pop().args[0]
                if sid in sync_ids:
                    acc.violation('C06/sync/sync-id-not-fresh',
                                  dict(winfo, datagram_index=k, id=sid))
                    bad = True
                sync_ids.add(sid)
        if not els:
            acc.count('clump_empty_datagrams')
        lo = len(got)
        bounds.append(lo)
        got.extend(els)
        if len(raw) > M.UDP_MAX and via != 'bundle':
            part = exp_elems[lo:lo + len(els)]
            plists = original[lo:lo + len(els)]
            cause, under = oversize_cause(cx, M, plists, part, len(raw))
            if cause == 'element-prefix-not-counted' and len(dgrams) == 1 \
                    and 4 * len(els) + under < len(raw) - M.UDP_MAX:
                # nothing was split although the whole does not fit, and
                # neither the element prefixes nor under-predicted
                # element sizes can account for the excess
                cause = 'bundle-not-split'
            w = dict(winfo, datagram_index=k, bytes=len(raw),
                     elements_in_datagram=len(els),
                     first_elements=repr(plists[:3])[:300])
            if cause == 'element-size-underpredicted':
                # same defect as the size monitor's: same keys
                causes = {}
                for e in plists:
                    for c, n in active_causes(cx, M, e, predict(cx, e)).items():
                        causes[c] = causes.get(c, 0) + n
                w['where'] = 'clumped datagram above 65507'
                w['bytes_attributed'] = causes
                for c in causes:
                    acc.violation(f'C06/size-underpredicted/{c}', w)
                if under > sum(causes.values()):
                    acc.violation('C06/size-underpredicted/other', w)
            else:
                acc.violation(
                    f'C06/clump/datagram-exceeds-udp-limit/{cause}', w)
        if via != 'bundle':
            acc.maxi('max_clump_datagram_bytes', len(raw))
    if bad:
        return False
    # elements nobody gave: /sync messages left over from earlier calls
    stale = [d for d in got if isinstance(d, osc.Msg) and d.addr == '/sync']
    if stale:
        acc.violation('C06/sync/stale-elements',
                      dict(winfo, given_elements=len(original),
                           received_elements=len(got),
                           stale=[repr(d) for d in stale[:4]]))
        return False
    # conservation: every element exactly once, in order
    want_ids = flat_ids(exp_elems)
    got_ids = dec_ids(osc, got)
    if got_ids != want_ids:
        ws, gs = set(want_ids), set(got_ids)
        if ws - gs:
            key = 'element-lost'
        elif len(got_ids) > len(want_ids):
            key = 'element-duplicated'
        elif sorted(got_ids) == sorted(want_ids):
            key = 'order-across-datagrams'
        else:
            key = 'elements-differ'
        first = next((n for n, (a, b) in enumerate(zip(got_ids, want_ids))
                      if a != b), None)
        acc.violation(f'C06/clump/{key}',
                      dict(winfo, sent=len(want_ids), received=len(got_ids),
                           missing=sorted(ws - gs)[:10], datagrams=len(dgrams),
                           first_difference_at=first,
                           ids_there=got_ids[max(0, (first or 0) - 2):
                                             (first or 0) + 6],
                           datagram_starts=bounds[:12]))
        return False
    acc.count('clump_elements_conserved', len(got_ids))
    slugs = set()
    for d, e in zip(got, exp_elems):
        slugs.update(M.compare(d, e))
    for s in sorted({M.mechanism(x) for x in slugs}):
        acc.violation(f'C06/clump/element-altered/{s}', winfo)
    if acc.want_sample() and 1 < len(dgrams) < 6:
        acc.sample({'case': i, 'via': via, 'family': family,
                    'elements': len(original),
                    'datagram_sizes': [len(r) for r in dgrams]})
    return not slugs


def oversize_cause(cx, M, part_lists, part_exp, nbytes):
    """Why is this datagram above the UDP limit?"""
    n = len(part_exp)
    if n == 0:
        return 'other', 0
    real = [M.size_of(e) for e in part_exp]
    under = 0
    try:
        for e, r in zip(part_lists, real):
            if isinstance(e[0], str):
                p = cx.addr._calc_msg_dgram_size(e)
            else:
                p = cx.addr._calc_bndl_dgram_size(e[1:])
            under += max(0, r - p)
    except Exception:
        return 'other', 0
    if under == 0:
        return 'element-prefix-not-counted', 0
    if nbytes - under <= M.UDP_MAX:
        return 'element-size-underpredicted', under
    return 'element-prefix-not-counted', under


# --------------------------------------------------------------------------
# SynthDef._do_send route
# --------------------------------------------------------------------------

def run_drecv(spec, acc):
    import types
    from sc3.synth.synthdef import SynthDef
    from sc3.base.netaddr import NetAddr
    cx = Ctx(spec, acc)
    M, osc = cx.M, cx.osc
    remote = NetAddr('10.1.2.3', 57110)       # not local: no def file written
    server = types.SimpleNamespace(addr=remote)
    LIM = remote._MAX_UDP_DGRAM_SIZE
    for i in iter_cases(spec):
        rng = case_rng(spec['seed'], 'C06', 'drecv', i)
        k = rng.random()
        if k < 0.3:
            comp = None
        elif k < 0.55:
            comp = ['/s_new', 'x' * rng.randint(1, 40), rng.randint(1000, 2000), 0, 1]
        elif k < 0.8:
            comp = ['/s_new', ''.join(rng.choice('éa€') for _ in
                                      range(rng.randint(1, 60))), 1001, 0, 1]
        else:
            comp = ['/b_setn', 0, 0, rng.randbytes(rng.randint(1, 30))]
        overhead = M.size_of(M.expect_msg(['/d_recv', b'abcd', comp],
                                          lambda L: None)) - 4
        n = LIM - overhead + rng.choice([rng.randint(-12, 12),
                                         rng.randint(-200, 200)])
        n = max(1, n)
        sd = SynthDef.__new__(SynthDef)
        sd._name = f'c06_{i}'
        content = rng.randbytes(n)
        k = rng.random()
        if k < 0.4:
            sd._bytes = memoryview(content)
        elif k < 0.7:         # what as_bytes() caches: BytesIO.getbuffer()
            import io
            sd._bytes = io.BytesIO(content).getbuffer()
        else:
            sd._bytes = memoryview(bytearray(content))
        comp_snap = M.snapshot(comp)
        sends = rng.choice([1, 1, 2, 3])
        del cx.captured[:]
        try:
            for _ in range(sends):      # the def is sent again (other server,
                sd._do_send(server, comp)      # reboot): same bytes every time
        except Exception as e:
            acc.count(f'drecv_refused/{_exc_key(e)}')
            continue
        acc.count('argument_snapshots_compared')
        now = M.snapshot(sd._bytes)
        if now[0] != 'memoryview' or now[1] != content:
            acc.violation('C06/argument-mutated/synthdef-bytes',
                          {'case': i, 'blob_bytes': n, 'sends': sends,
                           'now': repr(now)[:120]})
            continue
        for kind in sorted(M.mutations(comp_snap, comp)):
            acc.violation(f'C06/argument-mutated/{kind}',
                          {'case': i, 'where': 'd_recv completion message',
                           'sends': sends})
        if sends > 1:
            acc.count('drecv_resends_checked')
            if len(set(cx.captured)) > 1:
                acc.violation('C06/resend-differs/bytes',
                              {'case': i, 'where': 'd_recv', 'sends': sends,
                               'sizes': [len(r) for r in cx.captured]})
        acc.count('drecv_routes_checked')
        if not cx.captured:
            acc.count('drecv_route_declined')
            acc.case(h64((n, repr(comp))), nontrivial=False)
            continue
        acc.count('drecv_route_taken')
        raw = cx.captured[0]
        exp = M.expect_msg(['/d_recv', content, M.clone(comp)], lambda L: None)
        try:
            mism = M.compare(osc.decode(raw), exp)
        except osc.OscError as e:
            mism = ['nonconformant-' + M._slug(str(e))]
        for s in sorted({M.mechanism(x) for x in mism}):
            acc.violation(f'C06/roundtrip-differs/{s}',
                          {'case': i, 'where': 'd_recv', 'blob_bytes': n})
        if len(raw) > M.UDP_MAX:
            pred = remote._calc_msg_dgram_size(['/d_recv', sd._bytes, comp])
            if pred < len(raw):
                report_underprediction(
                    cx, i, ['/d_recv', sd._bytes, comp],
                    repr(['/d_recv', f'<{n} bytes>', comp]),
                    pred, len(raw), 'd_recv route chosen, datagram above 65507')
            else:
                acc.violation('C06/d_recv-route-chosen-for-oversized-datagram',
                              {'case': i, 'bytes': len(raw), 'predicted': pred})
        acc.maxi('max_drecv_datagram_bytes', len(raw))
        acc.case(h64((n, repr(comp))), nontrivial=len(raw) > LIM - 64)


# --------------------------------------------------------------------------

# --------------------------------------------------------------------------
# concurrent encoding
# --------------------------------------------------------------------------

def run_conc(spec, acc):
    """3-6 threads encode at the same time (NetAddr.send_msg / send_bundle,
    which build outside the main lock, and _build_msg / _build_bundle) under
    sys.monitoring yield injection on the builders' code and a 50 us switch
    interval.  Every packet was accepted and checked single-threaded first;
    concurrently each must again be accepted and decode (independent strict
    reader) to exactly the message its own thread gave."""
    import sys
    import threading
    from vf.inject import Injector, func_code
    cx = Ctx(spec, acc)
    M, osc, oli, iface = cx.M, cx.osc, cx.oli, cx.iface
    tls = threading.local()

    def hook(msg, target):
        cap = getattr(tls, 'cap', None)
        if cap is not None:
            cap.append(bytes(msg.dgram))
    iface._send = hook
    codes = [func_code(oli.OscMessageBuilder.build),
             func_code(oli.OscBundleBuilder.build),
             func_code(oli.OscMessageBuilder.add_arg),
             func_code(type(iface)._build_msg),
             func_code(type(iface)._build_bundle),
             func_code(oli.write_string), func_code(oli.write_blob)]
    inj = Injector(codes, spec['seed'])
    inj.p_yield = 0.0           # switched on for the concurrent phase only
    inj.max_sleep = 0.0003
    old_switch = sys.getswitchinterval()
    sys.setswitchinterval(5e-5)
    inj.start()
    lock = threading.Lock()
    state = {'inflight': 0, 'overlaps': 0}

    def build(path, lst, send_time):
        if path == 'send_msg':
            tls.cap = cap = []
            cx.addr.send_msg(*lst)
            tls.cap = None
            return cap[0] if len(cap) == 1 else cap
        if path == 'send_bundle':
            tls.cap = cap = []
            cx.addr.send_bundle(lst[0], *lst[1:])
            tls.cap = None
            return cap[0] if len(cap) == 1 else cap
        if path == '_build_msg':
            return bytes(iface._build_msg(send_time, lst).dgram)
        return bytes(iface._build_bundle(send_time, lst).dgram)

    def expectation(path, lst, send_time):
        ttf = cx.ttf_unknown if path.startswith('send') else cx.ttf(send_time)
        return (M.expect_msg if path.endswith('msg') else M.expect_bundle)(lst, ttf)

    def judge(path, lst, send_time, out, exp=None):
        """None or (mechanism, detail)."""
        if isinstance(out, Exception):
            return f'valid-message-refused/{type(out).__name__}', repr(out)[:200]
        if not isinstance(out, bytes):
            return f'send-handed-{len(out)}-datagrams', ''
        try:
            dec = osc.decode(out)
        except osc.OscError as e:
            return 'nonconformant-datagram', str(e)
        mism = M.compare(dec, exp or expectation(path, lst, send_time))
        if mism:
            return 'datagram-differs-from-the-message-given', \
                sorted({M.mechanism(m) for m in mism})[:4]
        return None

    try:
        for i in iter_cases(spec):
            rng = case_rng(spec['seed'], 'C06', 'conc', i)
            nthreads = rng.randint(3, 6)
            work = []
            for t in range(nthreads):
                items = []
                size = rng.choice([4, 30, 120, 400])     # arguments per message
                while len(items) < rng.randint(25, 60):
                    uid = f'{i}.{t}.{len(items)}'
                    k = rng.random()
                    if k < 0.45:       # long /s_new like message
                        lst = ['/s_new', f'def{t}', len(items), 0, 1, uid]
                        for a in range(rng.randint(1, size)):
                            lst += [rng.choice(['freq', 'amp', 'pan', 'é' * (t + 1)]),
                                    rng.choice([440.0 + t, t, a, b'x' * (t + 1),
                                                bytearray(b'y' * (t + a % 7 + 1))])]
                        if rng.random() < 0.3:     # completion message / bundle
                            lst.append(rng.choice([
                                ['/n_free', t, uid],
                                [rng.choice([None, 0.2]), ['/n_set', t, uid]]]))
                        path = rng.choice(['send_msg', '_build_msg'])
                    elif k < 0.7:
                        lst = M.gen_msg(rng, 0, None) + [uid]
                        path = rng.choice(['send_msg', '_build_msg'])
                    else:
                        lst = M.gen_bundle(rng, 0, order='ok')
                        lst.append(['/id', uid])
                        path = rng.choice(['send_bundle', '_build_bundle'])
                    send_time = rng.uniform(0, 100)
                    # single-threaded reference run: only packets that are
                    # accepted and correct alone take part
                    # (expectation and snapshot from BEFORE the first send:
                    # the threads re-send the same objects)
                    try:
                        exp = expectation(path, lst, send_time)
                        snap = M.snapshot(lst)
                        if judge(path, lst, send_time,
                                 build(path, lst, send_time), exp) is not None:
                            continue
                    except Exception:
                        continue
                    if report_mutations(cx, i, snap, lst, M.srepr(lst),
                                        'single-threaded reference ' + path, [path]):
                        continue
                    items.append((path, lst, send_time, exp, snap))
                work.append(items)
            results = [[] for _ in work]
            barrier = threading.Barrier(nthreads)

            def worker(t):
                barrier.wait()
                for path, lst, send_time, _exp, _snap in work[t]:
                    with lock:
                        if state['inflight']:
                            state['overlaps'] += 1
                        state['inflight'] += 1
                    try:
                        out = build(path, lst, send_time)
                    except Exception as e:
                        tls.cap = None
                        out = e
                    with lock:
                        state['inflight'] -= 1
                    results[t].append(out)
            threads = [threading.Thread(target=worker, args=(t,), daemon=True)
                       for t in range(nthreads)]
            inj.p_yield = 0.01
            for th in threads:
                th.start()
            for th in threads:
                th.join(60)
            inj.p_yield = 0.0
            if any(th.is_alive() for th in threads):
                acc.mark_inconclusive(f'encoding threads did not finish (case {i})')
                return
            bad = 0
            for t, items in enumerate(work):
                for (path, lst, send_time, exp, snap), out in zip(items, results[t]):
                    acc.count('conc_encodings')
                    acc.count(f'conc_encodings/{path}')
                    report_mutations(cx, i, snap, lst, '', 'concurrent ' + path,
                                     [path, path])
                    r = judge(path, lst, send_time, out, exp)
                    if r:
                        bad += 1
                        acc.violation(
                            f'C06/concurrent-encoding/{r[0]}',
                            {'case': i, 'threads': nthreads, 'path': path,
                             'given': M.srepr(lst)[:300], 'detail': r[1],
                             'dgram': out[:200] if isinstance(out, bytes) else None})
            acc.count('conc_rounds')
            acc.case(h64((i, nthreads, sum(len(w) for w in work))),
                     nontrivial=True)
    finally:
        inj.stop()
        sys.setswitchinterval(old_switch)
    acc.count('conc_overlapping_encodings', state['overlaps'])
    acc.count('conc_injected_yields', inj.injected)


def run_shard(spec, acc):
    kind = spec['shard']['kind']
    if kind == 'clump':
        return run_clump(spec, acc)
    if kind == 'drecv':
        return run_drecv(spec, acc)
    if kind == 'conc':
        return run_conc(spec, acc)
    cx = Ctx(spec, acc)
    M = cx.M
    for i in iter_cases(spec):
        rng = case_rng(spec['seed'], 'C06', kind, i)
        hostile = rng.choice(M.HOSTILE) if rng.random() < 0.2 else None
        if kind == 'msg':
            lst = gen_or_retry(lambda: M.gen_msg(rng, 0, hostile))
            alias_argument(cx, spec, i, lst)
            nt = check_packet(cx, i, lst, False, rng, hostile)
        else:
            order = rng.choice(['ok', 'ok', 'ok', 'tie', 'tie', 'any'])
            lst = gen_or_retry(lambda: M.gen_bundle(rng, 0, order=order,
                                                    hostile=hostile))
            alias_argument(cx, spec, i, lst)
            nt = check_packet(cx, i, lst, True, rng, hostile)
        acc.case(h64(M.srepr(lst)), nontrivial=bool(nt))


def alias_argument(cx, spec, i, lst):
    """In some cases the SAME mutable object (bytearray / writable view blob,
    nested message or bundle list, element list) sits at two positions of one
    packet: both positions must encode what the object held when given."""
    rng = case_rng(spec['seed'], 'C06', 'alias', i)
    if rng.random() >= 0.08:
        return
    idx = [j for j in range(1, len(lst))
           if isinstance(lst[j], (bytearray, memoryview, list)) and len(lst[j])]
    if not idx:
        return
    j = rng.choice(idx)
    lst.insert(rng.randint(j, len(lst)), lst[j])
    cx.acc.count('aliased_argument_cases')


def gen_or_retry(f):
    return f()
