"""C19 object re-use histories: one Env object (and the objects derived from
it) goes through a random sequence of uses and public parameter changes; after
every step each server format / evaluation it gives is compared with the
reference model (vf/model_env.py) of its CURRENT public parameters (levels,
times, curves, release_node, loop_node, offset read back from the object) and
with a fresh Env built from equal parameters.

uses      _envgen_format(), _interpolation_format(), _as_control_input(),
          _at(t), EnvGen.kr/ar(env) and IEnvGen.kr(env, index) in a SynthDef
          whose bytes are decoded with vf/scgf.py
changes   duration setter; range / exprange / curverange (the history goes on
          with the derived object, sometimes with the original); copy.copy;
          assignment of the public attributes release_node, loop_node, times,
          levels, curves

The harness keeps every parameter version of the object's lineage.  A wrong
result is diagnosed from the array the object actually used:
  it is the model's array of an EARLIER parameter version ->
      C19/object-reuse/stale-format-after/<change that followed that version:
          duration-setter | derived-copy | attribute-assignment>
  it is the model's array of the OTHER layout (any version) ->
      C19/object-reuse/format-cross-talk/<envgen-side-after-interpolation-side |
                                          interpolation-side-after-envgen-side>
  otherwise -> C19/object-reuse/<side>-wrong

A change method that raises inside its documented domain (levels with min <
max, lo < hi, lo > 0 for exprange, positive total duration) is reported as
C19/derived-envelope-raises/<method>/<exception>/<site>: the derived envelope,
whose encoding and evaluation the property is about, cannot be obtained.

Re-specification ('respec' steps; the class "attribute assignments that change
the SEGMENT COUNT of an existing envelope").  The parameters of an Env are
plain attributes and the server formats are computed from whatever they hold
when the envelope is encoded, so an existing envelope - built by Env(...) or by
a standard constructor (30% of the histories start from Env.adsr(...),
Env.perc(...), ... with random parameters), encoded before or not, copied,
derived, stretched before or not - can be given more or fewer segments by
assigning new `levels` and `times` (both always), new `curves` (scalar, one per
new segment, shorter, of the OLD segment count) and new nodes, in a random
order: all orders of levels / times / curves are drawn (counters
reuse_respec_order_*).  Values are assigned as the user would write them: a
list with one duration per NEW segment, levels for the NEW count.

  * The harness keeps the values it assigned ("truth"); the expected arrays are
    the model's encoding of the ASSIGNED values (not of what is read back), and
    a fresh Env(levels, times, curves, release_node, loop_node, offset) built
    from them must evaluate to the same numbers.
  * Between the assignments the object is used (format / interpolation format /
    control input / _at / EnvGen definition) only when the intermediate
    object is consistent: `times` holds exactly one duration per segment of the
    current `levels` and a `curves` list is not longer than that.  An
    inconsistent intermediate state is never encoded or evaluated (what it
    would give is not defined by the property), but the assignment that leads
    into or out of it must not raise and must not change the list it is given.
  * After the last assignment the object is consistent: both formats and _at
    are checked.

A wrong array or an exception at a use is keyed, before the diagnosis above,
by what the object reads back: when a public attribute no longer equals the
value that was assigned to it (assigned values are kept as given: wrapping of
curves is done when the envelope is encoded, the wrapping of times in the
constructor) ->
      C19/object-reuse/assigned-value-not-kept/<attribute>
An assignment that raises -> C19/object-reuse/assignment-raises/<attribute>/
<exception>/<site>; one that changes the list it was given ->
C19/object-reuse/assignment-mutates-value/<attribute>.

Originals: the object a copy was taken from (copy.copy, range / exprange /
curverange) is kept with its parameters; at the end of the history, after the
copy has been re-specified / stretched / used, it must still encode as its own
parameters say -> C19/object-reuse/original-changed-by-history-of-copy.
"""

import copy

from vf.common import iter_cases, case_rng, h64, short_tb, tb_sites

PARAMS = ('levels', 'times', 'curves', 'release_node', 'loop_node')
USES = ('format', 'control', 'at', 'envgen', 'iformat', 'ienvgen')
ORDERS3 = ('levels-times-curves', 'levels-curves-times', 'times-levels-curves',
           'times-curves-levels', 'curves-levels-times', 'curves-times-levels')
ORDERS2 = ('levels-times', 'times-levels')


class _Skip(Exception):
    """A fresh object deviates from the model as well: sequential deviation,
    the subject of the other shards."""


class _Failed(Exception):
    """A violation was recorded; the history ends."""


def current(env):
    p = {k: copy.deepcopy(getattr(env, k)) for k in PARAMS}
    p['offset'] = env.offset
    return p


def consistent(p):
    """One duration per segment of the levels; a curves list not longer."""
    nseg = len(p['levels']) - 1
    return (isinstance(p['times'], list) and len(p['times']) == nseg
            and not (isinstance(p['curves'], list)
                     and len(p['curves']) > max(nseg, 1)))


def gen_history(rng, nseg):
    n = rng.randint(3, 10)
    uses = ['format', 'format', 'iformat', 'iformat', 'control', 'at', 'at',
            'envgen', 'ienvgen']
    changes = ['duration', 'range', 'exprange', 'curverange', 'copy',
               'assign-release_node', 'assign-loop_node', 'assign-times',
               'assign-levels', 'assign-curves', 'assign-offset',
               'respec', 'respec', 'respec', 'respec', 'respec']
    out = []
    for _ in range(n):
        if rng.random() < 0.62:
            out.append(rng.choice(uses))
        else:
            out.append(rng.choice(changes))
    if not any(o in uses for o in out[-2:]):
        out.append(rng.choice(['format', 'at', 'iformat']))
    return out


def gen_respec(rng, G, n, old_curves, dyadic):
    """A re-specification of an envelope that has n segments -> (kind, values,
    order): the attribute values to assign and the order of the assignments.
    `levels` and `times` are always assigned (one duration per NEW segment)."""
    r = rng.random()
    if r < 0.45 or (n == 1 and r < 0.85):
        kind, m = 'grow', n + rng.randint(1, rng.choice([1, 2, 3, 6]))
    elif r < 0.85:
        kind, m = 'shrink', rng.randint(1, n - 1)
    else:
        kind, m = 'same-count', n
    m = min(m, 14)
    if m == n:
        kind = 'same-count'
    vals = {'levels': [G.gen_level(rng, 'any') for _ in range(m + 1)],
            'times': [G.gen_dur(rng, dyadic) for _ in range(m)]}
    if rng.random() < 0.12:
        vals['levels'][rng.randrange(m + 1)] = [
            G.gen_level(rng, 'any') for _ in range(rng.randint(2, 3))]
    if rng.random() < 0.08:
        vals['times'][rng.randrange(m)] = [
            G.gen_dur(rng, dyadic) for _ in range(2)]
    too_long = isinstance(old_curves, list) and len(old_curves) > m
    if too_long or rng.random() < 0.55:
        form = rng.choice(['name', 'number', 'list-equal', 'list-equal',
                           'list-shorter', 'list-old-count'])
        if form == 'list-old-count' and n > m:
            form = 'list-equal'
        if form == 'name':
            vals['curves'] = rng.choice(G.ANY_SIGN_NAMES + G.CUB_NAMES)
        elif form == 'number':
            vals['curves'] = rng.choice([-4, 2.0, 0, 4.5, -1, 1e-5,
                                         round(rng.uniform(-10, 10), 2)])
        else:
            k = {'list-equal': m, 'list-shorter': rng.randint(1, m),
                 'list-old-count': n}[form]
            vals['curves'] = [G.gen_curve_item(rng, 'any') for _ in range(k)]
            if rng.random() < 0.1:
                vals['curves'][rng.randrange(k)] = [
                    G.gen_curve_item(rng, 'any') for _ in range(2)]
    if rng.random() < 0.4:
        vals['release_node'] = rng.choice([None, rng.randint(0, m - 1)])
    if rng.random() < 0.2:
        vals['loop_node'] = rng.choice([None, 0])
    order = list(vals)
    rng.shuffle(order)
    return kind, vals, order


def gen_start(rng, G):
    """-> (description for the witness, callable(Env) -> object, dyadic)."""
    if rng.random() < 0.7:
        # sign-agnostic shapes: range / exprange move the levels across signs
        a = G.gen_env_args(rng, cls='any')
        args = {k: a[k] for k in PARAMS}
        return args, (lambda Env: Env(**copy.deepcopy(args))), a['dyadic']
    bad = set(G.EXP_NAMES) | {'sqr', 'squared'}
    while True:
        name, kw, flags = G.gen_ctor_kwargs(rng)
        cv = [kw.get('curve'), kw.get('curves')] + [
            q[2] for q in kw.get('xyc', [])]
        flat = []
        for c in cv:
            flat += c if isinstance(c, list) else [c]
        if not any(isinstance(c, str) and c in bad for c in flat):
            break
    args = {'constructor': name, 'kwargs': kw}
    return (args, (lambda Env: getattr(Env, name)(**copy.deepcopy(kw))),
            bool(flags.get('dyadic')))


def run_reuse(spec, acc):
    from vf import model_env as M, c19_gen as G, scgf
    from sc3.base import utils as utl
    from sc3.synth.envelope import Env
    from sc3.synth.synthdef import SynthDef
    from sc3.synth.ugens import EnvGen, IEnvGen, Out

    def site(e):
        s = tb_sites(e)
        return f'{s[-1][0]}:{s[-1][1]}' if s else 'harness'

    for i in iter_cases(spec):
        rng = case_rng(spec['seed'], 'C19', 'reuse', i)
        args, build, dyadic = gen_start(rng, G)
        hist = gen_history(rng, None)
        try:
            env = build(Env)
            if len(env.levels) < 2 or not consistent(current(env)):
                raise ValueError('start object outside the histories')
        except Exception:
            acc.count('reuse_skipped_not_constructible')
            continue
        log = []            # steps done so far (witness)
        acc.case(h64((repr(args), hist)),
                 nontrivial=any(h in ('iformat', 'ienvgen') for h in hist)
                 and any(h in ('format', 'at', 'control', 'envgen')
                         for h in hist))
        acc.count('reuse_histories')
        if 'constructor' in args:
            acc.count('reuse_start_standard_constructor')
            acc.count('reuse_start_' + args['constructor'])

        versions = [current(env)]   # parameter versions of the lineage
        changes = []                # kind of the change after version k
        # the parameters the object has according to the history: what was
        # read after a computed change (duration setter, derived copy), what
        # was ASSIGNED after an assignment
        truth = [current(env)]
        kept = []                   # (original object, its parameters)
        st = {'encoded': False}     # a format was computed since the last change

        def model(side, p):
            if side == 'envgen-side':
                return M.encode(**{k: p[k] for k in PARAMS})
            return M.encode_interpolation(p['levels'], p['times'],
                                          p['curves'], p['offset'])

        def blame(side, obj):
            """Diagnose from the array the object hands out for that side."""
            other = 'interpolation-side' if side == 'envgen-side' \
                else 'envgen-side'
            try:
                arr = obj._envgen_format() if side == 'envgen-side' \
                    else obj._interpolation_format()
                arr = [list(t) for t in arr]
            except Exception:
                return f'C19/object-reuse/{side}-wrong'
            for v in range(len(versions) - 2, -1, -1):
                try:
                    if M.same_arrays(arr, model(side, versions[v])) is None:
                        return ('C19/object-reuse/stale-format-after/'
                                + changes[v])
                except Exception:
                    pass
            for v in range(len(versions) - 1, -1, -1):
                try:
                    if M.same_arrays(arr, model(other, versions[v])) is None:
                        return ('C19/object-reuse/format-cross-talk/'
                                f'{side}-after-{other}')
                except Exception:
                    pass
            return f'C19/object-reuse/{side}-wrong'

        def not_kept():
            """Name of a public attribute that no longer holds the value the
            history gave it (None when all do)."""
            try:
                now = current(env)
            except Exception:
                return None
            for k in ('times', 'levels', 'curves', 'release_node',
                      'loop_node', 'offset'):
                if now[k] != truth[0][k]:
                    return k
            return None

        def key_for(side):
            nk = not_kept()
            if nk:
                return 'C19/object-reuse/assigned-value-not-kept/' + nk
            return blame(side, env)

        def changed(kind):
            versions.append(current(env))
            changes.append(kind)
            st['encoded'] = False

        def witness():
            return {'case': i, 'args': args, 'history': list(log)}

        def use(step):
            """One use of the object, judged by the parameters in truth[0].
            Raises _Failed after recording a violation, _Skip when a fresh
            object deviates from the model too."""
            cur = truth[0]
            pp = {k: cur[k] for k in PARAMS}
            want = M.encode(**pp)
            wanti = M.encode_interpolation(
                cur['levels'], cur['times'], cur['curves'], cur['offset'])
            # does a fresh object agree with the model?  If not the
            # deviation is sequential (other shards' subject)
            try:
                fresh = Env(**copy.deepcopy(pp), offset=cur['offset'])
                dev = M.same_arrays(
                    [list(t) for t in fresh._envgen_format()], want)
            except Exception:
                dev = 'raises'
            if dev:
                acc.count('reuse_skipped_sequential_deviation')
                raise _Skip()
            try:
                _use(step, cur, want, wanti, fresh)
            except (_Failed, _Skip):
                raise
            except Exception as e:
                nk = not_kept()
                acc.violation(
                    'C19/object-reuse/assigned-value-not-kept/' + nk if nk
                    else f'C19/object-reuse/{step}-raises/'
                         f'{type(e).__name__}/{site(e)}',
                    dict(witness(), use=step, tb=short_tb(e), current=cur,
                         read_back=_safe_current(env)))
                raise _Failed()
            st['encoded'] = True

        def _use(step, cur, want, wanti, fresh):
            if step in ('format', 'control'):
                got = env._envgen_format() if step == 'format' else \
                    env._as_control_input()
                if step == 'control' and len(want) == 1:
                    got = [got]
                got = [list(t) for t in got]
                acc.count('reuse_envgen_side_checks')
                d = M.same_arrays(got, want)
                if d:
                    acc.violation(key_for('envgen-side'), dict(
                        witness(), differs=d, got=got[:2], expected=want[:2],
                        current=cur, read_back=_safe_current(env)))
                    raise _Failed()
            elif step == 'iformat':
                got = [list(t) for t in env._interpolation_format()]
                acc.count('reuse_interpolation_side_checks')
                d = M.same_arrays(got, wanti)
                if d:
                    acc.violation(key_for('interpolation-side'), dict(
                        witness(), differs=d, got=got[:2],
                        expected=wanti[:2], current=cur,
                        read_back=_safe_current(env)))
                    raise _Failed()
            elif step == 'at':
                nch = len(want)
                total = max(sum(arr[5::4]) for arr in want)
                for t in (0, total * rng.choice([0.25, 0.5, 0.75]), total,
                          total + 1):
                    v = env._at(t)
                    w = fresh._at(t)
                    acc.count('reuse_at_checks')
                    bad = v != w and not (v != v and w != w)
                    if not bad and cur['offset'] == 0 and t >= 0:
                        vs = v if nch > 1 else [v]
                        for c in range(nch):
                            l0, segs = M.segments(want[c])
                            ok, where, why = M.value_ok(
                                [l0] + [s[0] for s in segs],
                                [s[1] for s in segs],
                                [s[2] for s in segs], t, vs[c], False)
                            if not ok and not any(
                                    s[2] == 7 for s in segs):
                                bad = True
                    if bad:
                        acc.violation(key_for('envgen-side'), dict(
                            witness(), t=t, got=v, fresh_equal_env=w,
                            current=cur, read_back=_safe_current(env)))
                        raise _Failed()
            elif step in ('envgen', 'ienvgen'):
                e = env

                def graph():
                    if step == 'envgen':
                        Out.kr(0, EnvGen.kr(e, 1.0, 1.0, 0.0, 1.0, 0))
                    else:
                        Out.kr(0, IEnvGen.kr(e, 0.5))
                d = scgf.parse(SynthDef('c19r', graph).as_bytes())
                cls = 'EnvGen' if step == 'envgen' else 'IEnvGen'
                units = [u for u in d.units if u.cls == cls]
                head = [1.0, 1.0, 0.0, 1.0, 0.0] if step == 'envgen' \
                    else [0.5]
                exp = want if step == 'envgen' else wanti
                side = 'envgen-side' if step == 'envgen' else \
                    'interpolation-side'
                acc.count('reuse_defs_decoded')
                ok = len(units) == len(exp)
                if ok:
                    for u, arr in zip(units, exp):
                        vals = [d.constants[x[1]] if x[0] == 'c' else None
                                for x in u.inputs]
                        wv = [M.f32(x) for x in head + arr]
                        if len(vals) != len(wv) or any(
                                g is None or (g != w and abs(g - w) >
                                              2.0 ** -23 * abs(w))
                                for g, w in zip(vals, wv)):
                            ok = False
                            break
                if not ok:
                    acc.violation(key_for(side), dict(
                        witness(), units=[repr(u) for u in units][:2],
                        expected=exp[:2], current=cur,
                        read_back=_safe_current(env)))
                    raise _Failed()

        def assign(attr, val):
            """setattr with a private copy of val; the value must be taken as
            given (no exception, the list handed over is not changed)."""
            given = copy.deepcopy(val)
            try:
                setattr(env, attr, given)
            except Exception as e:
                acc.violation(
                    f'C19/object-reuse/assignment-raises/{attr}/'
                    f'{type(e).__name__}/{site(e)}',
                    dict(witness(), attribute=attr, value=val,
                         tb=short_tb(e)))
                raise _Failed()
            if given != val:
                acc.violation(
                    f'C19/object-reuse/assignment-mutates-value/{attr}',
                    dict(witness(), attribute=attr, value=val, after=given))
                raise _Failed()
            truth[0] = dict(truth[0], **{attr: copy.deepcopy(val)})
            changed('attribute-assignment')

        def respec():
            n = len(truth[0]['levels']) - 1
            kind, vals, order = gen_respec(rng, G, n, truth[0]['curves'],
                                           dyadic)
            log[-1] = ['respec', kind, order, vals]
            acc.count('reuse_respec_' + kind)
            if st['encoded']:
                acc.count('reuse_respec_of_encoded_object')
            main = [a for a in order if a in ('levels', 'times', 'curves')]
            acc.count('reuse_respec_order_' + '-'.join(main))
            for k, attr in enumerate(order):
                assign(attr, vals[attr])
                acc.count('reuse_respec_assignments')
                if k == len(order) - 1:
                    break
                if not consistent(truth[0]):
                    acc.count('reuse_respec_inconsistent_intermediates')
                    continue
                acc.count('reuse_respec_consistent_intermediates')
                if rng.random() < 0.6:
                    u = rng.choice(['format', 'format', 'iformat', 'iformat',
                                    'at', 'control', 'envgen', 'ienvgen'])
                    log.append('respec:' + u)
                    acc.count('reuse_respec_intermediate_uses')
                    use(u)
            # all values assigned: the object is the envelope of these values
            for u in ('format', 'iformat', 'at'):
                log.append('respec-done:' + u)
                use(u)
            acc.count('reuse_respec_final_checks')
            if kind != 'same-count':
                acc.count('reuse_respec_segment_count_changed')

        try:
            for step in hist:
                log.append(step)
                acc.count('reuse_step_' + step)
                if step in USES:
                    use(step)
                    continue
                if step == 'respec':
                    respec()
                    continue
                if step.startswith('assign-'):
                    attr = step.split('-', 1)[1]
                    n = len(env.levels) - 1
                    if attr == 'release_node':
                        val = rng.choice([None, rng.randint(0, max(0, n - 1))])
                    elif attr == 'loop_node':
                        val = rng.choice([None, 0])
                    elif attr == 'times':
                        val = [G.gen_dur(rng, dyadic) or 1 for _ in range(n)]
                    elif attr == 'offset':
                        val = rng.choice([0, 1, 0.5, -2.0])
                    elif attr == 'levels':
                        val = [G.gen_level(rng, 'any') for _ in range(n + 1)]
                    else:
                        val = rng.choice(['lin', 'sin', -4, 2.0, 'wel',
                                          ['lin', 3]])
                    if getattr(env, attr) != val:
                        assign(attr, val)
                    continue
                try:
                    if step == 'duration':
                        if isinstance(env.total_duration(), (int, float)) \
                                and env.total_duration() > 0:
                            env.duration = rng.choice([1, 2.0, 0.5, 3,
                                                       rng.uniform(0.1, 8)])
                            changed('duration-setter')
                            truth[0] = current(env)
                    elif step in ('range', 'exprange', 'curverange'):
                        flat = utl.flat(env.levels) if hasattr(utl, 'flat') \
                            else env.levels
                        if min(flat) < max(flat):
                            lo, hi = sorted(rng.sample(
                                [0.1, 0.25, 0.5, 1, 2, 3.5, 10, 100], 2))
                            if step == 'range' and rng.random() < 0.4:
                                lo = -lo
                            new = getattr(env, step)(lo, hi)
                            if rng.random() < 0.8:
                                kept.append((env, copy.deepcopy(truth[0])))
                                env = new
                                changed('derived-copy')
                                truth[0] = current(env)
                    elif step == 'copy':
                        kept.append((env, copy.deepcopy(truth[0])))
                        env = copy.copy(env)
                except Exception as e:
                    # a documented public method of the envelope, called
                    # inside its documented domain, that cannot produce the
                    # derived / changed envelope at all
                    acc.violation(
                        f'C19/derived-envelope-raises/{step}/'
                        f'{type(e).__name__}/{site(e)}',
                        dict(witness(), tb=short_tb(e)))
                    raise _Failed()
            # the objects copies were taken from still are what they were
            for obj, p in kept[-3:]:
                pp = {k: p[k] for k in PARAMS}
                want = M.encode(**pp)
                fresh = Env(**copy.deepcopy(pp), offset=p['offset'])
                if M.same_arrays([list(t) for t in fresh._envgen_format()],
                                 want):
                    continue
                acc.count('reuse_originals_rechecked')
                try:
                    got = [list(t) for t in obj._envgen_format()]
                    d = M.same_arrays(got, want)
                except Exception as e:
                    got, d = short_tb(e), 'raises'
                if d:
                    acc.violation(
                        'C19/object-reuse/original-changed-by-history-of-copy',
                        dict(witness(), differs=d, got=got[:2],
                             expected=want[:2], original=p))
                    raise _Failed()
        except _Failed:
            continue
        except _Skip:
            continue
        if acc.want_sample() and len(hist) <= 6 \
                and len(repr(args)) < 300 and len(repr(log)) < 900:
            acc.sample({'case': i, 'args': args, 'history': log})


def _safe_current(env):
    try:
        return current(env)
    except Exception as e:
        return f'{type(e).__name__}: {e}'
