"""C13 - patterns denote the sequences their definitions say, compositionally;
streams of one pattern are independent and the pattern object is immutable.

Reference-model monitor: a typed random expression (vf/c13_gen.py) is built as
real sc3 pattern objects (vf/c13_build.py) and, independently, given its
denotation by vf/model_patterns.py (lazy Python sequences written from the
SuperCollider pattern documentation; no sc3 import).  Compared per case:

 * the first 64 values and the end position of a fresh stream (obtained through
   iter()/next(), Stream.next(inval), the embedding protocol or Stream.all()),
 * two further streams of the same pattern object consumed alternately under a
   random schedule (must both equal the fresh stream),
 * a deep snapshot of vars() of every pattern node before and after all
   streams ran (must be identical),
 * Pseed-wrapped random leaves: reproducible for a seed, in range, of the
   declared length; the seeded sequence then enters the model as an opaque leaf
   so that the *composition* around it is still checked.

On a mismatch the smallest sub-expression that mismatches on its own is blamed
and gives the mechanism key.

Round 7b (coverage-driven widening).  The expression language also has Pwalk
(deterministic steps), Platch, Pwhile, Pgate (input events with a gate entry
that changes from pull to pull), Pprorate, Pproduct, Ptrace / Pattern.trace(),
Pvalue, patterns made with the `pattern` decorator (arguments pulled with
next(): Stream.__iter__, Stream.__next__, ValueStream.__next__), dict items
(DictionaryStream: composed with the input event), the driver
iter(stream(pattern)), and the random leaves Plprand, Phprand, Pmeanrand, Pbeta,
Pcauchy, Pgauss, Ppoisson, Pexprand, Pgbrown, Pprob (documented range / length /
step) and Pfsm (every transition allowed by the state table).  The blueprint
clause is checked for EVERY Pattern subclass the library defines by the `blue`
shards (vf/c13_blue.py: run-time discovery, canonical and generated constructor
arguments, second stream, alternating streams, reset, re-embedding through
Pn / Pseq, one stream per OS thread, snapshot; event patterns, Pmono inside a
recording player, time patterns under a harness-set logical time), which also
observe objects as streams (ValueStream / DictionaryStream), what Ptrace
prints, iter() of a running stream, and a seeded stream next to an unseeded
consumer in another thread.

Round 9 (numeric edges).  Class that was not reached: the behaviour of the
classes whose documented meaning involves a tolerance or a comparison of
accumulated numbers, AT the edge of that comparison.  Pconst had no tolerance
argument in the expression language and only dyadic data, so no running total
ever fell inside the tolerance window without reaching the sum.  Now: the
tolerance is part of the Pconst node (left out = 0.001, decimal 0.01 / 0.1 / 0.3
..., dyadic, coarse 0.5 / 1.5 / 2.5, int 1..8, zero), sources are planned in
units so that the deciding total lands on a chosen place - on the sum, beyond
it, in the upper and in the lower half of the window, one unit inside / outside
its lower border, exactly on that border, two tolerances away -, with int and
float (decimal: 0.7493) data, prefixes made of Pseries / Pgeom (accumulating),
Pstutter with pattern-valued counts incl. 0, Pn, nested Pconst, a tail that
shows whether the pattern went on, nested in Pseq / Pn / Plen / Pdrop / Pclump /
Pdiff / operators / an outer Pconst (vf/c13_gen.py: pconst_edge, edge).  The
model decides each total with exact rationals (vf/model_patterns.py:
pconst_zone quotes the help sentence that decides each edge) and gives no
verdict where the documentation is silent (the border itself; sums that are not
a multiple of the tolerance); a step-by-step audit of stand-alone Pconst
(pconst_audit / pconst_diagnose) holds those inputs, too, to what every reading
demands and names the mechanism key.  Siblings: Plen / Pdrop / Pclump counts at,
one below and one above the length of their source, Pclump with pattern-valued
sizes incl. 0.  Values of expressions with decimal literals are compared to one
part in 1e9, everything else exactly as before.
"""

from vf.common import iter_cases, case_rng, h64, split, short_tb, tb_sites

LEVEL = 'exploration'
RULE = ("seeded typed random pattern expressions of depth 1-5 over Pseq, Pser, "
        "Place, Pn, Plen, Pdrop, Pstutter, Pclump, Pflatten, Pdiff, Pconst, "
        "Pswitch, Pswitch1, Ptuple, Pslide, Pseries, Pgeom, Pcollect/Pselect/"
        "Preject, Pif, Pwrap, Pseed-wrapped Pwhite/Prand/Pxrand/Pshuffle/Pbrown "
        "and unary/binary/n-ary operator patterns (infix, reflected, method and "
        "builtin call forms), finite and infinite repeats, pattern-valued numeric "
        "arguments, nested lists as items; since round 7b also Pwalk, Platch, "
        "Pwhile, Pgate, Pprorate, Pproduct, Ptrace, Pvalue, decorator-made "
        "patterns, dict items and ten more random leaves + Pfsm; blueprint "
        "shards: every Pattern subclass (69) with canonical and generated "
        "arguments; since round 9 Pconst with its tolerance argument (left out, "
        "decimal, dyadic, coarse, int, zero) over sources planned so that the "
        "deciding running total lands on the sum, beyond it, in either half of "
        "the tolerance window, next to and on its lower border (14 % of the "
        "numeric cases + a step-by-step audit of stand-alone Pconst), Plen / "
        "Pdrop / Pclump counts next to the source's length, zero clump sizes; "
        "first 64 values + end position "
        "compared with the denotational model; a case is non-trivial when the "
        "expression nests at least 2 levels, uses at least 2 distinct classes "
        "and the model sequence has at least 2 values; distinct = hash of the "
        "expression text")
ASSUMPTIONS = [
    "vf/model_patterns.py is the meaning of the pattern classes (written from "
    "the SuperCollider help files; deliberate differences documented in the "
    "port - Pif ends with the first exhausted branch, argument order - are "
    "followed and listed in the module header)",
    "generated numbers are dyadic rationals, so model and library perform "
    "identical exact float operations and values are compared exactly; below "
    "wrap/mod/Pconst (mathematically specified, different but equal formulas) "
    "no float random leaf is generated and operands finer than 2**-20 or "
    "beyond 2**31 make the case 'no verdict' (discarded_beyond_32bit)",
    "not generated because the documentation leaves them open (audited by "
    "scratch runs, see proposed_fixes/ and the report): Pflatten of items "
    "nested deeper than n (the port flattens the stream n levels, sclang the "
    "items n levels and then spreads them - both are readings of the help "
    "text); float / negative "
    "repeats and lengths; empty lists (ListPattern raises ValueError by "
    "design); pattern-valued repeats or start values (not supported by the "
    "port's constructors); Pselect/Preject predicates that do not return bool",
    "generated since the audit: offsets outside 0..len-1 (the starting index "
    "wraps), negative Pstutter counts (|n|), mixed int/float wrap/clip bounds, "
    "Placep, Plazy/Pfuncn/Pfunc/Prout with pure functions, Pwrand, single "
    "element Pxrand/Pshuffle, non-None inval for next/all/embed, reset() "
    "mid-way and after the end, polling after the end",
    "no verdict (counted, not judged): unproductive expressions (model out of "
    "fuel - e.g. Pn of an empty pattern for ever), a hang while an already "
    "ended stream is polled again when no resuming sub-stream can be shown "
    "(an operand pulled before the exhausted one may be unproductive from "
    "there on: after_end_poll_unproductive_operand)",
    "random leaves are opaque: only reproducibility per seed, range, length, "
    "no-repeat (Pxrand), zero-weight exclusion (Pwrand) are judged; integer "
    "Pwhite never returning its upper bound (rrand) is accepted as in range",
    "input values: every pull j of a stream gets the input value base + j*delta "
    "(None, a number or a dict; delta 0 = constant); a value is computed with "
    "the input value of the pull that produces it, everything a pattern pulls "
    "from its sources during that pull sees the same value, Plazy evaluates its "
    "function with the input value of the pull that starts the embedding; "
    "Prout bodies follow the embedding protocol (take inval, return the last "
    "one); Stream.all(inval) is only driven with a constant input value",
    "the corrected Pdrop / Prout embedding generators in vf/c13_build.py "
    "(fixed_classes) are used only to attribute a mismatch to a mechanism key, "
    "never to decide whether there is a mismatch",
    "int / float: values are compared by kind as well (type(x) is type(y)) for "
    "expressions whose number kinds are documented - leaves as written, omitted "
    "Pseries/Pgeom arguments as in the port's signatures (start=0.0, step=1.0; "
    "start=1.0, grow=1.0; length=inf), Python arithmetic in between; "
    "expressions containing Pwrap, .clip/.wrap or mod are compared by value "
    "only (those kernels pick the result kind from their arguments' kinds, "
    "which no documentation fixes); a float series is not generated as Pswitch "
    "index / Pstutter count / Pclump size (the library raises there, which is "
    "not a documented outcome either way)",
    "event patterns, Pkey, Ptime, Pchain and time patterns are C14's as far as "
    "their sequences go (here only the blueprint clause); stream "
    "methods collect/select/reject/++ do not exist in the port",
    "round 7b, denotations beyond the quantifier's class list only where the "
    "documentation decides: Pwhile (func of the input value, evaluated at the "
    "start and whenever the pattern is exhausted), Platch (Pclutch help), "
    "Pgate (Pgate help; the input event's entry must be True), Pprorate "
    "(Prorate help: p * v, (1 - p) * v or one part per list element), Pproduct "
    "(PstepNfunc help: nested iteration, func(list of values)), Ptrace "
    "(identity + one printed record per value), Pvalue (the value embedded in "
    "place), the `pattern` decorator (its doc string: the generator function's "
    "values; arguments pulled with next() see no input value), dict items "
    "(Event.next / composeEvent: a copy of the input dict updated with the "
    "item; only None or dict input values), Pwalk ONLY for integer steps from "
    "a pattern that does not end, directions 1 / -1 from a pattern that does "
    "not end, start inside the list, and as long as no boundary is crossed "
    "with a negative step value (there 'use the step as is' and the port's "
    "|step| * direction differ): all that is 'no verdict' (OutOfDomain)",
    "NOT judged denotationally (guesswork otherwise): Pfsm beyond 'every "
    "transition is in the table, starts in an entry state, ends where the table "
    "allows, at most `repeats` runs'; Pdfsm, Pavaroh, the distribution of any "
    "random pattern (only range, length, number kind, Pbrown/Pgbrown step)",
    "blueprint shards: equality of normalised values (dicts by sorted items, "
    "floats exactly, foreign objects by repr) taken at delivery; node_id of "
    "Pmono events is fresh per stream by design and dropped; an event pattern "
    "embedded without input event yields nothing by design, so event patterns "
    "are only driven through stream() / iter() unless the instance has an "
    "input event; Prout is only given generator functions; time patterns see a "
    "harness-set NRT logical time (dyadic, base + j / 4) and frozen time in the "
    "thread phase; Pgate / Pkey / Pn-with-key instances whose input event "
    "changes with the pull index skip the re-embedding comparison",
    "Pconst and its tolerance (round 9).  /repo has NO doc string for Pconst, "
    "Pdur, Plen, Pstutter, Pclump, Pseries, Pgeom (checked: the pattern modules "
    "only have their one-line module doc strings and '# Was Pfindur' / '# Was "
    "Pfin' notes), so the deciding sentences are those of the help files the "
    "port points to.  Pconst help: 'Embeds elements of the pattern into the "
    "stream until the sum comes close enough to sum. At that point, the "
    "difference between the specified sum and the actual running sum is "
    "embedded.'; `tolerance` (default 0.001, same name and default as Pfindur's "
    "'until the duration comes close enough to dur') says how close.  Per edge: "
    "total >= sum - 'comes close enough' / 'at that point': ends with the "
    "remainder (every reading); total more than one tolerance below the sum - "
    "not close enough: value handed on (every reading in which tolerance bounds "
    "the distance); total less than one tolerance below a sum that is a "
    "multiple of the tolerance (to 1e-9: decimals) - close enough, BOTH halves "
    "of the window: this is the reading the statement's 'constrained sums' is "
    "taken in, it is what the port's quantisation (round the total UP to a "
    "multiple of tolerance) gives on such sums; total exactly one tolerance "
    "below the sum (+-1e-9 relative, the float noise of the library's three "
    "IEEE operations) - 'close enough' does not say whether the border "
    "belongs to it: no verdict; sum not a multiple of the tolerance and total "
    "inside the window - the port (and sclang) quantise, which is narrower "
    "than the distance, the help is silent: no verdict (both only audited for "
    "reached / outside / values unchanged / remainder); tolerance 0: only a "
    "reached sum ends it; source ends first: the remainder is appended (the "
    "help's 'constrain the sum'); the remainder is sum - (total so far) with "
    "Python's int/float result kind",
    "values are compared exactly, except in expressions that contain a decimal "
    "float literal (not a multiple of 2**-20): there to one part in 1e9, since "
    "a series or a remainder may be computed by mathematically equal formulas "
    "that round differently; sequence lengths and end positions are always "
    "exact",
    "Plen(p, n) / Pdrop(p, n) / Pclump(p, n) with n at, below and above the "
    "length of p: Pfin help ('embeds n elements ... ends earlier if the "
    "pattern does'), Pdrop help ('drops the first n'), Pclump help ('groups of "
    "n; the last one may be shorter'); a size 0 gives an empty list per size "
    "value (range(0) in the help's terms: 'n' items) - only pattern-valued "
    "sizes with zeros among them are productive",
    "Pwalk(list, 0): once that defect is seen in an expression every other "
    "observation on the same expression is attributed to it (the walk is an "
    "unseeded random one); such expressions are not used in the threads and "
    "blueprint shards"]
NEW_NODES = ('Pwalk', 'Platch', 'Pwhile', 'Ptrace', 'Pvalue', 'Pgate', 'Pprorate',
             'Pproduct', 'Pgen')
NEW_LEAVES = ('Plprand', 'Phprand', 'Pmeanrand', 'Pbeta', 'Pcauchy', 'Pgauss',
              'Ppoisson', 'Pexprand', 'Pgbrown', 'Pprob', 'Pfsm')
# classes of the anchored files no workload entered before round 7b: each must
# be instantiated by the blueprint shards
BLUE_NAMED = ('Pwalk', 'Pfsm', 'Pdfsm', 'Pgate', 'Platch', 'Pwhile', 'Ptrace',
              'Pprorate', 'Pavaroh', 'Pproduct', 'Pvalue', 'Pprob', 'Plprand',
              'Phprand', 'Pmeanrand', 'Pbeta', 'Pcauchy', 'Pgauss', 'Ppoisson',
              'Pexprand', 'Pgbrown', 'pattern()', 'Pmono', 'Ppar', 'Pstep', 'Pseg')


def _mins(scale):
    d = {'class_' + n: 250 * scale for n in NEW_NODES}
    d.update({'class_rand:' + n: 8 * scale for n in NEW_LEAVES})
    d.update({'blue_' + n: 8 * scale for n in BLUE_NAMED})
    d.update({'driver_iterstream': 400 * scale,
              'max_blueprint_classes_discovered': 60,
              'blueprint_instances': 1200 * scale,
              'blueprint_streams_compared': 1200 * scale,
              'blueprint_interleaved_streams_compared': 2500 * scale,
              'blueprint_reset_streams_compared': 1000 * scale,
              'blueprint_reembeddings_compared': 2500 * scale,
              'blueprint_thread_streams_compared': 3000 * scale,
              'blueprint_snapshots_compared': 1200 * scale,
              'coercion_DictionaryStream': 30 * scale,
              'coercion_ValueStream': 30 * scale,
              'trace_records_compared': 200 * scale,
              'seeded_streams_next_to_unseeded_consumer': 60 * scale,
              'iter_of_a_running_stream': 300 * scale})
    return d


MIN_COUNTERS = {
    'quick': {'sequences_compared': 8000, 'interleaved_pairs_compared': 8000,
              'snapshots_compared': 8000, 'values_compared': 80000,
              'random_leaf_runs': 400, 'infinite_expressions': 800,
              'ended_streams_polled_again': 4000, 'reset_streams_compared': 4000,
              'inval_dependent_sequences_all': 300,
              'series_with_omitted_arguments': 1500,
              'sequences_compared_int_float_strict': 8000,
              'inval_dependent_sequences_next': 150,
              'class_Placep': 300,
              'concurrent_seeded_streams_compared': 400,
              'concurrent_seeded_values_compared': 20000},
    # thorough is bounded by time (11 expression shards of 450 s since round 7b,
    # 3 went to the blueprint clause); the minimums are what a heavily loaded
    # machine (load average 80-100 on 16 cores) still reaches with a margin
    'thorough': {'sequences_compared': 300000,
                 'interleaved_pairs_compared': 300000,
                 'snapshots_compared': 300000, 'values_compared': 4000000,
                 'random_leaf_runs': 20000, 'infinite_expressions': 40000,
                 'ended_streams_polled_again': 150000,
                 'reset_streams_compared': 150000, 'class_Placep': 10000,
                 'inval_dependent_sequences_all': 4000,
                 'inval_dependent_sequences_next': 20000,
                 'series_with_omitted_arguments': 25000,
                 'sequences_compared_int_float_strict': 250000,
                 # the threads shards slow down most on a loaded machine
                 'concurrent_seeded_streams_compared': 5000,
                 'concurrent_seeded_values_compared': 500000},
}
# round 9: the numeric edges must have been met (model notes: which zone the
# deciding running total of a Pconst fell into; the audit's own counters)
EDGE_MINS = {'pconst_total_within_tolerance_lower_half': 350,
             'pconst_total_within_tolerance_upper_half': 250,
             'pconst_total_equal_to_sum': 400, 'pconst_total_beyond_sum': 500,
             'pconst_total_just_outside_tolerance': 700,
             'pconst_source_ended_first': 150,
             'pconst_tolerance_left_out': 350, 'pconst_tolerance_fine': 350,
             'pconst_tolerance_coarse': 180, 'pconst_tolerance_int': 250,
             'expressions_with_decimal_literals': 350,
             'pconst_audits': 600, 'pconst_audit_ended_at_within': 250,
             'pconst_audit_ended_at_reached': 250,
             'pconst_audit_ended_at_off-grid': 8}
MIN_COUNTERS['quick'].update(_mins(1))
MIN_COUNTERS['thorough'].update(_mins(5))
MIN_COUNTERS['quick'].update(EDGE_MINS)
MIN_COUNTERS['thorough'].update({k: 5 * v for k, v in EDGE_MINS.items()})

N = 64


def plan(tier, seed):
    # 16 shards = one wave on 16 cores; the thorough tier is bounded by time
    # (secs per shard), its case numbers are upper limits
    quick = tier == 'quick'
    total = 32000 if quick else 7_000_000
    parts = 16 if quick else 11
    secs = 45 if quick else 450
    shards = [{'name': f'expr{p}', 'mode': 'nrt', 'kind': 'expr',
               'first_case': f, 'n': n, 'secs': secs, 'hard_timeout': secs + 150}
              for p, (f, n) in enumerate(split(total, parts))]
    nthr = 500 if quick else 40000
    for p, (f, n) in enumerate(split(nthr, 2)):
        shards.append({'name': f'threads{p}', 'mode': 'nrt', 'kind': 'threads',
                       'first_case': f, 'n': n, 'secs': secs,
                       'hard_timeout': secs + 150})
    # blueprint clause over every Pattern subclass (vf/c13_blue.py)
    nblue = 2100 if quick else 400000
    for p, (f, n) in enumerate(split(nblue, 3)):
        shards.append({'name': f'blue{p}', 'mode': 'nrt', 'kind': 'blue',
                       'first_case': f, 'n': n, 'secs': secs,
                       'hard_timeout': secs + 150})
    return shards


# ---------------------------------------------------------------------------

def detail(node):
    name = node[0]
    if name in ('Pseq', 'Pser', 'Place', 'Placep'):
        if not 0 <= node[3] < len(node[1]):
            return 'offset-outside-list'
        return 'offset' if node[3] else 'no-offset'
    if name == 'Pslide':
        return 'wrap' if node[5] else 'nowrap'
    if name in ('Punop', 'Pbinop', 'Pnarop'):
        from vf.model_patterns import isnode
        left = '' if isnode(node[3]) else '/number-left'
        return f'{node[1]}/{node[2]}{left}'
    return ''


CASE = {'inval': None, 'leaves': None, 'rel': 0.0}     # context of the running case

PDROP_KEY = 'C13/sequence-differs/Pdrop/dropped-value-passed-on-as-input-value'
PROUT_KEY = 'C13/sequence-differs/Prout/embedded-ignores-later-input-values'
PPRODUCT_KEY = 'C13/sequence-differs/Pproduct/input-values-not-handed-on'
PPRODUCT_ALIAS_KEY = 'C13/sequence-differs/Pproduct/value-list-reused-for-every-value'
PWALK_ZERO_KEY = 'C13/sequence-differs/Pwalk/step-zero-replaced-by-random-default'
PGEN_KEY = 'C13/sequence-differs/pattern-decorator/input-values-not-handed-on'


def inval_mechanism(node, exp, exp_ended, how, inval):
    """Keys of the input-value mechanisms that explain a mismatch of node:
    the expression is rebuilt with harness-side corrected Pdrop / Prout
    embedding generators; if it then agrees with the model the mismatch is
    that mechanism's.  Classification only."""
    from vf import model_patterns as mp, c13_build as cb
    names = {n[0] for n in mp.walk(node)}
    cands = []
    if 'Pdrop' in names:
        cands.append(({'Pdrop'}, [PDROP_KEY]))
    if names & {'Prout', 'ProutI'}:
        cands.append(({'Prout'}, [PROUT_KEY]))
    # (the two input-value mechanisms can only explain something when there
    # are input values: any other defect of these classes keeps its own key)
    with_inval = getattr(inval, 'base', inval) is not None
    if 'Pproduct' in names:
        if with_inval:
            cands.append(({'Pproduct-inval'}, [PPRODUCT_KEY]))
        if any(n[0] == 'Pproduct' and n[1] is None for n in mp.walk(node)):
            cands.append(({'Pproduct-alias'}, [PPRODUCT_ALIAS_KEY]))
    if 'Pgen' in names and with_inval:
        cands.append(({'Pgen'}, [PGEN_KEY]))
    # single mechanisms first, then the smallest combination that explains it
    import itertools
    singles = list(cands)
    for r in range(2, len(singles) + 1):
        for combo in itertools.combinations(singles, r):
            cands.append((set().union(*(c[0] for c in combo)),
                          [k for c in combo for k in c[1]]))
    for rep, keys in cands:
        cb.REPAIR.clear()
        cb.REPAIR.update(rep)
        try:
            with cb.time_limit(3):
                pat = cb.build(node)
                got, ended, exc = cb.real_take(pat, N, how, inval)
            if compare(exp, exp_ended, got, ended, exc,
                       mp.kind_is_fixed(node)) is None:
                return keys
        except (cb.RealTimeout, Exception):
            pass
        finally:
            cb.REPAIR.clear()
    return None

INVAL_NODES = ('PfuncnI', 'ProutI', 'PcollectI', 'PlazyI')


def zero_walk(node):
    """The expression contains Pwalk(list, 0, ...): the library takes steps=0
    for "no steps given" and walks at random (unseeded), so anything observed
    on such an expression is that one mechanism."""
    from vf import model_patterns as mp
    return any(n[0] == 'Pwalk' and not mp.isnode(n[2]) and n[2] == 0
               for n in mp.walk(node))


def pconst_diagnose(src, src_ended, total, tol, got, ended, rel=0.0):
    """What a Pconst did wrong, step by step along its source values (model
    of the source) and its own output: None when nothing the documentation
    decides is violated.  Reading-independent where vf.model_patterns.
    pconst_zone leaves the edge open ('border', 'off-grid'): there both
    continuations are accepted."""
    from vf import model_patterns as mp
    acc = 0
    if ended and not got:
        return 'empty-sequence'         # (there is always a remainder)
    for j, g in enumerate(got):
        last = ended and j == len(got) - 1
        if j >= len(src):
            if not src_ended:
                return None             # beyond what is known of the source
            if not (last and j == len(src)):
                return 'values-after-the-remainder'
            return None if mp.same_value(g, total - acc, rel) else 'remainder-wrong'
        v = src[j]
        if isinstance(v, bool) or not isinstance(v, (int, float)):
            return None
        t = acc + v
        zone = mp.pconst_zone(t, total, tol)
        noise = False
        if tol and zone in ('reached', 'within'):
            q = mp.Fraction(total) / mp.Fraction(tol)
            k = round(q)
            if abs(q - k) <= mp.GUARD * max(1, k) and k * tol < total:
                # the sum is a multiple of the tolerance as written (0.9 and
                # 0.3), but the IEEE product k * tolerance lies below it
                # (3 * 0.3 < 0.9): one mechanism of its own
                noise = True
        if last:
            if not mp.same_value(g, total - acc, rel):
                return 'remainder-wrong'
            if zone == 'outside':
                return 'total-outside-tolerance-taken-as-complete'
            return None
        if not mp.same_value(g, v, rel):
            if mp.same_value(g, total - acc, rel):
                return 'values-after-the-remainder'
            return 'value-changed'
        if noise:
            return 'multiple-of-tolerance-rounds-below-sum'
        if zone == 'reached':
            return 'total-reached-not-taken-as-complete'
        if zone == 'within':
            return 'total-within-tolerance-not-taken-as-complete'
        acc = t
    if ended and src_ended and len(got) == len(src):
        return 'remainder-missing'      # (only when the source ended first)
    return None


def pconst_key(bn, bgot):
    """Mechanism key of a mismatching Pconst from its own output, or None."""
    from vf import model_patterns as mp
    if bgot is None:
        return None
    try:
        src, src_ended = mp.take(bn[1], BLAME_N + 1, fuel=200000,
                                 leaves=CASE['leaves'], inval=CASE['inval'])
        tol = bn[3] if len(bn) > 3 else mp.DEFAULT_TOLERANCE
        d = pconst_diagnose(src, src_ended, bn[2], tol, bgot, len(bgot) < BLAME_N,
                            mp.REL if mp.has_decimal(bn) else 0.0)
    except Exception:
        return None
    return f'C13/sequence-differs/Pconst/{d}' if d else None


def seq_key(bn, bk, ctx, bgot=None):
    from vf import model_patterns as mp
    inval = CASE['inval']
    if bn[0] == 'Pconst' and not ctx:
        k = pconst_key(bn, bgot)
        if k:
            return k
    names = [n[0] for n in mp.walk(bn)]
    if bn[0] == 'Pdrop' and bn[2] > 0 and any(n in INVAL_NODES for n in names):
        # one mechanism, several symptoms (value, TypeError, hang)
        return 'C13/sequence-differs/Pdrop/dropped-value-passed-on-as-input-value'
    if inval is not None and inval.base is not None:
        if inval.varies() and bn[0] != 'ProutI' and 'ProutI' in names:
            # does a Prout of this expression, pulled through the embedding
            # protocol, ignore the input values of the later pulls?
            for sub in mp.walk(bn):
                if sub[0] == 'ProutI' and len(sub[2]) >= 2:
                    try:
                        k, _, _, _ = check_node(sub, CASE['leaves'], 'embed', N, inval)
                    except Exception:
                        k = None
                    if k:
                        return ('C13/sequence-differs/Prout/'
                                'embedded-ignores-later-input-values')
        if inval.varies() and bn[0] == 'ProutI':
            return 'C13/sequence-differs/Prout/embedded-ignores-later-input-values'
    if zero_walk(bn):
        return PWALK_ZERO_KEY
    if pslide_negative(bn):
        # one mechanism (no lower bound test), several symptoms
        return 'C13/sequence-differs/Pslide/nowrap-position-below-zero'
    d = detail(bn)
    if d == 'offset-outside-list':
        return f'C13/sequence-differs/{bn[0]}/offset-outside-list'
    return f'C13/sequence-differs/{bn[0]}' + (f'/{d}' if d else '') + f'/{bk}{ctx}'


def compare(exp, exp_ended, got, got_ended, exc, strict=False, rel=None):
    """None or the kind of mismatch.  strict: int and float are different
    results (only for expressions whose number kinds are documented).  rel:
    relative tolerance of the value comparison (0 = exact; None = the running
    case's: 1e-9 when the expression has decimal float literals)."""
    from vf.model_patterns import same_value, same_kind
    if rel is None:
        rel = CASE.get('rel', 0.0)
    if exc is not None:
        return f'raises-{type(exc).__name__}'
    for a, b in zip(exp, got):
        if not same_value(a, b, rel):
            return 'value'
        if strict and not same_kind(a, b):
            return 'int-float-kind'
    if len(got) < len(exp):
        return 'short'
    if len(got) > len(exp):
        return 'long'
    if exp_ended != got_ended:
        return 'long' if exp_ended else 'short'
    return None


class LeafBroken(Exception):
    pass


def pslide_negative(node):
    """Pslide without wrap whose window position goes below 0 (within the
    first 64 segments)."""
    from vf import model_patterns as mp
    if node[0] != 'Pslide' or node[5]:
        return False
    c = mp.Ctx(5000)
    try:
        ls, ss = mp.stream(node[2], c), mp.stream(node[3], c)
        pos = node[4]
        for _ in mp.counter(min(node[6], 64)):
            n = next(ls)
            if n > 0 and pos < 0:
                return True
            if n > 0 and pos + n - 1 >= len(node[1]):
                return False
            pos += next(ss)
    except (StopIteration, mp.OutOfFuel, mp.OutOfDomain):
        pass
    return False


class Leaves:
    """Seeded runs of random leaves through the real library (opaque values),
    with the reproducibility / range monitor."""

    def __init__(self, acc):
        self.acc = acc
        self.cache = {}
        self.case = None

    def __call__(self, spec, seed):
        from vf import c13_build as cb
        key = repr((spec, seed))
        if key in self.cache:
            return self.cache[key]
        m = cb.mods()
        runs = []
        for _ in range(2):
            pat = m['fp'].Pseed(m['lp'].Pseq([seed], 1), cb.build_rand(spec))
            vals, ended, exc = cb.real_take(pat, 200, 'iter')
            if exc is not None:
                self.acc.violation(
                    f'C13/random-leaf/{spec[0]}/raises-{type(exc).__name__}',
                    {'case': self.case, 'spec': spec, 'seed': seed,
                     'tb': short_tb(exc), 'sites': tb_sites(exc)[-3:]})
                raise LeafBroken()
            runs.append(vals)
        self.acc.count('random_leaf_runs', 2)
        self.acc.count('random_leaf_' + spec[0])
        if runs[0] != runs[1]:
            self.acc.violation(f'C13/random-leaf/{spec[0]}/not-reproducible',
                               {'case': self.case, 'spec': spec, 'seed': seed,
                                'run1': runs[0], 'run2': runs[1]})
        why = cb.rand_leaf_problem(spec, runs[0])
        if why:
            self.acc.violation(f'C13/random-leaf/{spec[0]}/{why}',
                               {'case': self.case, 'spec': spec, 'seed': seed,
                                'values': runs[0]})
        if len(self.cache) > 5000:
            self.cache.clear()
        self.cache[key] = runs[0]
        return runs[0]


def check_node(node, leaves, how='iter', n=N, inval=None):
    """(mismatch kind or None, exp, got, exc) for one expression, standalone."""
    from vf import model_patterns as mp, c13_build as cb
    exp, exp_ended = mp.take(node, n, fuel=20000 * max(1, n // N), leaves=leaves,
                             inval=inval)
    pat = cb.build(node)
    if how == 'all' and not exp_ended:
        how = 'iter'
    if inval is not None and getattr(inval, 'base', inval) is not None:
        how = how if how in ('next', 'embed') else 'next'
    got, got_ended, exc = cb.real_take(pat, n, how, inval)
    return compare(exp, exp_ended, got, got_ended, exc, mp.kind_is_fixed(node),
                   mp.REL if mp.has_decimal(node) else 0.0), exp, got, exc


BLAME_N = 8 * N     # a sub-expression may differ only beyond the first 64 values


def blame(node, leaves, limit=None, inval=None, how='iter'):
    """Smallest sub-expression that mismatches on its own (post-order).  With
    a limit (seconds per node; only used outside any other time_limit) a node
    that does not deliver is blamed with mismatch kind 'hang'."""
    from vf import model_patterns as mp, c13_build as cb
    for sub in mp.subnodes(node):
        b = blame(sub, leaves, limit, inval, how)
        if b is not None:
            return b
    try:
        if limit:
            try:
                with cb.time_limit(limit):
                    kind, exp, got, exc = check_node(node, leaves, how, BLAME_N, inval)
            except cb.RealTimeout:
                exp, _ = mp.take(node, N, leaves=leaves)
                return node, 'hang', exp, [], None
        else:
            kind, exp, got, exc = check_node(node, leaves, how, BLAME_N, inval)
    except (mp.OutOfFuel, mp.OutOfDomain, LeafBroken):
        try:
            kind, exp, got, exc = check_node(node, leaves, how, N, inval)
        except cb.RealTimeout:
            raise
        except Exception:
            return None
    except cb.RealTimeout:
        raise
    except Exception:
        # the model cannot evaluate this sub-expression on its own over the
        # longer prefix (ill-typed beyond the first values): no blame here
        return None
    if kind:
        return node, kind, exp, got, exc
    return None


def run_shard(spec, acc):
    from vf import model_patterns as mp, c13_gen as gen, c13_build as cb
    if spec['shard'].get('kind') == 'threads':
        return run_threads(spec, acc)
    if spec['shard'].get('kind') == 'blue':
        from vf import c13_blue
        return c13_blue.run_blue(spec, acc)
    leaves = Leaves(acc)
    if 'only_case' not in spec:
        pconst_audit(spec, acc, max(60, spec['shard']['n'] // 16))
    for i in iter_cases(spec):
        leaves.case = i
        # -- generate a productive expression -----------------------------
        node = None
        for attempt in range(12):
            rng = case_rng(spec['seed'], 'C13', 'expr', (i, attempt))
            kind, cand = gen.gen_expr(rng)
            # the input value of every pull of this case (None for the
            # drivers that cannot pass one)
            inval = mp.Inval(rng.choice([None, None, 7, 2.5, {'k': 1}]),
                             rng.choice([0, 0, 1, -2]))
            need_gate, has_dicts = gen.needs(cand)
            if need_gate or (has_dicts and not isinstance(inval.base, dict)
                             and (inval.base is not None or rng.random() < 0.5)) \
                    or (isinstance(inval.base, dict) and rng.random() < 0.3):
                # Pgate reads the entry 'g' of an input event; dict items are
                # composed with an input event (or stand alone)
                gate = [rng.choice([True, True, False, False, None])
                        for _ in range(rng.randint(1, 7))]
                inval = mp.Inval({'k': rng.choice([1, 3, -2])}, inval.delta,
                                 gate if rng.random() < 0.85 else None)
            notes = {}
            try:
                exp, exp_ended = mp.take(cand, N, leaves=leaves, inval=inval,
                                         notes=notes)
            except mp.OutOfFuel:
                acc.count('discarded_unproductive')
                continue
            except mp.OutOfDomain as e:
                if 'undecided zone' in str(e):
                    acc.count('discarded_pconst_total_at_undecided_edge')
                else:
                    acc.count('discarded_beyond_32bit')
                continue
            except LeafBroken:
                acc.count('discarded_broken_random_leaf')
                continue
            except cb.RealTimeout:
                acc.count('discarded_leaf_timeout')
                continue
            except Exception as e:      # ill-typed expression: generator's fault
                acc.count('discarded_model_error')
                acc.count('model_error_' + type(e).__name__)
                continue
            node = cand
            break
        if node is None:
            acc.count('cases_without_expression')
            continue
        CASE['inval'], CASE['leaves'] = inval, leaves
        CASE['rel'] = mp.REL if mp.has_decimal(node) else 0.0
        if CASE['rel']:
            acc.count('expressions_with_decimal_literals')
        for k_, v_ in notes.items():
            acc.count(k_, v_)
        for n_ in mp.walk(node):
            if n_[0] == 'Pconst':
                tol_ = n_[3] if len(n_) > 3 else None
                acc.count('pconst_tolerance_' + (
                    'left_out' if tol_ is None else 'int' if type(tol_) is int
                    else 'zero' if tol_ == 0 else 'coarse' if tol_ >= 0.25
                    else 'fine'))
        text = gen.show(node)
        classes = gen.classes(node)
        dep = gen.depth(node)
        nontrivial = dep >= 2 and len(set(c.split(':')[0] for c in classes)) >= 2 \
            and len(exp) >= 2
        acc.case(h64(text), nontrivial=nontrivial)
        for c in set(classes):
            acc.count('class_' + c)
        if any(n_[0] in ('Pseries', 'Pgeom') and mp.OMIT in n_[1:]
               for n_ in mp.walk(node)):
            acc.count('series_with_omitted_arguments')
        acc.count('kind_' + kind)
        acc.maxi('max_depth', dep)
        if not exp_ended:
            acc.count('infinite_expressions')
        if len(exp) == 0:
            acc.count('empty_sequences')

        how = rng.choice(['iter', 'iterstream', 'next', 'embed', 'all']
                         if inval.base is None
                         else ['next', 'embed'] if inval.varies()
                         else ['next', 'embed', 'all', 'all'])
        if how == 'all' and not exp_ended:
            how = 'next'
        acc.count('driver_' + how)
        stage = 'fresh'
        try:
            with cb.time_limit(10):
                pat = cb.build(node)
                snap0 = cb.snapshot(pat)
                if inval.base is not None:
                    acc.count('driven_with_non_None_inval')
                    if inval.varies():
                        acc.count('driven_with_inval_changing_per_pull')
                    if any(n_[0] in ('PfuncnI', 'ProutI', 'PcollectI', 'PlazyI',
                                     'Pwhile', 'Pgate')
                           for n_ in mp.walk(node)) and len(exp) >= 2:
                        acc.count('inval_dependent_sequences_' + how)
                got, got_ended, exc = cb.real_take(pat, N, how, inval)
                strict = mp.kind_is_fixed(node)
                if strict:
                    acc.count('sequences_compared_int_float_strict')
                kind_bad = compare(exp, exp_ended, got, got_ended, exc, strict)
                acc.count('sequences_compared')
                acc.count('values_compared', len(exp))
                if kind_bad:
                    b = blame(node, leaves, inval=inval, how=how)
                    if b is None:
                        # only this driver / only in context
                        bn, bk, bexp, bgot, bexc = node, kind_bad, exp, got, exc
                        ctx = f'/only-via-{how}'
                    else:
                        bn, bk, bexp, bgot, bexc = b
                        ctx = ''
                    key = seq_key(bn, bk, ctx, bgot if bexc is None else None)
                    # (an unseeded random walk agrees or not by chance: no
                    # classification by rebuilding)
                    mech = None if zero_walk(node) else \
                        inval_mechanism(node, exp, exp_ended, how, inval)
                    if zero_walk(node):
                        key = PWALK_ZERO_KEY
                    elif mech:
                        for extra in mech[1:]:
                            acc.violation(extra, {'case': i, 'expression': text,
                                                  'input_values': repr(inval)})
                        key = mech[0]
                    elif bk in ('value', 'long', 'hang'):
                        rc = _resumer_inside(bn, leaves)
                        if rc:
                            key = f'C13/stream-resumes-after-end/{rc}'
                    w = {'case': i, 'expression': text, 'blamed': gen.show(bn),
                         'mismatch': bk, 'model': bexp[:24], 'library': bgot[:24],
                         'driver': how, 'input_values': repr(inval)}
                    if bexc is not None:
                        w['tb'] = short_tb(bexc)
                        w['sites'] = tb_sites(bexc)[-3:]
                    acc.violation(key, w)
                # -- independence of streams --------------------------------
                (o1, o2), (d1, d2), iexc = cb.interleaved(pat, N, rng, inval)
                acc.count('interleaved_pairs_compared')
                if exc is None:
                    bad = None
                    if len(got) >= N:        # Stream.all() of an over-long stream
                        got, got_ended = got[:N], False
                    if iexc is not None:
                        bad = f'raises-{type(iexc).__name__}'
                    else:
                        for o, dn in ((o1, d1), (o2, d2)):
                            k2 = compare(got, got_ended, o, dn, None)
                            if k2:
                                bad = k2
                                break
                    if bad and zero_walk(node):
                        acc.violation(PWALK_ZERO_KEY,
                                      {'case': i, 'expression': text, 'fresh': got[:24],
                                       'stream1': o1[:24], 'stream2': o2[:24]})
                    elif bad and inval.varies() and any(
                            n_[0] == 'ProutI' for n_ in mp.walk(node)):
                        acc.violation('C13/sequence-differs/Prout/'
                                      'embedded-ignores-later-input-values',
                                      {'case': i, 'expression': text,
                                       'input_values': repr(inval), 'driver': how,
                                       'via_' + how: got[:16], 'via_stream': o1[:16]})
                    elif bad:
                        culprit = _indep_blame(node, rng, inval)
                        acc.violation(
                            PWALK_ZERO_KEY if zero_walk(node) else
                            f"C13/streams-not-independent/{culprit or node[0]}/{bad}",
                            {'case': i, 'expression': text, 'fresh': got[:24],
                             'stream1': o1[:24], 'stream2': o2[:24],
                             'tb': short_tb(iexc) if iexc else None})
                # -- an ended stream stays ended until reset() ---------------
                stage = 'after-end'
                if exc is None and exp_ended and not kind_bad and not zero_walk(node):
                    k_more = rng.randint(1, 3)
                    first, post, second, aexc = cb.after_end(
                        pat, N + 2, k_more, midway=rng.randint(1, 5), inval=inval)
                    acc.count('ended_streams_polled_again')
                    if aexc is not None:
                        acc.violation(
                            f'C13/stream-after-end/{node[0]}/raises-{type(aexc).__name__}',
                            {'case': i, 'expression': text, 'tb': short_tb(aexc)})
                    elif post is None and second is not None:
                        acc.violation(
                            f'C13/stream-after-reset-differs/{node[0]}/mid-way',
                            {'case': i, 'expression': text, 'first': first[:24],
                             'after_reset': second[:24]})
                    elif post is not None:
                        if post:
                            acc.violation(
                                f'C13/stream-resumes-after-end/{_resume_blame(node, leaves, k_more) or node[0]}',
                                {'case': i, 'expression': text, 'sequence': first[:24],
                                 'values_after_the_end': post[:24],
                                 'extra_polls': k_more})
                        acc.count('reset_streams_compared')
                        if compare(first, True, second, True, None):
                            acc.violation(
                                f'C13/stream-after-reset-differs/{node[0]}',
                                {'case': i, 'expression': text, 'first': first[:24],
                                 'after_reset': second[:24]})
                # -- immutability -------------------------------------------
                stage = 'snapshot'
                snap1 = cb.snapshot(pat)
                acc.count('snapshots_compared')
                if snap0 != snap1:
                    cls, attr = cb.snapshot_diff(snap0, snap1) or ('?', '?')
                    acc.violation(f'C13/pattern-mutated/{cls}/{attr}',
                                  {'case': i, 'expression': text})
        except cb.RealTimeout:
            if stage == 'after-end':
                # polling an ended stream again did not return: it resumed
                # into an unproductive branch
                # into an unproductive branch - or an operand that is pulled
                # before the exhausted one is unproductive from here on, which
                # is legitimate: only a demonstrated resumption is a verdict
                rc = _resume_blame(node, leaves) or _resumer_inside(node, leaves)
                if rc:
                    acc.violation(f'C13/stream-resumes-after-end/{rc}',
                                  {'case': i, 'expression': text,
                                   'note': 'polling the ended stream again did '
                                           'not return within 10 s'})
                else:
                    acc.count('after_end_poll_unproductive_operand')
                continue
            mech = inval_mechanism(node, exp, exp_ended, how, inval) \
                if stage == 'fresh' and not zero_walk(node) else None
            if mech:
                for key in mech:
                    acc.violation(key, {'case': i, 'expression': text,
                                        'input_values': repr(inval),
                                        'note': 'driver did not return in 10 s'})
                continue
            if zero_walk(node):
                acc.violation(PWALK_ZERO_KEY, {'case': i, 'expression': text,
                                               'note': 'driver did not return in 10 s'})
                continue
            b = blame(node, leaves, limit=3)
            if b is not None:
                # e.g. Stream.all() on a stream that should have ended
                key = seq_key(b[0], b[1], '', b[3] if b[4] is None else None)
                acc.violation(key, {'case': i, 'expression': text,
                                    'blamed': gen.show(b[0]), 'mismatch': b[1],
                                    'model': b[2][:24], 'library': b[3][:24],
                                    'note': f'found after driver {how} did not '
                                            'return in 10 s'})
            else:
                acc.violation(f'C13/hang/{node[0]}',
                              {'case': i, 'expression': text, 'driver': how,
                               'note': 'library did not deliver 64 values in '
                                       '10 s; model did'})
        for (cls, op), n in cb.shadowed.items():
            acc.counters[f'operator_method_hidden_by_attribute_{cls}.{op}'] = n
        if acc.want_sample() and nontrivial and 30 < len(text) < 200:
            acc.sample({'case': i, 'expression': text, 'model_first_values': exp[:12],
                        'ends': exp_ended, 'driver': how})


def pconst_audit(spec, acc, n):
    """Stand-alone Pconst over a planned source, judged step by step with
    pconst_diagnose: also the inputs the denotational comparison discards
    (totals exactly one tolerance below the sum, sums off the tolerance grid)
    are held to what every reading demands - values handed on unchanged, a
    total that has reached the sum ends the pattern, a total farther away than
    the tolerance does not, the last value is the remainder."""
    import random
    import time
    from vf import model_patterns as mp, c13_gen as gen, c13_build as cb
    t_end = time.monotonic() + min(30, spec['shard'].get('secs', 45) / 10)
    for j in range(n):
        if time.monotonic() > t_end:
            break
        rng = case_rng(spec['seed'], 'C13', 'pconst-audit',
                       (spec['shard']['first_case'], j))
        top = gen.Gen(rng).pconst_edge()
        # (a constrained sum inside the source is judged first: the outer one
        # is only judged over a source that is what the model says)
        inner = [n_ for n_ in mp.walk(top[1]) if n_[0] == 'Pconst']
        for node in inner + [top]:
            if _audit_one(node, j, rng, spec, acc):
                break


def _audit_one(node, j, rng, spec, acc):
    """True when this Pconst is wrong or cannot be judged (stop going outwards)"""
    from vf import model_patterns as mp, c13_gen as gen, c13_build as cb
    tol = node[3] if len(node) > 3 else mp.DEFAULT_TOLERANCE
    try:
        src, src_ended = mp.take(node[1], 400, fuel=100000)
    except (mp.OutOfFuel, mp.OutOfDomain):
        acc.count('pconst_audit_source_undecided')
        return True
    how = rng.choice(['iter', 'next', 'embed'])
    try:
        with cb.time_limit(5):
            # is the source what the model says?  If not that is another
            # class's matter (the expression shards name it)
            sgot, sended, sexc = cb.real_take(cb.build(node[1]), 400, how)
            if compare(src, src_ended, sgot, sended, sexc, False,
                       mp.REL if mp.has_decimal(node[1]) else 0.0):
                acc.count('pconst_audit_source_differs_from_model')
                return True
            got, ended, exc = cb.real_take(cb.build(node), 400, how)
    except cb.RealTimeout:
        acc.violation('C13/hang/Pconst', {'audit': j, 'expression': gen.show(node)})
        return True
    acc.count('pconst_audits')
    w = {'audit': [spec['shard']['first_case'], j], 'expression': gen.show(node),
         'source_values': src[:24], 'library': got[:24], 'driver': how}
    if exc is not None:
        acc.violation(f'C13/sequence-differs/Pconst/raises-{type(exc).__name__}',
                      dict(w, tb=short_tb(exc)))
        return True
    # (not ended after 400 values - a long sum of small values: the prefix is
    # judged all the same: a total that has reached the sum is a violation)
    d = pconst_diagnose(src, src_ended, node[2], tol, got, ended,
                        mp.REL if mp.has_decimal(node) else 0.0)
    # the zone of the total at which the library ended
    acc_ = 0
    for v in src[:len(got) - 1]:
        acc_ = acc_ + v
    if not got or not ended:
        acc.count('pconst_audit_not_ended_in_400_values')
    elif len(got) <= len(src):
        z = mp.pconst_zone(acc_ + src[len(got) - 1], node[2], tol)
        acc.count('pconst_audit_ended_at_' + z)
    else:
        acc.count('pconst_audit_ended_with_the_source')
    if d:
        acc.violation(f'C13/sequence-differs/Pconst/{d}', w)
    return bool(d)


RESUME_POLLS = 80


def _resume_blame(node, leaves, k=RESUME_POLLS):
    """Smallest sub-expression whose own stream gives values again after it
    has ended (post-order; only sub-expressions that end)."""
    from vf import model_patterns as mp, c13_build as cb
    for sub in mp.subnodes(node):
        try:
            exp, ended = mp.take(sub, N, leaves=leaves)
        except Exception:
            continue
        if not ended:
            continue
        c = _resume_blame(sub, leaves, k)
        if c:
            return c
    try:
        with cb.time_limit(2):
            first, post, second, exc = cb.after_end(cb.build(node), N + 2, k,
                                                    inval=CASE['inval'])
        if post:
            return node[0]
    except (cb.RealTimeout, Exception):
        pass
    return None


def _resumer_inside(node, leaves):
    """Class of a finite sub-expression of node (not node itself) whose stream
    resumes after its end - patterns that poll their children again (Placep,
    operator streams) inherit that child's defect."""
    from vf import model_patterns as mp
    for sub in mp.subnodes(node):
        try:
            exp, ended = mp.take(sub, N, leaves=leaves)
        except Exception:
            continue
        if ended:
            c = _resume_blame(sub, leaves)
            if c:
                return c
        else:
            c = _resumer_inside(sub, leaves)
            if c:
                return c
    return None


def _indep_blame(node, rng, inval=None):
    """Smallest sub-expression whose own two interleaved streams differ."""
    from vf import model_patterns as mp, c13_build as cb
    for sub in mp.subnodes(node):
        c = _indep_blame(sub, rng, inval)
        if c:
            return c
    try:
        pat = cb.build(node)
        fresh, ended, exc = cb.real_take(pat, N, 'next', inval)
        if exc is not None:
            return None         # cannot run on its own (e.g. needs other input)
        (o1, o2), (d1, d2), iexc = cb.interleaved(pat, N, rng, inval)
        if iexc is not None or compare(fresh, ended, o1, d1, None) \
                or compare(fresh, ended, o2, d2, None):
            return node[0]
    except Exception:
        return node[0]
    return None


# ---------------------------------------------------------------------------
# seeded streams consumed by several OS threads, each thread its OWN stream:
# every stream must give the sequence its definition gives single-threaded
# (reference runs before and after, same process) and, for generated
# expressions, the model's sequence.

def _seeded_definition(rng, gen, leaves):
    """(description, factory of a fresh stream-like with .next(), model or None)"""
    from vf import model_patterns as mp, c13_build as cb
    m = cb.mods()
    lp, fp, vp, bi, stm = m['lp'], m['fp'], m['vp'], m['bi'], m['stm']
    form = rng.choice(['expr', 'raw', 'raw', 'routine'])
    if form == 'expr':
        for attempt in range(30):
            kind, cand = gen.gen_expr(rng)
            if not any(n[0] == 'Pseed' for n in mp.walk(cand)) or zero_walk(cand):
                continue        # (steps=0: an unseeded random walk, see PWALK_ZERO_KEY)
            try:
                exp, ended = mp.take(cand, N, leaves=leaves)
            except (mp.OutOfFuel, mp.OutOfDomain, LeafBroken, Exception):
                continue
            if len(exp) < 4:
                continue
            return ('expr ' + gen.show(cand), lambda: m['stm'].stream(cb.build(cand)),
                    N, (exp, ended, cand))
        form = 'raw'
    seed = rng.randrange(10 ** 6)
    L = rng.choice([40, 120, 300])
    if form == 'routine':
        which = rng.choice(['rrand', 'rand', 'choice'])

        def factory():
            def body():
                for _ in range(L):
                    if which == 'rrand':
                        yield bi.rrand(0, 10 ** 6)
                    elif which == 'rand':
                        yield bi.rand(1.0)
                    else:
                        yield bi.choice([1, 2, 3, 5, 8, 13, 21])
            r = stm.Routine(body)
            r.rand_seed = seed
            return r
        return (f'Routine(rand_seed={seed}) yielding bi.{which} x{L}', factory,
                L + 1, None)
    shape = rng.choice(['white', 'whitef', 'rand', 'xrand', 'brown', 'sum', 'seqmix',
                        'stutter', 'reseeded'])

    def body():
        if shape == 'white':
            return vp.Pwhite(0, 10 ** 6, L)
        if shape == 'whitef':
            return vp.Pwhite(0.0, 1.0, L)
        if shape == 'rand':
            return lp.Prand([1, 2, 3, 5, 8, 13, 21, 34], L)
        if shape == 'xrand':
            return lp.Pxrand([1, 2, 3, 5, 8, 13], L)
        if shape == 'brown':
            return vp.Pbrown(0.0, 100.0, 1.0, L)
        if shape == 'sum':
            return vp.Pwhite(0, 1000, L) + vp.Pwhite(0, 10 ** 6, L)
        if shape == 'seqmix':
            return lp.Pseq([vp.Pwhite(0, 10 ** 6, 3), lp.Prand([1, 2, 3, 4, 5], 2),
                            7], L // 6 + 1)
        if shape == 'stutter':
            return fp.Pstutter(vp.Pwhite(0, 10 ** 6, L // 2), 2)
        return vp.Pwhite(0, 10 ** 6, 5)

    def factory():
        if shape == 'reseeded':
            # a constant seed re-embeds the pattern forever: bounded by Plen
            return stm.stream(fp.Plen(fp.Pseed(seed, body()), L))
        return stm.stream(fp.Pseed(lp.Pseq([seed], 1), body()))
    return f'Pseed({seed}) over {shape} x{L}', factory, L + 8, None


def _pull(s, n):
    from vf import c13_build as cb
    StopStream = cb.mods()['stm'].StopStream
    out = []
    try:
        for _ in range(n):
            try:
                out.append(s.next(None))
            except StopStream:
                break
    except cb.RealTimeout:
        raise
    except Exception as e:
        out.append(f'raised {type(e).__name__}: {e}'[:120])
    return out


def run_threads(spec, acc):
    import sys
    import threading
    from vf import model_patterns as mp, c13_gen as gen, c13_build as cb, inject
    m = cb.mods()
    from sc3.seq import eventstream as est
    from sc3.base import main as mainmod
    leaves = Leaves(acc)
    codes = [inject.func_code(m['stm'].Routine.next),
             inject.func_code(est.PatternValueStream.next),
             inject.func_code(m['fp'].Pseed.__embed__),
             inject.func_code(m['vp'].Pwhite.__embed__),
             inject.func_code(m['lp'].Prand.__embed__)]
    inj = inject.Injector(codes, seed=spec['seed'])
    inj.max_sleep = 0.0002
    inj.start()
    old_si = sys.getswitchinterval()
    try:
        for i in iter_cases(spec):
            leaves.case = i
            rng = case_rng(spec['seed'], 'C13', 'threads', i)
            nth = rng.randint(2, 4)
            defs = [_seeded_definition(rng, gen, leaves) for _ in range(nth)]
            # (single-threaded reference runs are bounded: a library that makes
            # a productive definition unproductive must not stall the shard)
            try:
                with cb.time_limit(30):
                    before = [_pull(f(), n) for _, f, n, _ in defs]
            except cb.RealTimeout:
                acc.violation('C13/seeded-stream-differs/single-threaded-run-hangs',
                              {'case': i, 'definitions': [d[0] for d in defs],
                               'note': 'no values within 30 s; the model is productive'})
                continue
            streams = [f() for _, f, _, _ in defs]
            got = [None] * nth
            barrier = threading.Barrier(nth)

            def work(k):
                try:
                    barrier.wait(10)
                except threading.BrokenBarrierError:
                    pass
                got[k] = _pull(streams[k], defs[k][2])
            ths = [threading.Thread(target=work, args=(k,), daemon=True)
                   for k in range(nth)]
            inj.p_yield = 0.04
            sys.setswitchinterval(5e-5)
            try:
                for t in ths:
                    t.start()
                for t in ths:
                    t.join(60)
            finally:
                inj.p_yield = 0.0
                sys.setswitchinterval(old_si)
            if any(t.is_alive() for t in ths):
                acc.violation('C13/seeded-stream-differs/concurrent-consumers-hang',
                              {'case': i, 'definitions': [d[0] for d in defs]})
                # the stuck threads may hold library state: stop this shard
                break
            try:
                with cb.time_limit(30):
                    after = [_pull(f(), n) for _, f, n, _ in defs]
            except cb.RealTimeout:
                acc.violation('C13/seeded-stream-differs/single-threaded-run-hangs',
                              {'case': i, 'definitions': [d[0] for d in defs],
                               'note': 'second reference run: no values within 30 s'})
                continue
            acc.count(f'concurrent_consumers_{nth}')
            for k, (text, f, n, model) in enumerate(defs):
                acc.count('concurrent_seeded_streams_compared')
                acc.count('concurrent_seeded_values_compared', len(before[k]))
                acc.count('seeded_form_' + text.split()[0].split('(')[0])
                w = {'case': i, 'threads': nth, 'stream': k, 'definition': text,
                     'single_threaded': before[k][:16], 'concurrent': (got[k] or [])[:16]}
                if before[k] != after[k]:
                    acc.violation('C13/seeded-stream-differs/'
                                  'single-threaded-runs-differ',
                                  dict(w, after=after[k][:16]))
                elif got[k] != before[k]:
                    first = next((j for j, (x, y) in enumerate(zip(got[k], before[k]))
                                  if not mp.same_value(x, y)),
                                 min(len(got[k]), len(before[k])))
                    acc.violation('C13/seeded-stream-differs/concurrent-consumers',
                                  dict(w, first_difference_at=first,
                                       lengths=[len(before[k]), len(got[k])]))
                if model is not None:
                    exp, ended, cand = model
                    acc.count('concurrent_streams_compared_with_model')
                    bad = compare(exp, ended, before[k][:len(exp)] if not ended
                                  else before[k], ended, None)
                    if bad:
                        CASE['inval'], CASE['leaves'] = None, leaves
                        mech = inval_mechanism(cand, exp, ended, 'next', None)
                        b = None if mech else blame(cand, leaves)
                        key = mech[0] if mech else seq_key(b[0], b[1], '', b[3]) if b \
                            else 'C13/seeded-stream-differs/model-' + bad
                        acc.violation(key, dict(w, model=exp[:16]))
            # the main time thread must be current again
            if mainmod.main.current_tt is not mainmod.main.main_tt:
                acc.violation('C13/seeded-stream-differs/current-thread-not-restored',
                              {'case': i, 'definitions': [d[0] for d in defs]})
                mainmod.main.current_tt = mainmod.main.main_tt
            acc.case(h64([d[0] for d in defs]), nontrivial=True)
            if acc.want_sample():
                acc.sample({'case': i, 'threads': nth,
                            'definitions': [d[0][:160] for d in defs],
                            'values_per_stream': [len(b) for b in before]})
    finally:
        sys.setswitchinterval(old_si)
        acc.counters['injected_yields'] = inj.injected
        inj.stop()
