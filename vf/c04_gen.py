"""C04 generator: random graph-function signatures as plain data plus python
source text (no sc3 import).  Program format: see vf/model_controls.py.

A signature is also WHICH numbers and WHICH identifiers: default / variant
values are drawn from NUMS and, 14 % of the time, from EDGE_VALUES (the edges
of a float32 slot); parameter names are p<k> or come from the hostile pool
NAME_CLASSES (see draw_value, value_class, name_class, with_neutral_names)."""

NUMS = [0.0, 1.0, 0.5, 0.1, 0.25, 2.0, 3, 7, 10, 100, 440.0, 880, -1.0, -0.3,
        0.001, 1e-6, 12345.678, 60, 0.7071, 1, 0, 0.02, 5.5, 16000.0]
LAGS = [0.1, 0.2, 0.5, 0.02, 1.0, 2, 0.05, 3.5]

# -- default VALUES at the edges of what a control slot (an IEEE float32) can
# hold.  Every one of them is a legal python number default; the slot must
# hold the float32 nearest to it (sign of zero included).  Numbers beyond the
# float32 range (1e39, 2**200: no nearest float32, the writer refuses them)
# are outside the domain.
INF, NAN = float('inf'), float('nan')
FLT_MAX = 3.4028234663852886e+38
EDGE_VALUES = [
    INF, -INF, INF, -INF, INF, -INF,            # endless / unbounded
    -0.0, -0.0, -0.0,
    FLT_MAX, -FLT_MAX, 1e38, -2.5e38, 2 ** 127, -2 ** 127, 2 ** 100,
    1.1754943508222875e-38,                      # smallest normal float32
    1e-45, 1.7e-39, -3e-42,                      # float32 denormals
    1e-46, 5e-324, -5e-324, -1e-60,              # round to (signed) zero
    2 ** 24 + 1, float(2 ** 24 + 1), 2 ** 24 + 3, -(2 ** 24) - 1,
    2 ** 31 - 1, 2 ** 31, -2 ** 31 - 1, 2 ** 53 + 1, 2 ** 63, 2 ** 64 - 1,
    0.1 + 0.2, 1 / 3, 1.0000000596046448, 1.00000006, 0.30000001192092896,
    1e-7, 123456789.125, 0.1, -0.1,
]
SPEC_DEFAULTS = [0.3, 7, 9.5, 0.01, 220.0]
EDGE_SPEC_DEFAULTS = [INF, -INF, -0.0, 2 ** 24 + 1, 1e-45, 1 / 3]


def is_nan(v):
    return isinstance(v, float) and v != v


def draw_value(rng, p_edge=0.14, allow_nan=True, allow_bool=False):
    """a default / variant value: an ordinary number or, with p_edge, one at
    the edges of a float32 slot (rarely NaN, see vf/model_controls.py)"""
    if rng.random() >= p_edge:
        return rng.choice(NUMS)
    r = rng.random()
    if allow_nan and r < 0.04:
        return NAN
    if allow_bool and r < 0.12:
        return rng.random() < 0.5
    return rng.choice(EDGE_VALUES)


def value_class(v):
    """class of a declared value (evidence counters / mechanism keys); None
    for an ordinary number"""
    if isinstance(v, bool):
        return 'bool'
    if is_nan(v):
        return 'nan'
    if isinstance(v, float) and v in (INF, -INF):
        return 'infinity'
    if isinstance(v, float) and v == 0 and str(v).startswith('-'):
        return 'negative-zero'
    if isinstance(v, int) and abs(v) > 2 ** 24:
        return 'int-beyond-2^24'
    if abs(v) >= 1e30:
        return 'huge'
    if 0 < abs(v) < 1e-30:
        return 'tiny'
    return None


# -- parameter NAMES from a hostile pool.  A name is only ever a name: it
# never says anything about rate, lag, order or value.
NAMES_SCLANG_PREFIX = [
    'a_in', 'a_gain', 'a_mix', 'a_', 'a_0', 'i_max', 'i_freq', 'i_', 'i_0',
    't_end', 't_start', 't_trig', 't_fade', 't_', 't_0', 'k_val', 'k_', 'k_0',
    'a__x', 'i__', 't_t_', 'a_i_t_']
NAMES_NEAR_PREFIX = [
    'a', 'i', 't', 'k', '_a_x', '_i_x', '_t_x', 'A_x', 'I_x', 'T_x', 'K_x',
    'ai_', 'it_x', 'ta_x', 'ar_in', 'kr_lag', 'ir_x', 'tr_x', 'ar_', 'tr_',
    'x_ar', 'x_kr', 'x_ir', 'x_tr', 'x_a', 'x_i', 'x_t', 'lag_x', 'x_lag',
    'a1', 'i2', 't3']
NAMES_RATE = [
    'ar', 'kr', 'ir', 'tr', 'AR', 'Kr', 'iR', 'TR', 'dr', 'audio', 'control',
    'scalar', 'trigger', 'demand', 'noncontrol', 'rate', 'lag', 'lags']
NAMES_LIBRARY = [
    'name', 'func', 'rates', 'prepend', 'variants', 'metadata', 'specs',
    'index', 'default_value', 'arg_num', 'values', 'default', 'spec',
    'target', 'add_action', 'register', 'self', 'cls', 'args', 'kwargs',
    'wrap', 'add', 'send', 'synthdef', 'SynthDef', 'Control', 'ControlName',
    'LagControl', 'out', 'gate', 'trig', 'bus', 'doneAction', 'freq', 'amp',
    'pan', 'dur', 'sustain', 'instrument', 'main', 'server', 'result',
    '_controls', '_control_names', '_control_index', '_all_control_names',
    '_callable_args', '_name', '_func', '_special_index', '_inputs',
    '_synthdef', '_rate', '_metadata', '_variants', '_children',
    'len', 'list', 'tuple', 'type', 'id', 'int', 'float', 'input', 'sum',
    'max', 'min', 'print', 'zip', 'iter', 'inspect', 'utl', 'iou', 'ugn',
    'isinstance', 'enumerate', 'range', 'getattr', 'match', 'case']
NAMES_DUNDER = [
    '__init__', '__name__', '__class__', '__dict__', '__call__', '__doc__',
    '__slots__', '__len__', '__x', '__x__', '_', '__', '___', '_0', 'x__',
    '__a_', '_i_', '__t_x']
NAMES_CASE = [
    'freq', 'Freq', 'FREQ', 'fReq', 'amp', 'Amp', 'AMP', 'x', 'X', 'out',
    'Out', 'OUT', 'a_in', 'A_IN', 'A_in', 't_end', 'T_END', 'i_max', 'I_MAX']
NAMES_LONG = [
    'n' * 255, 'L' * 254 + 'x', 'a_' + 'y' * 200, 'long_' * 40,
    't_' + 'z' * 253, 'q' * 128, 'i_' + 'w' * 100, 'v' * 254, 'V' * 255]
NAMES_ORDER = [
    'l', 'O', 'I', 'lI1', 'O0', 'x1', 'x01', 'x10', 'x2',
    'p01', 'z', 'Z', 'aa', 'zz', 'b', 'c', 'B', '_z', 'z_']
# (identifiers that NFKC-normalise to themselves)
NAMES_UNICODE = ['größe', 'π', 'freq_ñ', 'частота', 'İ_x', 't_é', 'a_ü']
NAME_CLASSES = [
    ('sclang-prefix', NAMES_SCLANG_PREFIX, 30), ('near-prefix', NAMES_NEAR_PREFIX, 12),
    ('rate-name', NAMES_RATE, 12), ('library-attribute', NAMES_LIBRARY, 16),
    ('dunder-like', NAMES_DUNDER, 8), ('case-variant', NAMES_CASE, 10),
    ('very-long', NAMES_LONG, 5), ('order-confusing', NAMES_ORDER, 7)]
# not usable: python keywords, __debug__, and what the generated bodies need
NAMES_EXCLUDED = {'locals', '__body__', '__debug__', 'None', 'True', 'False'}
# SynthDef.__call__(self, *args, target, add_action, register, **kwargs):
# controls with these names can only be set positionally
CALL_RESERVED = {'self', 'target', 'add_action', 'register'}


def name_class(nm):
    """first class of the pool that lists the name; a prefix a_ i_ t_ k_
    decides for names built from the pool (suffix against collisions)"""
    if not nm.isascii():
        return 'unicode'
    if len(nm) >= 100:
        return 'very-long'
    if nm[:2] in ('a_', 'i_', 't_', 'k_'):
        return 'sclang-prefix'
    for cls, pool, _ in NAME_CLASSES:
        if nm in pool:
            return cls
    return None


def gen_program(rng, idx, plain=False, prepend_p=(0.15, 0.35), naming=None):
    """plain: no 'special' feature (programs of a session, see gen_session)
    naming: {'p': share of hostile names, 'plan': {k: name}} of a session -
    its programs give their k-th parameter the same name (as with p<k>), so
    that shared variants / metadata dicts find common names"""
    size_class = rng.choices(['small', 'medium', 'large'], [30, 45, 25])[0]
    total = {'small': rng.randint(0, 4), 'medium': rng.randint(5, 12),
             'large': rng.randint(13, 40)}[size_class]
    nfuncs = 1
    if rng.random() < 0.4:
        nfuncs += rng.choice([1, 1, 2, 3])
    # distribute parameters
    counts = [0] * nfuncs
    for _ in range(total):
        counts[rng.randrange(nfuncs) if rng.random() < 0.6 else 0] += 1
    funcs, names = {}, []
    pcounter = [0]
    # hostile naming: 45 % of the programs (30 % of the sessions) draw 50-100 %
    # of their parameter names from the hostile pool
    hostile = rng.random() < 0.45
    p_hostile = rng.choice([0.5, 0.8, 1.0]) if hostile else 0.0
    unicode_names = hostile and not plain and rng.random() < 0.03
    plan = None
    if naming is not None:
        p_hostile, plan = naming['p'], naming['plan']
        hostile = p_hostile > 0
    used_names = set()

    def new_name():
        k = pcounter[0]
        nm = f'p{k}'
        pcounter[0] += 1
        while nm in used_names:         # the pool has p01 ...
            nm += '_'
        if plan is not None and k in plan:
            if plan[k] not in used_names:
                nm = plan[k]
            used_names.add(nm)
            return nm
        nm = draw_name(nm)
        if plan is not None:
            plan[k] = nm
        used_names.add(nm)
        return nm

    def draw_name(nm):
        if rng.random() < p_hostile:
            if unicode_names and rng.random() < 0.3:
                pool = NAMES_UNICODE
            else:
                pool = rng.choices([c[1] for c in NAME_CLASSES],
                                   [c[2] for c in NAME_CLASSES])[0]
            cand = rng.choice(pool)
            if cand in used_names and len(cand) < 200:
                cand += rng.choice(['_', '0', 'x', 'X', '_1'])
            if cand not in used_names and cand not in NAMES_EXCLUDED and (
                    plan is None or cand not in plan.values()):
                nm = cand
        return nm

    def new_param(prepended, allow_missing):
        nm = new_name()
        if prepended:
            d = ('missing',) if allow_missing and rng.random() < 0.6 \
                else ('num', draw_value(rng))
            return {'name': nm, 'annot': None, 'default': d}
        annot = rng.choices([None, 'kr', 'ir', 'tr', 'ar'],
                            [52, 10, 13, 11, 14])[0]
        r = rng.random()
        if allow_missing and r < 0.15:
            d = ('missing',)
        elif r < 0.25:
            d = ('none',)
        elif r < 0.28:
            d = ('bool', rng.random() < 0.5)
        elif r < 0.30:
            d = ('invalid', rng.choice(["'x'", '[1, 2]', "{'a': 1}", 'len']))
        elif r < 0.72:
            d = ('num', draw_value(rng) if rng.random() < 0.8
                 else round(rng.uniform(-1000, 1000), 3))
        else:
            n = rng.choice([1, 2, 2, 3, 3, 4, 5])
            if rng.random() < 0.06:
                n = rng.randint(17, 21)        # LagControl chunking
            d = ('tuple', [draw_value(rng, allow_bool=True)
                           for _ in range(n)])
        return {'name': nm, 'annot': annot, 'default': d}

    for k in range(nfuncs):
        fname = f'g{k}'
        prepend = 0
        if rng.random() < (prepend_p[0] if k == 0 else prepend_p[1]):
            prepend = rng.choice([1, 1, 2])
        params = []
        allow_missing = True
        for j in range(prepend + counts[k]):
            p = new_param(j < prepend, allow_missing)
            if p['default'][0] != 'missing':
                allow_missing = False
            params.append(p)
        nctl = counts[k]
        rates = None
        if rng.random() < 0.6 and (nctl or rng.random() < 0.3):
            ln = rng.choice([nctl, nctl, max(0, nctl - rng.randint(1, 3)),
                             nctl + rng.randint(1, 2), rng.randint(0, nctl)])
            rates = []
            for j in range(ln):
                p = params[prepend + j] if j < nctl else None
                r = rng.random()
                if r < 0.32:
                    e = None
                elif r < 0.58:
                    e = rng.choice(LAGS + [0, 0.0])
                elif r < 0.82:
                    e = rng.choice(['ar', 'kr', 'ir', 'tr'])
                elif p is not None and p['default'][0] == 'tuple' and \
                        len(p['default'][1]) >= 2:
                    size = len(p['default'][1])
                    m = rng.choice([1, 2, size, size, size + 1])
                    e = [rng.choice(LAGS + [0.0]) for _ in range(m)]
                else:
                    e = rng.choice(LAGS)
                rates.append(e)
        funcs[fname] = {'name': fname, 'params': params, 'prepend': prepend,
                        'rates': rates, 'wraps': [], 'prepend_values': None}
    # wrap tree: every function but the first is wrapped by an earlier one
    for k in range(1, nfuncs):
        parent = f'g{rng.randrange(0, k)}'
        funcs[parent]['wraps'].append(f'g{k}')
    # prepend values
    tagc = [0]
    for k in range(nfuncs):
        f = funcs[f'g{k}']
        vals = []
        for _ in range(f['prepend']):
            tagc[0] += 1
            if k == 0:
                vals.append(('num', 7000.5 + tagc[0]) if rng.random() < 0.7
                            else ('str', f's{tagc[0]}'))
            else:
                parent = next(g for g in funcs.values() if f['name'] in g['wraps'])
                pnames = [p['name'] for p in parent['params']]
                r = rng.random()
                if r < 0.4 and pnames:
                    vals.append(('parent', rng.choice(pnames)))
                elif r < 0.7:
                    vals.append(('fresh',))
                else:
                    vals.append(('num', 7000.5 + tagc[0]))
        f['prepend_values'] = vals
    if rng.random() < 0.3:
        add_repeated_names(rng, funcs, new_param)
    # at most one 'special' feature per program (each is decided against a
    # variant of the program without it)
    special = rng.choices([None, 'fw', 'empty', 'slag', 'fb'],
                          [50, 20, 4, 8, 18])[0]
    if plain:
        special = None
    if special == 'fw':
        add_failing_wraps(rng, funcs, new_param)
    elif special == 'fb':
        add_failing_bodies(rng, funcs, new_param)
    elif special in ('empty', 'slag'):
        if not add_odd_parameter(rng, funcs, special):
            special = None
    prog = {'name': f'd{idx % 100000}', 'funcs': funcs, 'top': 'g0',
            'specs': {}, 'variants': {}, 'special': special}
    if hostile:
        prog['hostile_names'] = True
    live = [f for f in funcs.values() if not f.get('fails')]
    ctl_names = [p['name'] for f in live for p in f['params'][f['prepend']:]]
    by_name = {p['name']: p for f in live for p in f['params']}
    # variants (and the forced spec) only address names declared once, and
    # none declared below a wrap call whose exception is handled
    import vf.model_controls as MC
    shaky = MC.failed_subtree(prog) if special == 'fb' else set()
    shaky_names = {p['name'] for n in shaky for p in funcs[n]['params']}
    uniq = [n for n in ctl_names if ctl_names.count(n) == 1
            and by_name[n]['default'] != ('tuple', [])
            and n not in shaky_names]
    if ctl_names and rng.random() < 0.35:
        for nm in rng.sample(ctl_names, rng.randint(1, min(4, len(ctl_names)))):
            prog['specs'][nm] = rng.choice(SPEC_DEFAULTS) \
                if rng.random() < 0.85 else rng.choice(EDGE_SPEC_DEFAULTS)
        # make sure a spec default is sometimes actually used
        unset = [n for n in uniq
                 if by_name[n]['default'][0] in ('missing', 'none')]
        if unset:
            prog['specs'][rng.choice(unset)] = rng.choice([0.3, 7, 9.5])
    if uniq and rng.random() < 0.4:
        for v in range(rng.randint(1, 3)):
            pairs = {}
            for nm in rng.sample(uniq, rng.randint(1, min(4, len(uniq)))):
                d = by_name[nm]['default']
                if d[0] == 'tuple' and rng.random() < 0.7:
                    m = rng.randint(1, len(d[1]))
                    pairs[nm] = [draw_value(rng, allow_nan=False)
                                 for _ in range(m)]
                else:
                    pairs[nm] = draw_value(rng, allow_nan=False)
            prog['variants'][f'v{v}'] = pairs
    # call
    top = funcs['g0']
    top_ctl = [p['name'] for p in top['params'][top['prepend']:]]
    npos = rng.randint(0, min(6, len(top_ctl))) if rng.random() < 0.8 else 0
    pos = [1000.25 + k for k in range(npos)]

    def maybe_array(nm, v):
        # array controls are sometimes set with a list of values
        d = by_name[nm]['default'] if nm in by_name else ('num', 0)
        if d[0] == 'tuple' and len(d[1]) >= 1 and rng.random() < 0.5:
            return [v + 0.5 * j for j in range(rng.randint(1, len(d[1])))]
        return v
    pos = [maybe_array(top_ctl[k], v) for k, v in enumerate(pos)]
    rest = sorted({n for n in ctl_names if n not in top_ctl[:npos]
                   and n not in CALL_RESERVED}, key=ctl_names.index)
    kw = {}
    if rest and rng.random() < 0.7:
        for nm in rng.sample(rest, rng.randint(1, min(4, len(rest)))):
            kw[nm] = maybe_array(nm, 2000.25 + 10 * len(kw))
    prog['call'] = {'positional': pos, 'keywords': kw}
    return prog


def _prepend_values(rng, host, n, tag):
    out = []
    for j in range(n):
        pn = [p['name'] for p in host['params']]
        r = rng.random()
        if r < 0.4 and pn:
            out.append(('parent', rng.choice(pn)))
        elif r < 0.7:
            out.append(('fresh',))
        else:
            out.append(('num', 7500.5 + tag + j))
    return out


def add_repeated_names(rng, funcs, new_param):
    """control names declared more than once in one definition:
    * the same helper function wrapped again (1-2 more times: 'voices'),
      each time with its own rates / prepend values;
    * a new helper some of whose parameters are named like parameters of the
      function that wraps it, of the top function or of another helper."""
    import copy
    base = list(funcs.values())
    mode = rng.choice(['again', 'again', 'shared', 'both'])
    if mode in ('again', 'both'):
        helpers = [f for f in base if f['name'] != 'g0']
        if not helpers:
            k = len(funcs)
            h = {'name': f'g{k}', 'prepend': 0, 'rates': None, 'wraps': [],
                 'params': [new_param(False, False)
                            for _ in range(rng.choice([1, 2, 3]))],
                 'prepend_values': []}
            funcs[h['name']] = h
            funcs['g0']['wraps'].append(h['name'])
            helpers = [h]
        h = rng.choice(helpers)
        nctl = len(h['params']) - h['prepend']
        for _ in range(rng.choice([1, 1, 2])):
            k = len(funcs)
            host = rng.choice([f for f in funcs.values()
                               if 'alias_of' not in f])
            rates = h['rates']
            if rng.random() < 0.5:
                rates = None if rng.random() < 0.4 else [
                    rng.choice([None, 0.2, 0.5, 'ir', 'kr', 'tr', 'ar'])
                    for _ in range(rng.randint(0, nctl))]
            funcs[f'g{k}'] = {
                'name': f'g{k}', 'alias_of': h.get('alias_of', h['name']),
                'params': copy.deepcopy(h['params']), 'prepend': h['prepend'],
                'rates': rates, 'wraps': [],
                'prepend_values': _prepend_values(rng, host, h['prepend'], k)}
            host['wraps'].insert(rng.randint(0, len(host['wraps'])), f'g{k}')
    if mode in ('shared', 'both'):
        k = len(funcs)
        host = rng.choice([f for f in funcs.values() if 'alias_of' not in f])
        pool = [p for f in (host, funcs['g0'], rng.choice(base))
                for p in f['params'][f['prepend']:]]
        params, used = [], set()
        for _ in range(rng.choice([1, 2, 2, 3, 4])):
            p = new_param(False, False)
            if pool and rng.random() < 0.6:
                nm = rng.choice(pool)['name']
                if nm not in used:
                    p['name'] = nm
            used.add(p['name'])
            params.append(p)
        rates = None if rng.random() < 0.5 else [
            rng.choice([None, 0.1, 'ir', 'tr', 'ar', 'kr'])
            for _ in range(rng.randint(0, len(params)))]
        funcs[f'g{k}'] = {'name': f'g{k}', 'params': params, 'prepend': 0,
                          'rates': rates, 'wraps': [], 'prepend_values': []}
        host['wraps'].insert(rng.randint(0, len(host['wraps'])), f'g{k}')


INVALID_ANNOTATIONS = ['float', 'int', '1', "'krr'", "'a'", "'KR'", "'rate'",
                       'str', '2.5', "'tr '"]


def add_failing_wraps(rng, funcs, new_param):
    """'recovered failing wrap': a helper with k >= 0 valid parameters, then
    one with an invalid rate annotation, then 0-2 more valid ones.  The
    calling graph function catches the ValueError of SynthDef.wrap and then
    wraps a fallback helper (same parameter names / other names) or nothing."""
    import copy
    hosts = [f['name'] for f in funcs.values()]
    for _ in range(rng.choice([1, 1, 1, 2])):
        k = len(funcs)
        fname = f'g{k}'
        prepend = 1 if rng.random() < 0.2 else 0
        params = [new_param(True, False) for _ in range(prepend)]
        nvalid = rng.choice([0, 1, 1, 2, 2, 3])
        params += [new_param(False, False) for _ in range(nvalid)]
        bad = new_param(False, False)
        bad['annot'] = None
        bad['annot_src'] = rng.choice(INVALID_ANNOTATIONS)
        if bad['default'][0] == 'none':
            bad['default'] = ('num', 0.5)
        params.append(bad)
        params += [new_param(False, False) for _ in range(rng.choice([0, 0, 1, 2]))]
        nctl = len(params) - prepend
        rates = None
        if rng.random() < 0.4:
            rates = [rng.choice([None, 0.1, 'ir', 'kr', 0.5, 'tr'])
                     for _ in range(rng.randint(0, nctl))]
        host = funcs[rng.choice(hosts)]
        pv = []
        for _ in range(prepend):
            pn = [p['name'] for p in host['params']]
            pv.append(('parent', rng.choice(pn)) if pn and rng.random() < 0.5
                      else ('num', 7900.5 + k))
        f = {'name': fname, 'params': params, 'prepend': prepend,
             'rates': rates, 'wraps': [], 'prepend_values': pv,
             'fails': True, 'fallback': None}
        funcs[fname] = f
        mode = rng.choices(['none', 'other', 'same'], [35, 30, 35])[0]
        if mode != 'none':
            fb = f'g{k + 1}'
            if mode == 'same':
                fparams = []
                for p in params[prepend:]:
                    q = copy.deepcopy(p)
                    if 'annot_src' in q:
                        if rng.random() < 0.4:
                            continue            # dropped in the fallback
                        del q['annot_src']
                        q['annot'] = rng.choice([None, 'ir', 'kr', 'ar'])
                    elif rng.random() < 0.3 and q['default'][0] == 'num':
                        q['default'] = ('num', rng.choice(NUMS))
                    fparams.append(q)
                frates = rates if rng.random() < 0.5 else None
            else:
                fparams = [new_param(False, False)
                           for _ in range(rng.choice([0, 1, 2, 3]))]
                frates = None if rng.random() < 0.6 else [
                    rng.choice([None, 0.2, 'ir', 'ar'])
                    for _ in range(rng.randint(0, len(fparams)))]
            funcs[fb] = {'name': fb, 'params': fparams, 'prepend': 0,
                         'rates': frates, 'wraps': [], 'prepend_values': []}
            f['fallback'] = fb
        host['wraps'].insert(rng.randint(0, len(host['wraps'])), fname)


BODY_FAILURES = [('user', 'UserError'), ('user', 'UserError'),
                 ('user', 'ZeroDivisionError'), ('user', 'KeyError'),
                 ('user', 'RuntimeError'), ('user', 'ValueError'),
                 ('user', 'IndexError'), ('user', 'StopIteration'),
                 ('wrap-not-a-function', 'TypeError'),
                 ('wrap-bad-annotation', 'ValueError'),
                 ('wrap-outside-domain-signature', 'ValueError')]


def add_failing_bodies(rng, funcs, new_param):
    """'recovered failing body': 1-2 helpers with a VALID signature whose
    body raises after SynthDef.wrap made their parameters controls: after
    the body used j of the parameters and completed m of its own 0-2 wraps.
    The failure is an exception of user code or one the library raises for
    a nested SynthDef.wrap call; it is handled by the function calling wrap
    or by a function further up (the wrapped functions in between are
    abandoned), which then wraps a fallback (other names / the same names /
    the very same function once more, succeeding now) or nothing and carries
    on with its remaining wraps."""
    import copy
    parent = {w: f['name'] for f in funcs.values() for w in f['wraps']}
    hosts = [f['name'] for f in funcs.values() if 'alias_of' not in f]
    for _ in range(rng.choice([1, 1, 1, 2])):
        k = len(funcs)
        fname = f'g{k}'
        host = funcs[rng.choice(hosts)]
        # the chain of enclosing functions up to the top one
        chain, n = [host['name']], host['name']
        while n in parent:
            n = parent[n]
            chain.append(n)
        catch_up = 0
        if len(chain) > 1 and rng.random() < 0.4:
            catch_up = rng.randint(1, len(chain) - 1)
        prepend = 1 if rng.random() < 0.25 else 0
        params = [new_param(True, False) for _ in range(prepend)]
        nctl = rng.choice([0, 1, 1, 2, 2, 3, 4, 6])
        params += [new_param(False, False) for _ in range(nctl)]
        if rng.random() < 0.3:
            pool = [p['name'] for f in funcs.values()
                    for p in f['params'][f['prepend']:]]
            for p in params[prepend:]:
                if pool and rng.random() < 0.4:
                    nm = rng.choice(pool)
                    if nm not in [q['name'] for q in params]:
                        p['name'] = nm
        rates = None
        if rng.random() < 0.5:
            rates = [rng.choice([None, 0.1, 'ir', 'kr', 0.5, 'tr', 'ar',
                                 [0.2, 0.3]])
                     for _ in range(rng.randint(0, nctl + 1))]
            for j, e in enumerate(rates):
                if isinstance(e, list) and (
                        j >= nctl or
                        params[prepend + j]['default'][0] != 'tuple'):
                    rates[j] = 0.2
        f = {'name': fname, 'params': params, 'prepend': prepend,
             'rates': rates, 'wraps': [],
             'prepend_values': _prepend_values(rng, host, prepend, k),
             'fallback': None}
        funcs[fname] = f
        parent[fname] = host['name']
        # own small helpers, wrapped by the failing body
        for _ in range(rng.choice([0, 0, 1, 1, 2])):
            c = f'g{len(funcs)}'
            cp = [new_param(False, False)
                  for _ in range(rng.choice([1, 1, 2, 3]))]
            cr = None if rng.random() < 0.6 else [
                rng.choice([None, 0.2, 'ir', 'ar', 'tr'])
                for _ in range(rng.randint(0, len(cp)))]
            funcs[c] = {'name': c, 'params': cp, 'prepend': 0, 'rates': cr,
                        'wraps': [], 'prepend_values': []}
            f['wraps'].append(c)
            parent[c] = fname
        kind, exc = rng.choice(BODY_FAILURES)
        f['body_fails'] = {'route': rng.randint(0, nctl),
                           'wraps': rng.randint(0, len(f['wraps'])),
                           'catch_up': catch_up, 'kind': kind, 'exc': exc}
        mode = rng.choices(['none', 'other', 'same', 'retry'],
                           [25, 30, 25, 20])[0]
        if mode != 'none':
            fb = f'g{len(funcs)}'
            if mode == 'retry':
                # the same python function wrapped once more (leaf only)
                if f['wraps']:
                    mode = 'same'
                else:
                    funcs[fb] = {
                        'name': fb, 'alias_of': fname,
                        'params': copy.deepcopy(params), 'prepend': prepend,
                        'rates': rates if rng.random() < 0.6 else None,
                        'wraps': [],
                        'prepend_values': _prepend_values(
                            rng, funcs[chain[catch_up]], prepend, k + 50)}
            if mode == 'same':
                fparams = []
                for p in params[prepend:]:
                    q = copy.deepcopy(p)
                    if rng.random() < 0.25:
                        continue
                    if rng.random() < 0.3 and q['default'][0] == 'num':
                        q['default'] = ('num', rng.choice(NUMS))
                    if rng.random() < 0.2:
                        q['annot'] = rng.choice([None, 'ir', 'kr', 'ar', 'tr'])
                    fparams.append(q)
                funcs[fb] = {'name': fb, 'params': fparams, 'prepend': 0,
                             'rates': rates if rng.random() < 0.5 else None,
                             'wraps': [], 'prepend_values': []}
                if funcs[fb]['rates']:
                    funcs[fb]['rates'] = [
                        0.2 if isinstance(e, list) else e
                        for e in funcs[fb]['rates']]
            elif mode == 'other':
                fparams = [new_param(False, False)
                           for _ in range(rng.choice([0, 1, 2, 3]))]
                frates = None if rng.random() < 0.6 else [
                    rng.choice([None, 0.2, 'ir', 'ar'])
                    for _ in range(rng.randint(0, len(fparams)))]
                funcs[fb] = {'name': fb, 'params': fparams, 'prepend': 0,
                             'rates': frates, 'wraps': [],
                             'prepend_values': []}
            f['fallback'] = fb
            parent[fb] = chain[catch_up]
        host['wraps'].insert(rng.randint(0, len(host['wraps'])), fname)
        # most of the time something is wrapped after the handled failure
        if rng.random() < 0.5:
            c = f'g{len(funcs)}'
            cp = [new_param(False, False)
                  for _ in range(rng.choice([1, 2, 2, 3]))]
            funcs[c] = {'name': c, 'params': cp, 'prepend': 0, 'rates': None,
                        'wraps': [], 'prepend_values': []}
            funcs[chain[catch_up]]['wraps'].append(c)
            parent[c] = chain[catch_up]


def without_body_failures(prog):
    """the same program with bodies that do not fail (the fallback is wrapped
    after the helper)."""
    import copy
    q = copy.deepcopy(prog)
    for f in list(q['funcs'].values()):
        if f.get('body_fails'):
            del f['body_fails']
            fb = f.pop('fallback', None)
            if fb:
                host = next(g for g in q['funcs'].values()
                            if f['name'] in g['wraps'])
                host['wraps'].insert(host['wraps'].index(f['name']) + 1, fb)
    q['special'] = None
    return q


def add_odd_parameter(rng, funcs, special):
    """'empty': one control parameter gets the empty tuple as default.
    'slag': 1-2 scalar (non tuple) control parameters get a LIST of lag
    values in rates (cyclic extension to one value = its first element)."""
    cands = []
    aliased = {f['alias_of'] for f in funcs.values() if 'alias_of' in f}
    for f in funcs.values():
        if 'alias_of' in f or f['name'] in aliased:
            continue        # signature shared by several entries
        for k, p in enumerate(f['params'][f['prepend']:]):
            if p['default'][0] in ('missing', 'tuple', 'invalid'):
                continue
            cands.append((f, k, p))
    if not cands:
        return False
    for f, k, p in rng.sample(cands, 1 if special == 'empty'
                              else min(len(cands), rng.choice([1, 1, 2]))):
        rates = list(f['rates'] or [])
        rates += [None] * (k + 1 - len(rates))
        if special == 'empty':
            p['default'] = ('tuple', [])
            if isinstance(rates[k], list):
                rates[k] = None
        else:
            rates[k] = [rng.choice(LAGS) for _ in range(rng.choice([1, 2, 2, 3]))]
            if p['annot'] in ('ir', 'tr', 'ar') and rng.random() < 0.8:
                p['annot'] = rng.choice([None, 'kr'])
        f['rates'] = rates
    return True


def without_odd_parameters(prog):
    """variant without the special feature: empty-tuple parameters removed
    (with their rates entries), scalar lag lists replaced by their first
    element."""
    import copy
    q = copy.deepcopy(prog)
    for f in q['funcs'].values():
        ctl = f['params'][f['prepend']:]
        rates = list(f['rates']) if f['rates'] is not None else None
        keep_p, keep_r = [], []
        for k, p in enumerate(ctl):
            e = rates[k] if rates is not None and k < len(rates) else None
            if p['default'] == ('tuple', []):
                continue
            if isinstance(e, list) and p['default'][0] != 'tuple':
                e = e[0]
            keep_p.append(p)
            keep_r.append(e)
        f['params'] = f['params'][:f['prepend']] + keep_p
        if rates is not None:
            f['rates'] = keep_r + rates[len(ctl):]
    q['special'] = None
    top = q['funcs'][q['top']]
    ntop = len(top['params']) - top['prepend']
    live = {p['name'] for f in q['funcs'].values() for p in f['params']}
    q['call'] = {'positional': q['call']['positional'][:ntop],
                 'keywords': {k: v for k, v in q['call']['keywords'].items()
                              if k in live}}
    return q


def session_with_neutral_names(sess):
    """the same session, one renaming for all its programs and for the
    shared variants / metadata objects (keyed by parameter names)"""
    import copy
    new = {}
    progs = [with_neutral_names(p, new) for p in sess['programs']]
    shared = copy.deepcopy(sess['shared'])
    for sh in shared.values():
        if sh['kind'] == 'V':
            sh['value'] = {vn: {new.setdefault(k, f'q{len(new)}'): v
                                for k, v in pairs.items()}
                           for vn, pairs in sh['value'].items()}
        elif sh['kind'] == 'M':
            sh['value'] = {new.setdefault(k, f'q{len(new)}'): v
                           for k, v in sh['value'].items()}
    return {'programs': progs, 'shared': shared}


def with_neutral_names(prog, new=None):
    """the same program with every parameter name replaced by a neutral one
    (q0, q1, ... in order of first appearance; equal names stay equal)"""
    import copy
    q = copy.deepcopy(prog)
    if new is None:
        new = {}

    def nn(nm):
        return new.setdefault(nm, f'q{len(new)}')
    for f in q['funcs'].values():
        for p in f['params']:
            p['name'] = nn(p['name'])
    for f in q['funcs'].values():
        f['prepend_values'] = [('parent', nn(pv[1])) if pv[0] == 'parent'
                               else pv for pv in f['prepend_values']]
    q['specs'] = {nn(k): v for k, v in q['specs'].items()}
    q['variants'] = {vn: {nn(k): v for k, v in pairs.items()}
                     for vn, pairs in q['variants'].items()}
    q['call'] = {'positional': q['call']['positional'],
                 'keywords': {nn(k): v
                              for k, v in q['call']['keywords'].items()}}
    q.pop('hostile_names', None)
    return q


def without_failed_wraps(prog):
    """the same program with every rejected helper removed (its fallback
    is wrapped directly in its place)."""
    import copy
    q = copy.deepcopy(prog)
    dead = {n for n, f in q['funcs'].items() if f.get('fails')}
    for f in q['funcs'].values():
        new = []
        for w in f['wraps']:
            if w in dead:
                if q['funcs'][w].get('fallback'):
                    new.append(q['funcs'][w]['fallback'])
            else:
                new.append(w)
        f['wraps'] = new
    for n in dead:
        del q['funcs'][n]
    return q


def param_source(p):
    s = p['name']
    if 'annot_src' in p:
        s += ': ' + p['annot_src']
    if p['annot']:
        s += f": '{p['annot']}'"
    d = p['default']
    sp = p['annot'] or 'annot_src' in p
    if d[0] == 'none':
        s += ' = None' if sp else '=None'
    elif d[0] in ('num', 'bool'):
        s += (' = ' if sp else '=') + num_source(d[1])
    elif d[0] == 'invalid':
        s += (' = ' if sp else '=') + d[1]
    elif d[0] == 'tuple' and p.get('default_obj'):
        s += (' = ' if sp else '=') + p['default_obj']   # a shared tuple object
    elif d[0] == 'tuple':
        s += (' = ' if sp else '=') + tuple_source(d[1])
    return s


def num_source(v):
    """python source of a number (inf and nan have no literal)"""
    if isinstance(v, float) and (v != v or v in (INF, -INF)):
        return f"float('{v!r}')"
    return repr(v)


def tuple_source(vals):
    body = ', '.join(num_source(x) for x in vals) \
        + (',' if len(vals) == 1 else '')
    return f'({body})'


def source(prog, define_shared=True):
    """python text of the graph functions; every body hands its local
    variables to the harness callback __body__(function name, locals()).
    Tuple objects that are the default of several parameters are module
    level names (define_shared=False: the namespace provides them)."""
    out = []
    if define_shared:
        tup = {}
        for f in prog['funcs'].values():
            for p in f['params']:
                if p.get('default_obj'):
                    tup[p['default_obj']] = tuple_source(p['default'][1])
        out += [f'{k} = {v}' for k, v in sorted(tup.items())]
    for f in prog['funcs'].values():
        if 'alias_of' in f:
            continue        # the same python function, wrapped once more
        sig = ', '.join(param_source(p) for p in f['params'])
        out.append(f"def {f['name']}({sig}):\n"
                   f"    return __body__({f['name']!r}, locals())\n")
    return '\n'.join(out)


def describe(prog):
    """readable summary for samples / witnesses."""
    d = {'source': source(prog), 'definition_name': prog['name']}
    for f in prog['funcs'].values():
        if f['rates'] is not None or f['prepend'] or f['wraps'] \
                or f.get('fails') or 'alias_of' in f or f.get('body_fails') \
                or 'rates_obj' in f:
            d[f['name']] = {'rates': f['rates'], 'prepend': f['prepend_values'],
                            'wraps': f['wraps']}
            if f.get('fails'):
                d[f['name']]['rejected_by_wrap_then_fallback'] = f['fallback']
            if f.get('body_fails'):
                d[f['name']]['body_raises'] = f['body_fails']
                d[f['name']]['then_fallback'] = f['fallback']
            if 'alias_of' in f:
                d[f['name']]['same_function_as'] = f['alias_of']
            if 'rates_obj' in f:
                d[f['name']]['rates_is_shared_object'] = f['rates_obj']
            if 'prepend_obj' in f:
                d[f['name']]['prepend_is_shared_object'] = f['prepend_obj']
    for k in ('entry', 'variants_obj', 'metadata_obj'):
        if k in prog:
            d[k] = prog[k]
    if prog['specs']:
        d['specs'] = prog['specs']
    if prog['variants']:
        d['variants'] = prog['variants']
    d['call'] = prog['call']
    return d


def nontrivial(prog, lay):
    """at least two rate groups and one of: array control, lag, wrap, prepend"""
    rates = {s.rate for s in lay['slots'].values()}
    extra = (any(s.is_array for s in lay['slots'].values())
             or any(l != 0 for s in lay['slots'].values() for l in s.lags)
             or len([f for f in prog['funcs'].values()
                     if not f.get('fails')]) > 1
             or any(f['prepend'] for f in prog['funcs'].values()))
    return len(rates) >= 2 and extra


# ---------------------------------------------------------------------------
# sessions: several builds that share their ARGUMENT OBJECTS

def control_params(f):
    return f['params'][f['prepend']:]


def variant_names(prog):
    """{name: param} of the controls a variant may address: declared exactly
    once in the definition, with at least one slot"""
    live = [f for f in prog['funcs'].values() if not f.get('fails')]
    names = [p['name'] for f in live for p in control_params(f)]
    by = {p['name']: p for f in live for p in control_params(f)}
    return {n: by[n] for n in names if names.count(n) == 1
            and by[n]['default'] != ('tuple', [])}


def gen_session(rng, idx):
    """2-4 plain programs of DIFFERENT signatures built one after the other
    in one process - by the constructor (keyword / positional arguments) or
    the synthdef decorator - whose argument objects are shared:
      R  one rates list object given to 2-5 function entries (top functions
         and / or SynthDef.wrap calls, of one build or of several) with
         different numbers of control parameters, the list shorter, equal or
         longer than each of them, in whatever order the builds use it;
      P  one prepend list object given to 2-4 function entries with the same
         number of prepended parameters (and otherwise different signatures);
      V  one variants dict (and its inner dicts / value lists) given to 2-n
         definitions that declare the addressed names at different slots;
      M  one metadata dict (one 'specs' dict, the same spec objects) given to
         2-n definitions;
      T  one tuple object that is the default of 2-4 parameters of different
         functions.
    -> {'programs': [prog, ...], 'shared': {id: {'kind', 'value'}}}; the
    program descriptions hold COPIES of the values (what the model reads), the
    ids say which run-time object is handed to the library."""
    import copy
    n = rng.choice([2, 2, 3, 3, 4])
    progs = []
    naming = {'p': rng.choice([0.5, 0.8, 1.0]) if rng.random() < 0.3 else 0.0,
              'plan': {}}
    for k in range(n):
        p = gen_program(rng, idx, plain=True, prepend_p=(0.35, 0.45),
                        naming=naming)
        p['entry'] = rng.choices(['keywords', 'positional', 'decorator'],
                                 [40, 25, 35])[0]
        names = [q['name'] for f in p['funcs'].values()
                 for q in control_params(f)]
        if p['entry'] == 'decorator' and len(set(names)) < len(names):
            # the decorator also adds the definition to the description
            # library, which refuses repeated control names (SynthDescError)
            p['entry'] = 'keywords'
        # the decorator names the definition after the function
        p['name'] = p['top'] if p['entry'] == 'decorator' \
            else f's{idx % 100000}x{k}'
        progs.append(p)
    shared = {}

    def new_id(kind, value):
        sid = f'{kind}{len(shared) + 1}'
        shared[sid] = {'kind': kind, 'value': value}
        return sid

    entries = [(k, f) for k, p in enumerate(progs) for f in p['funcs'].values()]

    # -- T: shared default tuples (same length: sizes stay what the rest of
    # the program description was generated for) -------------------------
    if rng.random() < 0.6:
        groups = {}
        for k, f in entries:
            py = f.get('alias_of', f['name'])
            for pos, q in enumerate(f['params']):
                if pos >= f['prepend'] and q['default'][0] == 'tuple' \
                        and len(q['default'][1]) >= 1:
                    groups.setdefault((k, py, pos), []).append(q)
        bylen = {}
        for key, qs in groups.items():
            bylen.setdefault(len(qs[0]['default'][1]), []).append(key)
        lens = sorted(ln for ln, keys in bylen.items() if len(keys) >= 2)
        for ln in rng.sample(lens, min(len(lens), rng.choice([1, 1, 2]))):
            keys = rng.sample(bylen[ln], rng.randint(2, min(4, len(bylen[ln]))))
            vals = [draw_value(rng, allow_bool=True) for _ in range(ln)]
            tid = new_id('T', list(vals))
            for key in keys:
                for q in groups[key]:
                    q['default'] = ('tuple', list(vals))
                    q['default_obj'] = tid

    # -- R: shared rates lists -----------------------------------------------
    if rng.random() < 0.9:
        for _ in range(rng.choice([1, 1, 2])):
            free = [e for e in entries if 'rates_obj' not in e[1]]
            if len(free) < 2:
                break
            chosen = rng.sample(free, rng.randint(2, min(5, len(free))))
            ctls = [control_params(f) for _, f in chosen]
            hi = max(len(c) for c in ctls)
            ln = rng.choice([hi, hi, hi + 1, hi + 2, rng.randint(0, hi),
                             max(0, hi - 1)])
            ln = max(ln, 1)
            L = []
            for j in range(ln):
                here = [c[j] for c in ctls if j < len(c)]
                r = rng.random()
                if r < 0.22:
                    e = None
                elif r < 0.32:
                    e = rng.choice([0, 0.0])
                elif r < 0.55:
                    e = rng.choice(LAGS)
                elif r < 0.85:
                    e = rng.choice(['ar', 'kr', 'ir', 'tr'])
                elif here and all(q['default'][0] == 'tuple'
                                  and len(q['default'][1]) >= 2 for q in here):
                    size = len(here[0]['default'][1])
                    e = [rng.choice(LAGS + [0.0])
                         for _ in range(rng.choice([1, 2, size, size + 1]))]
                else:
                    e = rng.choice(LAGS)
                L.append(e)
            rid = new_id('R', L)
            for _, f in chosen:
                f['rates'] = copy.deepcopy(L)
                f['rates_obj'] = rid

    # -- P: shared prepend lists ---------------------------------------------
    if rng.random() < 0.7:
        byc = {}
        for k, f in entries:
            if f['prepend']:
                byc.setdefault(f['prepend'], []).append(f)
        cands = sorted(c for c, v in byc.items() if len(v) >= 2)
        if cands:
            c = rng.choice(cands)
            chosen = rng.sample(byc[c], rng.randint(2, min(4, len(byc[c]))))
            vals = [('num', 7700.5 + j) if rng.random() < 0.7
                    else ('str', f'q{j}') for j in range(c)]
            pid = new_id('P', vals)
            for f in chosen:
                f['prepend_values'] = list(vals)
                f['prepend_obj'] = pid

    # -- V: shared variants dicts ----------------------------------------------
    if rng.random() < 0.75:
        ks = sorted(rng.sample(range(n), rng.randint(2, n)))
        vn = [variant_names(progs[k]) for k in ks]
        common = sorted(set.intersection(*[set(d) for d in vn]),
                        key=list(vn[0]).index)
        if common:
            V = {}
            for v in range(rng.randint(1, 3)):
                pairs = {}
                for nm in rng.sample(common, rng.randint(1, min(4, len(common)))):
                    ps = [d[nm] for d in vn]
                    if all(q['default'][0] == 'tuple' for q in ps) \
                            and rng.random() < 0.7:
                        m = rng.randint(1, min(len(q['default'][1]) for q in ps))
                        pairs[nm] = [draw_value(rng, allow_nan=False)
                                     for _ in range(m)]
                    else:
                        pairs[nm] = draw_value(rng, allow_nan=False)
                V[f'v{v}'] = pairs
            vid = new_id('V', V)
            for k in ks:
                progs[k]['variants'] = copy.deepcopy(V)
                progs[k]['variants_obj'] = vid

    # -- M: shared metadata dicts ------------------------------------------------
    if rng.random() < 0.65:
        ks = sorted(rng.sample(range(n), rng.randint(2, n)))
        names = []
        for k in ks:
            ctl = [q for f in progs[k]['funcs'].values()
                   for q in control_params(f)]
            unset = [q['name'] for q in ctl
                     if q['default'][0] in ('missing', 'none')]
            names += rng.sample(unset, min(len(unset), rng.randint(1, 3)))
            anyn = [q['name'] for q in ctl]
            names += rng.sample(anyn, min(len(anyn), rng.randint(0, 2)))
        S = {nm: rng.choice(SPEC_DEFAULTS) if rng.random() < 0.85
             else rng.choice(EDGE_SPEC_DEFAULTS)
             for nm in dict.fromkeys(names)}
        if S:
            mid = new_id('M', S)
            for k in ks:
                progs[k]['specs'] = dict(S)
                progs[k]['metadata_obj'] = mid
    return {'programs': progs, 'shared': shared}
