"""AST (vf/model_patterns) -> real sc3 pattern objects, stream drivers and the
immutability snapshot used by C13.  Imports sc3 lazily (worker only)."""

import copy
import operator
import signal

from vf.model_patterns import isnode, COLLECT, PRED, INF, iv, Inval, OMIT


class RealTimeout(Exception):
    pass


def _alarm(signum, frame):
    raise RealTimeout()


class time_limit:
    """SIGALRM based limit; may be nested (the outer limit keeps running)."""

    def __init__(self, secs):
        self.secs = secs

    def __enter__(self):
        import time
        self.t0 = time.monotonic()
        self.prev = signal.getitimer(signal.ITIMER_REAL)[0]
        self.old = signal.signal(signal.SIGALRM, _alarm)
        secs = min(self.secs, self.prev) if self.prev > 0 else self.secs
        signal.setitimer(signal.ITIMER_REAL, secs)

    def __exit__(self, *exc):
        import time
        if self.prev > 0:
            left = self.prev - (time.monotonic() - self.t0)
            signal.setitimer(signal.ITIMER_REAL, max(left, 0.001))
        else:
            signal.setitimer(signal.ITIMER_REAL, 0)
        signal.signal(signal.SIGALRM, self.old)
        return False


_mods = {}


def mods():
    if not _mods:
        from sc3.seq.patterns import listpatterns as lp, filterpatterns as fp, \
            valuepatterns as vp, funcpatterns as up
        from sc3.seq import pattern as ptt
        from sc3.base import builtins as bi, stream as stm
        _mods.update(lp=lp, fp=fp, vp=vp, up=up, ptt=ptt, bi=bi, stm=stm)
    return _mods


PYOPS = {'add': operator.add, 'sub': operator.sub, 'mul': operator.mul,
         'mod': operator.mod, 'truediv': operator.truediv,
         'lt': operator.lt, 'le': operator.le, 'gt': operator.gt,
         'ge': operator.ge, 'eq': operator.eq, 'ne': operator.ne}


REPAIR = set()      # classifier only: class names built in a corrected form
_fixed = {}


def fixed_classes():
    """Harness-side corrected variants of two embedding generators, used ONLY
    to decide which mechanism explains a mismatch (never for a verdict)."""
    if not _fixed:
        m = mods()
        stm = m['stm']

        class PdropFixed(m['fp'].Pdrop):
            def __embed__(self, inval):
                stream = stm.stream(self.pattern)
                try:
                    for _ in range(self.n):
                        stream.next(inval)
                    while True:
                        inval = yield stream.next(inval)
                except stm.StopStream:
                    pass
                return inval

        class ProutFixed(m['up'].Prout):
            def __embed__(self, inval):
                it = self.func(inval) if self._func_has_inval else self.func()
                try:
                    inval = yield next(it)
                    while True:
                        inval = yield it.send(inval)
                except StopIteration as e:
                    return e.value
        _fixed.update(Pdrop=PdropFixed, Prout=ProutFixed)
    return _fixed


def build(x):
    """Real object for an AST; literals are deep-copied so that the library
    never shares structure with the model's input."""
    if not isnode(x):
        return copy.deepcopy(x)
    m = mods()
    lp, fp, vp, up, bi = m['lp'], m['fp'], m['vp'], m['up'], m['bi']
    name = x[0]
    B = build
    if REPAIR:
        fx = fixed_classes()
        if 'Pdrop' in REPAIR:
            fp = type('fp', (), dict(vars(fp)))
            fp.Pdrop = fx['Pdrop']
        if 'Prout' in REPAIR:
            up = type('up', (), dict(vars(up)))
            up.Prout = fx['Prout']
    if name == 'Pseq':
        return lp.Pseq([B(i) for i in x[1]], x[2], x[3])
    if name == 'Pser':
        return lp.Pser([B(i) for i in x[1]], x[2], x[3])
    if name == 'Place':
        return lp.Place([B(i) for i in x[1]], x[2], x[3])
    if name == 'PfuncnI':
        a, b = x[1], x[2]
        return up.Pfuncn(lambda inval: iv(inval) * a + b, x[3])
    if name == 'ProutI':
        a, vals = x[1], list(x[2])

        def irout(inval):
            for v in vals:
                inval = yield iv(inval) * a + v
            return inval
        return up.Prout(irout)
    if name == 'PcollectI':
        a = x[1]
        return fp.Pcollect(lambda v, inval: v + iv(inval) * a, B(x[2]))
    if name == 'PlazyI':
        a, vals = x[1], list(x[2])
        return up.Plazy(lambda inval: lp.Pseq([v + iv(inval) * a for v in vals], 1)
                        if vals else lp.Pseq([0], 0))
    if name == 'Pfuncn':
        v = x[1]
        return up.Pfuncn((lambda: v) if x[2] != 1 else (lambda inval: v), x[2])
    if name == 'Pfunc':
        v = x[1]
        return up.Pfunc(lambda: v)
    if name == 'Plazy':
        sub = x[1]
        return up.Plazy(lambda inval: B(sub))
    if name == 'Prout':
        vals = list(x[1])

        def rout(inval):      # embedding protocol: hand the input value on
            for v in vals:
                inval = yield v
            return inval
        return up.Prout(rout)
    if name == 'Placep':
        return lp.Placep([B(i) for i in x[1]], x[2], x[3])
    if name == 'Pn':
        return fp.Pn(B(x[1]), x[2])
    if name == 'Plen':
        return fp.Plen(B(x[1]), x[2])
    if name == 'Pdrop':
        return fp.Pdrop(B(x[1]), x[2])
    if name == 'Pstutter':
        return fp.Pstutter(B(x[1]), B(x[2]))
    if name == 'Pclump':
        return fp.Pclump(B(x[1]), B(x[2]))
    if name == 'Pflatten':
        return fp.Pflatten(B(x[1]), B(x[2]))
    if name == 'Pdiff':
        return fp.Pdiff(B(x[1]))
    if name == 'Pconst':
        return fp.Pconst(B(x[1]), x[2])
    if name == 'Pswitch':
        return lp.Pswitch([B(i) for i in x[1]], B(x[2]))
    if name == 'Pswitch1':
        return lp.Pswitch1([B(i) for i in x[1]], B(x[2]))
    if name == 'Ptuple':
        return lp.Ptuple([B(i) for i in x[1]], x[2])
    if name == 'Pslide':
        return lp.Pslide([B(i) for i in x[1]], length=B(x[2]), step=B(x[3]),
                         start=x[4], wrap=x[5], repeats=x[6])
    if name in ('Pseries', 'Pgeom'):
        # omitted arguments are really left out of the call
        names = ('start', 'step' if name == 'Pseries' else 'grow', 'length')
        kw = {n: (B(a) if n != 'length' else a) for n, a in zip(names, x[1:])
              if not (isinstance(a, str) and a == OMIT)}
        return getattr(vp, name)(**kw)
    if name == 'Pcollect':
        return fp.Pcollect(COLLECT[x[1]], B(x[2]))
    if name == 'Pselect':
        return fp.Pselect(PRED[x[1]], B(x[2]))
    if name == 'Preject':
        return fp.Preject(PRED[x[1]], B(x[2]))
    if name == 'Pif':
        return up.Pif(B(x[1]), B(x[2]), B(x[3]))
    if name == 'Pwrap':
        return fp.Pwrap(B(x[1]), B(x[2]), B(x[3]))
    if name == 'Pseed':
        return fp.Pseed(B(x[1]), build_rand(x[2]))
    if name == 'Punop':
        _, op, form, a = x
        a = B(a)
        if op == 'neg':
            return -a if form == 'op' else a.neg()
        if op == 'abs':
            return abs(a) if form == 'op' else a.abs()
        if op == 'pos':
            return +a
        if op == 'squared':
            return a.squared() if form == 'meth' else bi.squared(a)
    if name == 'Pbinop':
        _, op, form, a, b = x
        a, b = B(a), B(b)
        if form == 'op':
            return PYOPS[op](a, b)
        if form == 'meth':
            return _method(a, op)(b)
        return getattr(bi, op)(a, b)
    if name == 'Pnarop':
        _, op, form, a, *args = x
        a = B(a)
        args = [B(i) for i in args]
        if form == 'meth':
            return _method(a, op)(*args)
        return getattr(bi, op)(a, *args)
    raise ValueError(name)


shadowed = {}      # (class, operator method) hidden by an instance attribute


def _method(a, op):
    """Operator method of a pattern; an instance attribute of the same name
    (Pslide.wrap) hides it - that is C15's finding, here the class's method is
    used so that the sequence semantics can still be checked."""
    m = getattr(a, op)
    if not callable(m):
        shadowed[(type(a).__name__, op)] = shadowed.get((type(a).__name__, op), 0) + 1
        import functools
        return functools.partial(getattr(type(a), op), a)
    return m


def build_rand(spec):
    m = mods()
    lp, vp = m['lp'], m['vp']
    name = spec[0]
    if name == 'Pwhite':
        return vp.Pwhite(spec[1], spec[2], spec[3])
    if name == 'Pbrown':
        return vp.Pbrown(spec[1], spec[2], spec[3], spec[4])
    if name == 'Prand':
        return lp.Prand(list(spec[1]), spec[2])
    if name == 'Pxrand':
        return lp.Pxrand(list(spec[1]), spec[2])
    if name == 'Pshuffle':
        return lp.Pshuffle(list(spec[1]), spec[2])
    if name == 'Pwrand':
        return lp.Pwrand(list(spec[1]), None if spec[2] is None else list(spec[2]),
                         spec[3])
    raise ValueError(name)


def rand_leaf_problem(spec, vals):
    """Range / length check of one seeded run of a random leaf (documented
    meaning: Pwhite lo..hi, Prand/Pxrand choose from the list - Pxrand never
    the same item twice in a row -, Pshuffle one permutation repeated, Pbrown
    stays in lo..hi moving at most step)."""
    name = spec[0]
    if name == 'Pwhite':
        _, lo, hi, n = spec
        if len(vals) != n:
            return 'length'
        if any(not (lo <= v <= hi) for v in vals):
            return 'range'
        if isinstance(lo, int) and isinstance(hi, int) and \
                any(not isinstance(v, int) for v in vals):
            return 'type'
    elif name == 'Pbrown':
        _, lo, hi, step, n = spec
        if len(vals) != n:
            return 'length'
        if any(not (lo <= v <= hi) for v in vals):
            return 'range'
    elif name in ('Prand', 'Pxrand'):
        _, items, n = spec
        if len(vals) != n:
            return 'length'
        if any(v not in items for v in vals):
            return 'range'
        if name == 'Pxrand' and len(items) > 1 and \
                any(a == b for a, b in zip(vals, vals[1:])):
            return 'repeat'
    elif name == 'Pwrand':
        _, items, weights, n = spec
        if len(vals) != n:
            return 'length'
        if any(v not in items for v in vals):
            return 'range'
        if weights is not None and any(
                weights[items.index(v)] == 0 for v in vals):
            return 'zero-weight-item-chosen'
    elif name == 'Pshuffle':
        _, items, reps = spec
        k = len(items)
        if len(vals) != k * reps:
            return 'length'
        first = vals[:k]
        if sorted(first) != sorted(items):
            return 'range'
        if any(vals[i * k:(i + 1) * k] != first for i in range(reps)):
            return 'order'
    return None


def real_take(pat, n, how='iter', inval=None):
    """Up to n values of a *fresh* stream of pat -> (values, ended, exc).
    inval is handed to every next()/send()/all(): value patterns must not
    depend on it."""
    m = mods()
    stm = m['stm']
    vals = []
    sched = inval if isinstance(inval, Inval) else Inval(inval, 0)
    try:
        if how == 'iter':
            it = iter(pat)
            for _ in range(n):
                try:
                    vals.append(next(it))
                except StopIteration:
                    return vals, True, None
        elif how == 'next':
            s = stm.stream(pat)
            for _ in range(n):
                try:
                    vals.append(s.next(sched.at(len(vals))))
                except stm.StopStream:
                    return vals, True, None
        elif how == 'embed':
            g = stm.embed(pat, sched.at(0))
            for _ in range(n):
                try:
                    vals.append(g.send(sched.at(len(vals))) if vals else next(g))
                except StopIteration:
                    return vals, True, None
        elif how == 'all':
            vals = stm.stream(pat).all(sched.at(0))
            return vals, True, None
        else:
            raise ValueError(how)
    except RealTimeout:
        raise
    except Exception as e:
        return vals, False, e
    return vals, False, None


def _same_seq(a, b):
    from vf.model_patterns import same_value
    return len(a) == len(b) and all(same_value(x, y) for x, y in zip(a, b))


def after_end(pat, n, k, midway=None, inval=None):
    """History on ONE stream: pull to the end, poll k more times, all(),
    reset(), pull again -> (first, values got after the end, second, exc)."""
    m = mods()
    stm = m['stm']
    s = stm.stream(pat)

    sched = inval if isinstance(inval, Inval) else Inval(inval, 0)

    def pull():
        out = []
        for _ in range(n):
            try:
                out.append(s.next(sched.at(len(out))))
            except stm.StopStream:
                return out, True
        return out, False
    try:
        first, ended = pull()
        if not ended:
            return first, None, None, None
        if midway is not None and first:
            # reset after some values: the sequence starts again
            s.reset()
            for j in range(min(midway, len(first) - 1)):
                s.next(sched.at(j))
            s.reset()
            again, _ = pull()
            if again != first and not _same_seq(again, first):
                return first, None, again, None
        post = []
        for _ in range(k):
            try:
                post.append(s.next(sched.at(0)))
            except stm.StopStream:
                pass
        if not post:
            post = list(s.all(sched.at(0)))
        s.reset()
        second, _ = pull()
        return first, post, second, None
    except RealTimeout:
        raise
    except Exception as e:
        return None, None, None, e


def interleaved(pat, n, rng, inval=None):
    """Two streams of one pattern consumed alternately (random schedule)."""
    m = mods()
    stm = m['stm']
    s = [stm.stream(pat), iter(pat)]
    sched = inval if isinstance(inval, Inval) else Inval(inval, 0)
    out = [[], []]
    done = [False, False]
    exc = None
    try:
        while not all(done[i] or len(out[i]) >= n for i in (0, 1)):
            i = rng.randrange(2)
            if done[i] or len(out[i]) >= n:
                i = 1 - i
            try:
                out[i].append(s[i].next(sched.at(len(out[i]))))
            except StopIteration:       # StopStream is a StopIteration
                done[i] = True
    except RealTimeout:
        raise
    except Exception as e:
        exc = e
    return out, done, exc


def snapshot(obj, seen=None, depth=0):
    """Deep structural snapshot of a pattern graph: class, vars() of every
    pattern node, list contents; functions by identity."""
    m = mods()
    Pattern = m['ptt'].Pattern
    if seen is None:
        seen = {}
    if depth > 40:
        return ('deep',)
    if isinstance(obj, Pattern):
        if id(obj) in seen:
            return ('ref', seen[id(obj)])
        seen[id(obj)] = len(seen)
        return ('P', type(obj).__name__,
                tuple((k, snapshot(v, seen, depth + 1))
                      for k, v in sorted(vars(obj).items())))
    if isinstance(obj, (list, tuple)):
        return (type(obj).__name__,
                tuple(snapshot(i, seen, depth + 1) for i in obj))
    if isinstance(obj, dict):
        return ('dict', tuple((repr(k), snapshot(v, seen, depth + 1))
                              for k, v in obj.items()))
    if callable(obj):
        return ('fn', id(obj))
    return ('v', type(obj).__name__, repr(obj))


def snapshot_diff(a, b, path='root'):
    """First difference between two snapshots -> (class, attribute path)."""
    if a == b:
        return None
    if a[0] == 'P' and b[0] == 'P' and a[1] == b[1]:
        da, db = dict(a[2]), dict(b[2])
        for k in sorted(set(da) | set(db)):
            if k not in da:
                return a[1], f'{k}-added'
            if k not in db:
                return a[1], f'{k}-removed'
            if da[k] != db[k]:
                sub = snapshot_diff(da[k], db[k], k)
                if sub and sub[0] is not None:
                    return sub
                return a[1], k
        return a[1], '?'
    if a[0] == b[0] and a[0] in ('list', 'tuple') and len(a[1]) == len(b[1]):
        for x, y in zip(a[1], b[1]):
            if x != y:
                sub = snapshot_diff(x, y, path)
                if sub:
                    return sub
    return None, path
