"""Known-findings file handling.

known_findings.json is committed and never written at run time.  Entries:
  {"property": "C18", "key": "<mechanism key>", "status": "known",
   "what": "<the specific input / call site / history that fails>"}
  {"property": "C18", "key": "...", "status": "fixed", "commit": "<sha>",
   "line": "fixed: property=C18 <sha> <what failed>"}
Only status == "known" suppresses (turns a witness with exactly that mechanism
key into a KNOWN-FINDING line); "fixed" entries suppress nothing.
"""

import json
import os

from .common import VERIF_DIR


def load():
    path = os.path.join(VERIF_DIR, 'known_findings.json')
    try:
        data = json.load(open(path))
    except FileNotFoundError:
        return []
    return data.get('findings', [])


def known_keys(prop):
    return {f['key']: f for f in load()
            if f.get('property') == prop and f.get('status') == 'known'}
