"""C11 - routines, conditions and flow variables obey their state machine.

(a) Reference-model monitor in lock step (NRT worker, no clocks involved):
    random histories of next(inval)/play/pause/resume/stop/reset applied from
    outside and from inside routine bodies (to the routine itself and to
    others) over bodies that yield, return, raise, raise YieldAndReset /
    AlwaysYield or drive nested routines.  A small model (states Init /
    Suspended / Paused / Done, program counter, terminal value) predicts every
    return value / exception class, every value received by a body, every
    scheduling request handed to the clock and every state.  After every
    top-level operation: main.current_tt is main.main_tt, no routine keeps a
    parent pointer and main time is unchanged; inside bodies the current thread
    is the running routine.
(b) Condition / FlowVar trace monitor (vf/prog.py programs with 1-8 waiters per
    condition, signal with false test, unhang, rebind): every hung waiter
    resumes exactly once, after a releasing signal issued after its wait began
    and never before; NRT (deterministic) and RT under random-yield injection
    with releases also coming from a plain thread.
(e) pause/resume and stop/reset/play of a routine playing on a real clock (RT and
    NRT): it continues where it was, every step once, at the right logical times.
(d) Fault sequences: a release that raises half way (a waiter's TempoClock was
    stopped) followed by retries: no waiter is resumed twice for one wait.
"""

import json
import random
import threading
import time

from vf.common import iter_cases, case_rng, h64, split, short_tb, derive_seed

LEVEL = 'exploration'
RULE = ("(a) seeded random histories (1-30 top-level operations) over 1-4 routines "
        "whose bodies are step lists (per restart) mixing yields, returns, raises, "
        "YieldAndReset, AlwaysYield and operations on itself/others; non-trivial = "
        "history containing an operation issued from inside a body, a restart "
        "(reset/YieldAndReset) and a terminal state; (b) programs with conditions / "
        "flow variables; non-trivial = at least one waiter that really hung; "
        "distinct = hash of the history / program")
ASSUMPTIONS = [
    "the routine model in this file is the documented state machine (reset returns a "
    "routine to its initial state, including a terminal value recorded by AlwaysYield)",
    "an operation that re-enters a running routine (next() on itself) may raise any "
    "exception, but must leave the current-thread pointer intact",
]
MIN_COUNTERS = {
    'quick': {'fsm_ops_compared': 20000, 'fsm_inside_ops': 3000,
              'cond_waits_hung_checked': 300, 'ctx_checks': 20000,
              'mt_histories': 500, 'mt_concurrent_next_calls': 5000,
              'fault_cases': 40, 'fault_release_attempts_that_raised': 20,
              'pause_resume_cases': 300, 'cond_race_cases': 100,
              'cond_control_test/const-then-callable': 40, 'cond_control_test/callable-then-const': 40,
              'restart_histories': 800, 'restart_function_restarts_compared': 500,
              'restart_histories_reset_pause_resume': 100,
              'restart_histories_meter_change_inside': 100},
    'thorough': {'fsm_ops_compared': 4000000, 'fsm_inside_ops': 500000,
                 'cond_waits_hung_checked': 60000, 'ctx_checks': 4000000,
                 'mt_histories': 30000, 'mt_concurrent_next_calls': 300000,
                 'fault_cases': 2000, 'fault_release_attempts_that_raised': 1000,
                 'pause_resume_cases': 30000, 'cond_race_cases': 5000,
                 'restart_histories': 40000, 'restart_function_restarts_compared': 25000,
                 'restart_histories_reset_pause_resume': 5000,
                 'restart_histories_meter_change_inside': 5000},
}


def plan(tier, seed):
    shards = []
    if tier == 'quick':
        for p, (f, n) in enumerate(split(6000, 6)):
            shards.append(dict(name=f'fsm{p}', mode='nrt', kind='fsm', first_case=f,
                               n=n, secs=40, hard_timeout=160))
        for p, (f, n) in enumerate(split(800, 2)):
            shards.append(dict(name=f'cnrt{p}', mode='nrt', kind='cond-nrt',
                               first_case=f, n=n, secs=40, hard_timeout=160))
        shards.append(dict(name='crt0', mode='rt', kind='cond-rt', secs=12, batch=25,
                           p_yield=0.03, hard_timeout=120))
        for p, (f, n) in enumerate(split(1600, 2)):
            shards.append(dict(name=f'mt{p}', mode='nrt', kind='fsm-mt', first_case=f,
                               n=n, secs=30, hard_timeout=160))
        shards.append(dict(name='prrt', mode='rt', kind='pause-resume', first_case=0, n=60,
                           secs=40, hard_timeout=160))
        shards.append(dict(name='prnrt', mode='nrt', kind='pause-resume', first_case=0,
                           n=600, secs=40, hard_timeout=160))
        for p, (f, n) in enumerate(split(80, 2)):
            shards.append(dict(name=f'cfault{p}', mode='rt', kind='cond-fault',
                               first_case=f, n=n, secs=40, hard_timeout=160))
        shards.append(dict(name='cctl0', mode='nrt', kind='cond-ctl', first_case=0, n=1500,
                           secs=40, hard_timeout=160))
        for p, (f, n) in enumerate(split(300, 2)):
            shards.append(dict(name=f'crace{p}', mode='rt', kind='cond-race',
                               first_case=f, n=n, secs=30, hard_timeout=160))
        shards.append(dict(name='restart0', mode='nrt', kind='restart', first_case=0, n=6000,
                           secs=30, hard_timeout=160))
    else:
        for p, (f, n) in enumerate(split(2400000, 12)):
            shards.append(dict(name=f'fsm{p}', mode='nrt', kind='fsm', first_case=f,
                               n=n, secs=540, hard_timeout=700))
        for p, (f, n) in enumerate(split(240000, 3)):
            shards.append(dict(name=f'cnrt{p}', mode='nrt', kind='cond-nrt',
                               first_case=f, n=n, secs=500, hard_timeout=700))
        for p, (f, n) in enumerate(split(120000, 4)):
            shards.append(dict(name=f'mt{p}', mode='nrt', kind='fsm-mt', first_case=f,
                               n=n, secs=500, hard_timeout=700))
        for p, (f, n) in enumerate(split(6000, 4)):
            shards.append(dict(name=f'prrt{p}', mode='rt', kind='pause-resume', first_case=f,
                               n=n, secs=520, hard_timeout=700))
        for p, (f, n) in enumerate(split(200000, 2)):
            shards.append(dict(name=f'prnrt{p}', mode='nrt', kind='pause-resume',
                               first_case=f, n=n, secs=520, hard_timeout=700))
        for p, (f, n) in enumerate(split(6000, 6)):
            shards.append(dict(name=f'cfault{p}', mode='rt', kind='cond-fault',
                               first_case=f, n=n, secs=520, hard_timeout=700))
        for p, (f, n) in enumerate(split(300000, 2)):
            shards.append(dict(name=f'cctl{p}', mode='nrt', kind='cond-ctl', first_case=f, n=n,
                               secs=500, hard_timeout=700))
        for p, (f, n) in enumerate(split(40000, 4)):
            shards.append(dict(name=f'crace{p}', mode='rt', kind='cond-race',
                               first_case=f, n=n, secs=500, hard_timeout=700))
        for p, (f, n) in enumerate(split(600000, 2)):
            shards.append(dict(name=f'restart{p}', mode='nrt', kind='restart', first_case=f,
                               n=n, secs=400, hard_timeout=700))
        for i in range(3):
            shards.append(dict(name=f'crt{i}', mode='rt', kind='cond-rt', secs=120,
                               batch=[20, 40, 60][i], p_yield=[0.0, 0.03, 0.1][i],
                               hard_timeout=400))
    return shards


# ---------------------------------------------------------------------------
# (a) routine state machine
# ---------------------------------------------------------------------------

EXCS = ['ValueError', 'KeyError', 'ZeroDivisionError', 'RuntimeError', 'VfErr',
        'KeyboardInterrupt', 'SystemExit', 'VfBaseErr']
OPS = ['next', 'next', 'next', 'next', 'pause', 'resume', 'play', 'stop', 'reset']


def gen_fsm(rng):
    nr = rng.randint(1, 4)
    routines = []
    for rid in range(nr):
        isgen = rng.random() < 0.85
        has_inval = rng.random() < 0.5
        runs = []
        for _ in range(rng.randint(1, 3)):
            steps = []
            for _ in range(rng.randint(0, 7)):
                x = rng.random()
                if x < 0.5 and isgen:
                    steps.append(['yield', rng.choice([0, 1, 2.5, 'a', None, [1, 2]])])
                elif x < 0.8:
                    tgt = rng.randrange(nr)
                    op = rng.choice(OPS)
                    steps.append(['op', tgt, op, rng.choice([None, 7, 'x'])])
                elif x < 0.86:
                    steps.append(['raise', rng.choice(EXCS)])
                    break
                elif x < 0.91:
                    steps.append(['yar', rng.choice([3, 'r', None])])
                    break
                elif x < 0.96:
                    steps.append(['ay', rng.choice([9, 't', None])])
                    break
                else:
                    steps.append(['ret'])
                    break
            runs.append(steps)
        # what the body does when it is finalised at a yield (stop / reset drop
        # its generator): nothing, raise, or yield again - the routine's state
        # machine must not depend on it
        cleanup = rng.choice([None, None, None, 'raise', 'yield']) if isgen else None
        routines.append({'isgen': isgen, 'has_inval': has_inval, 'runs': runs,
                         'cleanup': cleanup})
    hist = []
    for _ in range(rng.choice([rng.randint(1, 6), rng.randint(4, 30)])):
        hist.append([rng.randrange(nr), rng.choice(OPS), rng.choice([None, 1, 'in', 4.5])])
    return {'routines': routines, 'history': hist}


class Model:
    """Documented routine state machine."""

    def __init__(self, case):
        self.case = case
        self.R = [dict(state='Init', pc=None, runidx=-1, steps=None, terminal=False,
                       tval=None, running=False) for _ in case['routines']]
        self.log = []
        self.reentered = False

    def steps_for(self, rid, runidx):
        runs = self.case['routines'][rid]['runs']
        return runs[min(runidx, len(runs) - 1)]

    def op(self, rid, name, arg, ctx):
        R = self.R[rid]
        if name == 'next':
            return self.next(rid, arg)
        if name == 'pause':
            if R['running']:
                return ('exc', 'RoutineException')
            if R['state'] in ('Init', 'Suspended'):
                R['state'] = 'Paused'
            return ('ok', None)
        if name in ('resume', 'play'):
            ok_from = ('Paused',) if name == 'resume' else ('Init', 'Paused')
            if not R['running'] and R['state'] in ok_from:
                R['state'] = 'Suspended'
                self.log.append(('sched', rid))
            return ('ok', None)
        if name == 'stop':
            if R['running']:
                return ('exc', 'RoutineException')
            R['state'] = 'Done'
            R['pc'] = None
            return ('ok', None)
        if name == 'reset':
            if R['running']:
                return ('exc', 'RoutineException')
            R['state'] = 'Init'
            R['pc'] = None
            R['terminal'] = False        # back to the initial state
            return ('ok', None)
        raise ValueError(name)

    def next(self, rid, inval):
        R = self.R[rid]
        spec = self.case['routines'][rid]
        if R['running']:
            self.reentered = True
            return ('exc', 'ANY')
        if R['state'] == 'Paused':
            return ('exc', 'PausedStream')
        if R['state'] == 'Done':
            if R['terminal']:
                return ('ok', R['tval'])
            return ('exc', 'StopStream')
        R['running'] = True
        try:
            if R['pc'] is None:
                R['runidx'] += 1
                R['steps'] = self.steps_for(rid, R['runidx'])
                R['pc'] = 0
                self.log.append(('start', rid, inval if spec['has_inval'] else '-'))
            else:
                self.log.append(('recv', rid, inval))
            steps = R['steps']
            while R['pc'] < len(steps):
                st = steps[R['pc']]
                R['pc'] += 1
                k = st[0]
                if k == 'op':
                    out = self.op(st[1], st[2], st[3], rid)
                    self.log.append(('inop', rid, st[1], st[2], out))
                elif k == 'yield':
                    R['state'] = 'Suspended'
                    return ('ok', st[1])
                elif k == 'ret':
                    break
                elif k == 'raise':
                    R['state'] = 'Done'
                    R['pc'] = None
                    return ('exc', st[1])
                elif k == 'yar':
                    R['state'] = 'Init'
                    R['pc'] = None
                    return ('ok', st[1])
                elif k == 'ay':
                    R['state'] = 'Done'
                    R['pc'] = None
                    R['terminal'] = True
                    R['tval'] = st[1]
                    return ('ok', st[1])
            # fell off the end / return
            R['pc'] = None
            R['state'] = 'Done'
            if not spec['isgen']:
                # plain functions produce a constant None stream
                R['terminal'] = True
                R['tval'] = None
                return ('ok', None)
            return ('exc', 'StopStream')
        finally:
            R['running'] = False


class Real:
    def __init__(self, case, acc):
        from sc3.base.main import main
        from sc3.base import stream as stm
        self.main, self.stm = main, stm
        self.case = case
        self.acc = acc
        self.log = []
        self.ctx_bad = []
        self.runidx = [-1] * len(case['routines'])
        real = self

        class VfErr(Exception):
            pass

        class VfBaseErr(BaseException):
            pass
        self.excs = dict(ValueError=ValueError, KeyError=KeyError,
                         ZeroDivisionError=ZeroDivisionError, RuntimeError=RuntimeError,
                         VfErr=VfErr, KeyboardInterrupt=KeyboardInterrupt,
                         SystemExit=SystemExit, VfBaseErr=VfBaseErr)

        class FakeClock:
            def play(self, task, quant=None):
                real.log.append(('sched', next(i for i, r in enumerate(real.routs) if r is task)))
        self.clock = FakeClock()
        self.routs = []
        for rid, spec in enumerate(case['routines']):
            self.routs.append(stm.Routine(self.make_func(rid, spec)))

    def steps_for(self, rid, runidx):
        runs = self.case['routines'][rid]['runs']
        return runs[min(runidx, len(runs) - 1)]

    def check_ctx(self, rid, where):
        self.acc.count('ctx_checks')
        if self.main.current_tt is not self.routs[rid]:
            self.ctx_bad.append((where, rid, repr(self.main.current_tt)))

    def run_steps(self, rid, inval, has_inval):
        """Generator interpreting the step list of the current run."""
        self.runidx[rid] += 1
        steps = self.steps_for(rid, self.runidx[rid])
        self.log.append(('start', rid, inval if has_inval else '-'))
        for st in steps:
            self.check_ctx(rid, 'step')
            k = st[0]
            if k == 'op':
                out = self.apply(st[1], st[2], st[3])
                self.check_ctx(rid, 'after-nested-op')
                self.log.append(('inop', rid, st[1], st[2], out))
            elif k == 'yield':
                try:
                    got = yield st[1]
                except GeneratorExit:
                    c = self.case['routines'][rid].get('cleanup')
                    self.acc.count('fsm_bodies_finalised_at_a_yield')
                    if c == 'raise':
                        self.acc.count('fsm_misbehaving_cleanups')
                        raise self.excs['VfErr']('vf cleanup')
                    if c == 'yield':
                        self.acc.count('fsm_misbehaving_cleanups')
                        yield 'again'
                    raise
                self.log.append(('recv', rid, got))
            elif k == 'ret':
                return
            elif k == 'raise':
                raise self.excs[st[1]]('vf')
            elif k == 'yar':
                raise self.stm.YieldAndReset(st[1])
            elif k == 'ay':
                raise self.stm.AlwaysYield(st[1])

    def make_func(self, rid, spec):
        real = self
        if spec['isgen']:
            if spec['has_inval']:
                def body(inval):
                    yield from real.run_steps(rid, inval, True)
            else:
                def body():
                    yield from real.run_steps(rid, None, False)
        else:
            if spec['has_inval']:
                def body(inval):
                    for _ in real.run_steps(rid, inval, True):
                        pass
            else:
                def body():
                    for _ in real.run_steps(rid, None, False):
                        pass
        return body

    def apply(self, rid, name, arg):
        r = self.routs[rid]
        stm = self.stm
        try:
            if name == 'next':
                return ('ok', r.next(arg))
            if name == 'pause':
                return ('ok', r.pause())
            if name == 'resume':
                return ('ok', r.resume(self.clock))
            if name == 'play':
                return ('ok', r.play(self.clock))
            if name == 'stop':
                return ('ok', r.stop())
            if name == 'reset':
                return ('ok', r.reset())
        except stm.PausedStream:
            return ('exc', 'PausedStream')
        except stm.StopStream:
            return ('exc', 'StopStream')
        except stm.RoutineException:
            return ('exc', 'RoutineException')
        except BaseException as e:      # noqa: bodies also raise BaseExceptions
            return ('exc', type(e).__name__)
        raise ValueError(name)


def same_out(m, r):
    if m == ('exc', 'ANY'):
        return r[0] == 'exc'
    return m == r or (m[0] == r[0] == 'ok' and m[1] == r[1])


def same_log(ml, rl):
    if len(ml) != len(rl):
        return False
    for a, b in zip(ml, rl):
        if a[0] != b[0]:
            return False
        if a[0] == 'inop':
            if a[1:4] != b[1:4] or not same_out(a[4], b[4]):
                return False
        elif tuple(a) != tuple(b):
            return False
    return True


def run_fsm(spec, acc):
    import sys
    sys.unraisablehook = lambda *a: None    # finalisers of dropped generators may raise
    from sc3.base.main import main
    for i in iter_cases(spec):
        rng = case_rng(spec['seed'], 'C11', 'fsm', i)
        case = gen_fsm(rng)
        main.reset()
        model = Model(case)
        try:
            real = Real(case, acc)
        except Exception as e:
            acc.violation(f'C11/routine-constructor-raised/{type(e).__name__}',
                          {'case': i, 'tb': short_tb(e)})
            continue
        t_before = main.elapsed_time()
        inside = restart = terminal = False
        bad = None
        for k, (rid, name, arg) in enumerate(case['history']):
            mo = model.op(rid, name, arg, None)
            ro = real.apply(rid, name, arg)
            acc.count('fsm_ops_compared')
            n_in = sum(1 for e in model.log if e[0] == 'inop')
            # top-level invariants: current thread restored, no parent kept,
            # main time untouched
            if main.current_tt is not main.main_tt:
                bad = ('current-thread-not-restored',
                       'reentrant-next' if model.reentered else name,
                       f'current_tt={main.current_tt!r}')
            elif any(r.parent is not None for r in real.routs):
                bad = ('parent-pointer-kept', name, '')
            elif main.elapsed_time() != t_before:
                bad = ('main-time-changed', name, f'{t_before}->{main.elapsed_time()}')
            elif real.ctx_bad:
                bad = ('wrong-current-thread-inside-body',
                       'reentrant-next' if model.reentered else real.ctx_bad[0][0],
                       repr(real.ctx_bad[0]))
            elif not same_out(mo, ro):
                bad = ('result-differs', name, f'model {mo} real {ro}')
            elif not same_log(model.log, real.log):
                bad = ('body-trace-differs', name,
                       f'model {model.log[-4:]} real {real.log[-4:]}')
            else:
                ms = [R['state'] for R in model.R]
                rs = [r.state.name for r in real.routs]
                if ms != rs:
                    bad = ('state-differs', name, f'model {ms} real {rs}')
            if bad:
                # the state in which the operation found the routine is part of
                # the mechanism
                detail = bad[1]
                if bad[0] in ('result-differs', 'state-differs', 'body-trace-differs') \
                        and model.reentered:
                    detail = 'after-reentrant-next'
                acc.violation(f'C11/{bad[0]}/{detail}',
                              {'case': i, 'op_index': k, 'why': bad[2],
                               'history': case['history'][:k + 1],
                               'routines': case['routines']})
                if main.current_tt is not main.main_tt:
                    main.current_tt = main.main_tt      # repair for the next case
                break
        acc.count('fsm_inside_ops', sum(1 for e in model.log if e[0] == 'inop'))
        inside = any(e[0] == 'inop' for e in model.log)
        restart = any(R['runidx'] >= 1 for R in model.R)
        terminal = any(R['state'] == 'Done' for R in model.R)
        if model.reentered:
            acc.count('fsm_histories_with_reentrant_next')
        acc.case(h64(json.dumps(case, sort_keys=True)),
                 nontrivial=inside and restart and terminal)
        if acc.want_sample() and inside and restart and len(json.dumps(case)) < 700:
            acc.sample({'case': i, 'fsm_case': case, 'trace': [list(map(str, e)) for e in model.log[:10]]})


# ---------------------------------------------------------------------------
# (b) conditions and flow variables
# ---------------------------------------------------------------------------

def check_cond_log(run, acc, mode, prog, case):
    """Every hung waiter resumes exactly once, after a release issued after its
    wait began; never before."""
    log = run.log
    waiting = {}       # rid -> (kind, id, index in log)
    for idx, e in enumerate(log):
        if e[0] == 'wbegin' and e[4]:
            waiting[e[1]] = (e[2], e[3], idx)
        elif e[0] == 'res' and e[5] in ('wait-hung', 'flow-hung'):
            w = waiting.pop(e[1], None)
            acc.count('cond_waits_hung_checked')
            if w is None:
                acc.violation(f'C11/waiter-resumed-without-waiting/{mode}',
                              {'case': case, 'program': prog, 'event': e})
                continue
            kind, cid, wi = w
            rel = [x for x in log[wi:idx]
                   if (kind == 'c' and x[0] in ('sig', 'unhang') and x[2] == cid)
                   or (kind == 'f' and x[0] == 'fset' and x[2] == cid)]
            if not rel:
                acc.violation(f'C11/waiter-resumed-before-release/{kind}/{mode}',
                              {'case': case, 'program': prog, 'event': e,
                               'since': log[wi:idx][:10]})
        elif e[0] == 'res' and e[1] in waiting:
            acc.violation(f'C11/hung-waiter-resumed-by-something-else/{mode}',
                          {'case': case, 'program': prog, 'event': e})
            waiting.pop(e[1], None)
    # a waiter still hanging although a release came after its wait began
    for rid, (kind, cid, wi) in waiting.items():
        rel = [x for x in log[wi:]
               if (kind == 'c' and x[0] in ('sig', 'unhang') and x[2] == cid)
               or (kind == 'f' and x[0] == 'fset' and x[2] == cid)]
        if rel and run.done is False and mode == 'nrt':
            acc.violation(f'C11/waiter-never-resumed-after-release/{kind}/{mode}',
                          {'case': case, 'program': prog, 'rid': rid, 'release': rel[0]})
    for fl in run.fails:
        if fl.get('after', '').startswith(('wait', 'flow')):
            acc.violation(f"C11/waiter-resumed-at-wrong-time/{fl['after']}/{mode}",
                          {'case': case, 'program': prog, 'fail': fl})
    for e in run.errors[:2]:
        acc.violation(f'C11/routine-body-raised/{e[1]}/{mode}',
                      {'case': case, 'program': prog, 'error': e})


def gen_cond_prog(prng, rt_safe, nrt_only):
    from vf.prog import Gen
    g = Gen(prng, rt_safe=rt_safe, nrt_only=nrt_only,
            features=('cond', 'flow', 'tempo', 'condx', 'embed'))
    g.cond_heavy = True
    return g.program()


def run_cond_nrt(spec, acc):
    from vf.prog import Run
    from sc3.base.main import main
    for i in iter_cases(spec):
        prng = case_rng(spec['seed'], 'C11', 'cond', i)
        prog = gen_cond_prog(prng, rt_safe=False, nrt_only=True)
        main.reset()
        r = Run(prog, 'nrt', tag=i)
        try:
            r.start()
            main.process()
        except Exception as e:
            acc.violation(f'C11/nrt-process-raised/{type(e).__name__}',
                          {'case': i, 'program': prog, 'tb': short_tb(e)})
            continue
        hung = any(e[0] == 'wbegin' and e[4] for e in r.log)
        acc.case(h64(json.dumps(prog, sort_keys=True)), nontrivial=hung)
        acc.count('cond_programs_nrt')
        if main.current_tt is not main.main_tt:
            acc.violation('C11/current-thread-not-restored/after-process', {'case': i})
            main.current_tt = main.main_tt
        check_cond_log(r, acc, 'nrt', prog, i)
        if acc.want_sample() and hung and len(json.dumps(prog)) < 800:
            acc.sample({'case': i, 'cond_program': prog, 'log_head': r.log[:10]})


def run_cond_rt(spec, acc):
    import sys
    from vf.prog import Run
    from vf.inject import Injector
    from vf.props.C08 import clock_codes
    from sc3.base.main import main
    from sc3.base import stream as stm
    from vf.inject import func_code
    cfg = spec['shard']
    seed = derive_seed(spec['seed'], 'C11', cfg['name'], spec.get('attempt', 0))
    codes = clock_codes() + [func_code(stm.Condition.signal),
                             func_code(stm.Condition.unhang),
                             func_code(stm.Condition.wait)]
    inj = Injector(codes, seed)
    inj.p_yield = cfg['p_yield']
    inj.start()
    if cfg['p_yield']:
        sys.setswitchinterval(5e-5)
    t_end = time.time() + cfg['secs']
    case = 0
    try:
        while time.time() < t_end:
            done_ev = threading.Event()
            left = [cfg['batch']]
            lock = threading.Lock()

            def on_done(run):
                with lock:
                    left[0] -= 1
                    if left[0] == 0:
                        done_ev.set()
            runs = []
            for _ in range(cfg['batch']):
                prng = random.Random(derive_seed(seed, 'prog', case))
                prog = gen_cond_prog(prng, rt_safe=True, nrt_only=False)
                r = Run(prog, 'rt', on_done, tag=case)
                r.external_release = True
                runs.append((r, prog))
                case += 1
            for r, _ in runs:
                r.start()
            # releases from outside (a plain thread): conditions flagged external
            def outside():
                orng = random.Random(seed + case)
                for _ in range(6):
                    time.sleep(orng.uniform(0.005, 0.03))
                    for r, prog in runs:
                        for c in prog.get('external_conds', []):
                            if c in r.conds and orng.random() < 0.5:
                                r.release_from_outside(c)
            th = threading.Thread(target=outside, daemon=True)
            th.start()
            done_ev.wait(8.0)
            th.join(2)
            # final releases so that nothing hangs because of the random thread
            for r, prog in runs:
                for c in prog.get('external_conds', []):
                    if c in r.conds:
                        r.release_from_outside(c, final=True)
            done_ev.wait(2.0)
            with main._main_lock:
                snap = [(r, p, r.done) for r, p in runs]
            for r, prog, fin in snap:
                hung = any(e[0] == 'wbegin' and e[4] for e in r.log)
                acc.case(h64(json.dumps(prog, sort_keys=True)), nontrivial=hung)
                acc.count('cond_programs_rt')
                if not fin:
                    acc.count('cond_programs_rt_unfinished')
                check_cond_log(r, acc, 'rt', prog, r.tag)
                r.stop_clocks()
    finally:
        inj.stop()
    acc.count('injected_yields', inj.injected)


# ---------------------------------------------------------------------------
# (c) next() from several threads at once: linearisable against the model
# ---------------------------------------------------------------------------

def run_fsm_mt(spec, acc):
    """2-4 plain threads call next() on one routine - or on 2-3 independent
    routines at the same time - concurrently (random yields
    injected at the statement boundaries of Routine.next).  Whatever the
    interleaving, the routine must behave as if the calls happened one after
    the other: every value is produced exactly once, in order, the terminal
    transition happens once, and afterwards every call sees the terminal
    behaviour; the body is never restarted."""
    import sys
    from sc3.base.main import main
    from sc3.base import stream as stm
    from vf.inject import Injector, func_code
    inj = Injector([func_code(stm.Routine.next)], spec['seed'])
    inj.p_yield = 0.25
    inj.max_sleep = 0.0003
    inj.start()
    sys.setswitchinterval(2e-5)

    class VfErr(Exception):
        pass
    try:
        for i in iter_cases(spec):
            rng = case_rng(spec['seed'], 'C11', 'mt', i)
            # one routine shared by all threads, or 2-3 independent routines
            # driven at the same time (each still shared by >= 1 thread): a
            # body must always find itself as the library's current thread
            nrout = rng.choice([1, 1, 2, 3])
            nthreads = rng.randint(max(2, nrout), 4)
            routs = []
            ctxbad = []
            for q in range(nrout):
                n = rng.randint(0, 6)
                end = rng.choice(['return', 'raise', 'always'])
                started = [0]
                cell = []

                def body(n=None, q=q, nn=n, end=end, started=started, cell=cell):
                    started[0] += 1
                    for k in range(nn):
                        if main.current_tt is not cell[0]:
                            ctxbad.append((q, k, repr(main.current_tt)))
                        yield ('v', k)
                    if main.current_tt is not cell[0]:
                        ctxbad.append((q, 'end', repr(main.current_tt)))
                    if end == 'raise':
                        raise VfErr('vf')
                    if end == 'always':
                        raise stm.AlwaysYield('T')
                r = stm.Routine(body)
                cell.append(r)
                routs.append(dict(r=r, n=n, end=end, started=started, threads=[]))
            calls = max(x['n'] for x in routs) + 6
            outs = [[] for _ in range(nthreads)]
            go = threading.Event()
            for t in range(nthreads):
                routs[t % nrout]['threads'].append(t)

            def worker(t):
                r = routs[t % nrout]['r']
                go.wait()
                for _ in range(calls):
                    try:
                        outs[t].append(('ok', r.next()))
                    except stm.StopStream:
                        outs[t].append(('stop',))
                    except VfErr:
                        outs[t].append(('err',))
                    except BaseException as e:      # noqa
                        outs[t].append(('other', type(e).__name__))
            ths = [threading.Thread(target=worker, args=(t,), daemon=True)
                   for t in range(nthreads)]
            for t in ths:
                t.start()
            go.set()
            for t in ths:
                t.join(20)
            acc.count('mt_histories')
            acc.count('mt_histories_several_routines', int(nrout > 1))
            acc.count('mt_concurrent_next_calls', nthreads * calls)
            bad = None
            if any(t.is_alive() for t in ths):
                bad = ('next-hangs', 'a thread did not finish')
            elif ctxbad:
                bad = ('body-not-the-current-thread', repr(ctxbad[:3]))
            for X in ([] if bad else routs):
                n, end, started, r = X['n'], X['end'], X['started'], X['r']
                mine = [outs[t] for t in X['threads']]
                allo = [o for lst in mine for o in lst]
                vals = [o[1] for o in allo if o[0] == 'ok' and o[1] != 'T']
                if sorted(vals, key=repr) != sorted([('v', k) for k in range(n)], key=repr):
                    bad = ('values-not-exactly-once',
                           f'values seen {sorted(vals, key=repr)} expected v0..v{n - 1}')
                elif started[0] != 1:
                    bad = ('body-restarted', f'body started {started[0]} times')
                elif any(o[0] == 'other' for o in allo):
                    bad = ('unexpected-exception',
                           repr([o for o in allo if o[0] == 'other'][:3]))
                else:
                    for lst in mine:
                        ks = [o[1][1] for o in lst if o[0] == 'ok' and o[1] != 'T']
                        if ks != sorted(ks):
                            bad = ('per-thread-order', repr(lst))
                            break
                        # terminal behaviour never followed by a value
                        seen_end = False
                        for o in lst:
                            if o[0] in ('stop', 'err') or o == ('ok', 'T'):
                                seen_end = True
                            elif seen_end:
                                bad = ('value-after-terminal', repr(lst))
                                break
                    nerr = sum(1 for o in allo if o[0] == 'err')
                    nT = sum(1 for o in allo if o == ('ok', 'T'))
                    nstop = sum(1 for o in allo if o[0] == 'stop')
                    total = len(mine) * calls
                    if not bad:
                        if end == 'raise' and nerr != 1:
                            bad = ('failure-not-exactly-once', f'{nerr} calls saw the error')
                        elif end == 'always' and (nstop or nT != total - n):
                            bad = ('terminal-value-not-constant',
                                   f'{nT} terminal values, {nstop} StopStream, '
                                   f'{total - n} expected')
                        elif end != 'always' and nT:
                            bad = ('terminal-value-unexpected', f'{nT}')
                        elif end != 'always' and nstop + nerr != total - n:
                            bad = ('stop-count', f'{nstop}+{nerr} != {total - n}')
                if not bad and r.state.name != 'Done':
                    bad = ('final-state', r.state.name)
                if bad:
                    break
            if not bad and main.current_tt is not main.main_tt:
                bad = ('current-thread-not-restored', repr(main.current_tt))
            if bad:
                acc.violation(f'C11/concurrent-next/{bad[0]}',
                              {'case': i, 'routines': [(x['n'], x['end'], x['threads'])
                                                       for x in routs],
                               'threads': nthreads,
                               'why': bad[1], 'outcomes': [repr(x)[:300] for x in outs]})
                main.current_tt = main.main_tt
            n = max(x['n'] for x in routs)
            acc.case(h64(('mt', [(x['n'], x['end']) for x in routs], nthreads, i % 50)),
                     nontrivial=n >= 2)
            if acc.want_sample() and n >= 2:
                acc.sample({'case': i, 'mt': {'routines': [(x['n'], x['end']) for x in routs],
                                              'threads': nthreads},
                            'outcomes_thread0': [repr(x) for x in outs[0][:6]]})
    finally:
        inj.stop()
    acc.count('injected_yields', inj.injected)


# ---------------------------------------------------------------------------
# (d) a release that fails half way (fault sequences)
# ---------------------------------------------------------------------------

def run_cond_fault(spec, acc):
    """Several routines, on SystemClock and on TempoClocks, wait on one
    condition (gate); each one then waits on a second condition whose test
    never holds and that nobody signals.  Some of the TempoClocks are stopped
    while their routines wait, so a release of the gate raises ClockNotRunning
    after part of the waiters were rescheduled.  The caller retries (signal /
    unhang, from a plain thread or from inside a task).  Whatever the faults: no
    waiter is resumed twice for one wait - seen as falling through the second
    wait although its condition never held - and every waiter whose clock runs
    is resumed once, whether it queued before or behind the failing one."""
    from sc3.base.main import main
    from sc3.base import clock as clk, stream as stm
    from sc3.base.functions import Function
    t_stop = time.time() + spec['shard']['secs']
    for i in iter_cases(spec):
        if time.time() > t_stop:
            break
        rng = case_rng(spec['seed'], 'C11', 'cfault', i)
        n = rng.randint(2, 6)
        flags = {'g': False}
        gate = stm.Condition(lambda: flags['g'])
        other = stm.Condition(lambda: False)
        # half of the cases: the gate is a FlowVar (a value assignment releases)
        use_flow = rng.random() < 0.5
        fv = stm.FlowVar()
        tcs = [clk.TempoClock(rng.choice([1, 2, 4])) for _ in range(rng.randint(1, 2))]
        log = []

        def mk(k):
            def body():
                log.append(('wbegin', k))
                if use_flow:
                    v = yield from fv.value
                    log.append(('gate', k, v))
                else:
                    yield from gate.wait()
                    log.append(('gate', k, None))
                yield from other.wait()
                log.append(('other', k))
            return stm.Routine(body)
        where = [rng.choice([-1] + list(range(len(tcs)))) for _ in range(n)]
        if all(w == -1 for w in where):
            where[rng.randrange(1, n)] = 0
        ok = True
        for k in range(n):
            mk(k).play(clk.SystemClock if where[k] < 0 else tcs[where[k]], 0)
            t0 = time.time()
            while ('wbegin', k) not in log and time.time() - t0 < 3:
                time.sleep(0.002)
            ok = ok and ('wbegin', k) in log
        if not ok:
            acc.count('fault_cases_setup_incomplete')
            for c in tcs:
                c.stop()
            continue
        stopped = [c for c in range(len(tcs)) if rng.random() < 0.7]
        if not any(where[k] in stopped for k in range(n)):
            stopped = sorted({w for w in where if w >= 0})[:1]
        for c in stopped:
            tcs[c].stop()
            t0 = time.time()
            while tcs[c].running() and time.time() - t0 < 3:
                time.sleep(0.002)
        attempts = []

        def release(how):
            flags['g'] = True
            try:
                if use_flow:
                    how = 'assign'
                    fv.value = 40 + len(attempts)    # only the first one binds
                else:
                    getattr(gate, how)()
                attempts.append((how, None))
            except Exception as e:      # noqa
                attempts.append((how, type(e).__name__))
        for a in range(rng.randint(2, 4)):
            how = rng.choice(['signal', 'signal', 'unhang'])
            if rng.random() < 0.5:
                release(how)
            else:
                def from_task(how):
                    def f():
                        release(how)
                    return Function(f)
                clk.SystemClock.sched(0, from_task(how))
            time.sleep(rng.choice([0.01, 0.03]))
        if use_flow:
            # a late reader gets the value that was bound, at once
            def late():
                v = yield from fv.value
                log.append(('late', v))
            stm.Routine(late).play(clk.SystemClock)
        time.sleep(0.12)
        if not use_flow:
            # (bounded wait, ends as soon as every waiter that must go on has)
            fb = min([k for k in range(n) if where[k] in stopped], default=n)
            need = [k for k in range(n) if k < fb or (k > fb and where[k] not in stopped)]
            t_w = time.time() + 20.0
            while time.time() < t_w and not all(
                    any(e[0] == 'gate' and e[1] == k for e in list(log)) for k in need):
                time.sleep(0.01)
        if use_flow:
            # (bounded wait instead of a fixed one: on a loaded host the clock thread
            # may need longer than 0.12 s to serve the late reader)
            t_late = time.time() + 20.0
            while time.time() < t_late and not any(e[0] == 'late' for e in list(log)):
                time.sleep(0.01)
        with main._main_lock:
            got = list(log)
        for c in tcs:
            try:
                c.stop()
            except Exception:
                pass
        failed = [a for a in attempts if a[1]]
        acc.count('fault_cases')
        acc.count('fault_release_attempts', len(attempts))
        acc.count('fault_release_attempts_that_raised', len(failed))
        acc.case(h64(('cfault', where, stopped, [a[0] for a in attempts])),
                 nontrivial=bool(failed))
        w = {'case': i, 'waiters_on': where, 'stopped_clocks': stopped,
             'attempts': attempts, 'log': got}
        tag = 'after-failed-release' if failed else 'plain'
        first_bad = min([k for k in range(n) if where[k] in stopped], default=n)
        if use_flow:
            acc.count('fault_cases_flowvar')
            vals = [e[2] for e in got if e[0] == 'gate'] + [e[1] for e in got if e[0] == 'late']
            late_seen = [e for e in got if e[0] == 'late']
            rebinds = [a for a in attempts[1:] if a[1] is None]
            what = None
            if any(v != 40 for v in vals):
                what = 'waiter-resumed-with-a-value-that-was-not-assigned-first'
            elif rebinds:
                what = 'rebind-accepted'
            elif not late_seen:
                what = 'late-reader-hangs-although-bound'
            if what:
                acc.violation(f'C11/flowvar/{what}/{tag}', dict(w, values=repr(vals)[:200]))
                continue
        for k in range(n):
            ng = sum(1 for e in got if e[0] == 'gate' and e[1] == k)
            acc.count('fault_waiters_checked')
            if ('other', k) in got:
                acc.violation(f'C11/waiter-resumed-before-condition-holds/{tag}',
                              dict(w, waiter=k))
                break
            if ng > 1:
                acc.violation(f'C11/waiter-resumed-twice/{tag}', dict(w, waiter=k))
                break
            if k < first_bad and ng != 1:
                acc.violation(f'C11/waiter-never-resumed-after-release/{tag}',
                              dict(w, waiter=k))
                break
            if k > first_bad and where[k] not in stopped:
                # behind the failing waiter in the queue, on a clock that runs:
                # the condition holds and was signalled (the caller even
                # retried), so it resumes - once
                acc.count('fault_waiters_behind_failure_checked')
                if ng != 1:
                    acc.violation(
                        'C11/waiter-never-resumed-after-release/behind-failing-waiter',
                        dict(w, waiter=k))
                    break
        if main.current_tt is not main.main_tt:
            acc.violation('C11/current-thread-not-restored/after-failed-release', w)
            main.current_tt = main.main_tt


# ---------------------------------------------------------------------------
# (e) pause / resume and stop / reset / play of a routine that plays on a clock
# ---------------------------------------------------------------------------

def run_cond_race(spec, acc):
    """A signal issued by another operating-system thread while a routine is in
    the middle of `Condition.wait()`.  The condition's test is user code that
    takes its time: on the evaluation made by `wait()` it lets a plain thread
    (or the task of another clock) go, which makes the condition true and calls
    `signal()` / `unhang()`; the test then returns what it read at its start
    (false).  "Resumes exactly once after the condition holds and is signalled":
    the signal cannot have come too early for the waiter - either the waiter is
    queued when the signal runs, or the signal waits for it - so the routine
    must resume (once) within a generous bound.  FlowVar variant: the value is
    assigned by the other thread while yield injection runs on `Condition.wait`
    (no user code runs inside a FlowVar's wait)."""
    from sc3.base.main import main
    from sc3.base import clock as clk, stream as stm
    from sc3.base.functions import Function
    from vf.inject import Injector, func_code
    t_stop = time.time() + spec['shard']['secs']
    inj = Injector([func_code(stm.Condition.wait), func_code(stm.Condition.signal),
                    func_code(stm.Condition.unhang), func_code(clk.AppClock._run),
                    func_code(clk.AppClock.sched)], spec['seed'])
    inj.p_yield = 0.3
    inj.start()
    tc = clk.TempoClock(2.0)
    try:
        for i in iter_cases(spec):
            if time.time() > t_stop:
                break
            rng = case_rng(spec['seed'], 'C11', 'crace', i)
            how = rng.choice(['signal', 'signal', 'unhang', 'flow'])
            who = rng.choice(['thread', 'thread', 'SystemClock', 'AppClock'])
            # (a waiter on AppClock is re-scheduled there by the release: the
            # clock's own sleep / wake hand-shake is part of "resumes once")
            wclock = rng.choice([clk.SystemClock, tc, clk.AppClock])
            st = {'flag': False, 'evals': 0}
            go = threading.Event()
            resumed = []
            hold = rng.choice([0.002, 0.01, 0.03])

            def test():
                v = st['flag']
                st['evals'] += 1
                if not v and not go.is_set():
                    go.set()            # the signalling side may run now ...
                    time.sleep(hold)    # ... while this evaluation is still under way
                return v
            cond = stm.Condition(test)
            fv = stm.FlowVar()

            def body():
                if how == 'flow':
                    go.set()
                    v = yield from fv.value
                    resumed.append(('flow', v))
                else:
                    yield from cond.wait()
                    resumed.append(('cond', st['flag']))
                yield 0
                resumed.append(('after',))
            r = stm.Routine(body)
            err = []

            def release():
                try:
                    if how == 'flow':
                        fv.value = 7
                    else:
                        st['flag'] = True
                        getattr(cond, how)()
                except Exception as e:      # noqa
                    err.append(repr(e))

            def release_task():     # (no parameters: arguments go by count)
                release()

            def releaser():
                if not go.wait(30.0):
                    err.append('wait() never evaluated the test')
                    return
                if who == 'thread':
                    release()
                else:
                    getattr(clk, who).sched(0, Function(release_task))
            th = threading.Thread(target=releaser, daemon=True, name='vf-releaser')
            th.start()
            r.play(wclock, 0) if wclock is tc else r.play(wclock)
            # bounded progress: 30 s on any host (the loop ends as soon as the
            # waiter went on; thorough at a load of ten processes per core once
            # needed more than the 3 s / 5 s this started with)
            t_end = time.time() + 30.0
            while len(resumed) < 2 and time.time() < t_end:
                time.sleep(0.002)
            th.join(1.0 if len(resumed) >= 2 else 31.0)
            acc.count('cond_race_cases')
            acc.count(f'cond_race/{how}/from-{who}')
            acc.case(h64(('crace', i)), nontrivial=True)
            with main._main_lock:
                got = list(resumed)
            wit = {'case': i, 'how': how, 'from': who, 'hold_s': hold, 'resumed': got,
                   'test_evaluations': st['evals'], 'errors': err,
                   'clock': 'SystemClock' if wclock is clk.SystemClock else
                   'AppClock' if wclock is clk.AppClock else 'TempoClock'}
            acc.count('cond_race_waiter_on/' + wit['clock'])
            if err:
                acc.violation(f'C11/cond-race/release-raised/{how}', wit)
            elif not got:
                acc.violation(f'C11/waiter-not-resumed-after-signal/concurrent-{how}/from-{who}',
                              wit)
            elif len(got) != 2 or (how != 'flow' and got[0] != ('cond', True)) \
                    or (how == 'flow' and got[0] != ('flow', 7)):
                acc.violation(f'C11/cond-race/wrong-resumption/{how}', wit)
            else:
                acc.count('cond_race_resumed_once')
            r.stop()
    finally:
        inj.stop()
        tc.stop()
    acc.count('injected_yields', inj.injected)


def run_cond_ctl(spec, acc):
    """A routine parked on a Condition / FlowVar while another routine applies
    pause, resume, play (of the paused waiter), signals with the test false,
    signals with the test true, unhang and value assignment to it, in any order
    (NRT: deterministic; the operations are one tick apart).  Reference: the
    waiter may go on only after a release (signal with the test true, unhang,
    value assignment) issued since it parked - "never before"; once released it
    goes on exactly once, as soon as it is not paused - at the release if it is
    not paused then, at the resume / play otherwise; it never goes on twice."""
    from sc3.base.main import main
    from sc3.base import clock as clk, stream as stm
    for i in iter_cases(spec):
        rng = case_rng(spec['seed'], 'C11', 'cctl', i)
        main.reset()
        use_flow = rng.random() < 0.4
        onclock = rng.choice(['SystemClock', 'TempoClock', 'AppClock'])
        n = rng.randint(2, 7)
        ops = []
        for _ in range(n):
            ops.append(rng.choice(['pause', 'resume', 'resume', 'play', 'sig0', 'release',
                                   'pause', 'resume']))
        if 'release' not in ops and rng.random() < 0.7:
            ops.insert(rng.randint(0, len(ops)), 'release')
        if use_flow and 'release' in ops and rng.random() < 0.5:
            ops.insert(rng.randint(ops.index('release') + 1, len(ops)), 'release')   # refused
        ops.append('resume')            # a paused waiter is let go at the end
        how_rel = rng.choice(['signal', 'unhang']) if not use_flow else 'value'
        flag = [False]
        # the test is given to the constructor or set afterwards, a callable or a
        # constant (documented: "test: a boolean or a callable"), in every order
        test_style = rng.choice(['ctor-callable', 'ctor-callable', 'const-then-callable',
                                 'callable-then-const', 'const-only'])
        const_test = test_style in ('callable-then-const', 'const-only')
        if test_style == 'ctor-callable':
            cond = stm.Condition(lambda: flag[0])
        elif test_style == 'const-then-callable':
            cond = stm.Condition(False)
            cond.test = lambda: flag[0]
        elif test_style == 'callable-then-const':
            cond = stm.Condition(lambda: flag[0])
            cond.test = False
        else:
            cond = stm.Condition(False)
        fv = stm.FlowVar()
        log = []
        box = {}
        # the value may be any object, also one of the library's own whose
        # comparison operators are lifted (a routine, a pattern, a function)
        from sc3.base.functions import Function as _Fn
        fv_kind = rng.choice(['int', 'int', 'none', 'tuple', 'routine', 'pattern', 'function',
                              'zero', 'false'])
        if fv_kind == 'pattern':
            from sc3.seq.patterns.listpatterns import Pseq as _Pseq
        fv_val = {'int': 5, 'none': None, 'tuple': (1, 2), 'zero': 0, 'false': False}.get(fv_kind) \
            if fv_kind in ('int', 'none', 'tuple', 'zero', 'false') else \
            stm.Routine(lambda: None) if fv_kind == 'routine' else \
            _Fn(lambda: 1) if fv_kind == 'function' else _Pseq([1, 2])

        def setup():
            clock = {'SystemClock': clk.SystemClock, 'AppClock': clk.AppClock}.get(onclock) \
                or clk.TempoClock(2)
            box['clock'] = clock

            def body():
                log.append(('parked',))
                if use_flow:
                    v = yield from fv.value
                    log.append(('went-on', v is fv_val))
                else:
                    yield from cond.wait()
                    log.append(('went-on', flag[0]))
                yield 0
                log.append(('next-step',))
            r = stm.Routine(body)
            box['r'] = r
            r.play(clock, 0) if onclock == 'TempoClock' else r.play(clock)

            def ctrl():
                yield 1
                for op in ops:
                    try:
                        if op == 'pause':
                            r.pause()
                        elif op == 'resume':
                            r.resume()
                        elif op == 'play':
                            r.play(clock, 0) if onclock == 'TempoClock' else r.play(clock)
                        elif op == 'sig0':
                            if not use_flow:
                                cond.signal()       # test false: releases nobody
                        else:
                            if use_flow:
                                fv.value = fv_val
                            else:
                                if how_rel == 'signal':
                                    flag[0] = True
                                    if const_test:
                                        cond.test = True
                                getattr(cond, how_rel)()
                        log.append(('op', op, 'ok'))
                    except Exception as e:      # noqa (refusals are legal answers)
                        log.append(('op', op, type(e).__name__))
                    yield 1
                log.append(('ctrl-done',))
            stm.Routine(ctrl).play(clk.SystemClock)
        stm.Routine(_once(setup)).play(clk.SystemClock)
        try:
            main.process()
        except Exception as e:      # noqa
            acc.violation(f'C11/cond-control/process-raised/{type(e).__name__}',
                          {'case': i, 'ops': ops, 'tb': short_tb(e)})
            continue
        acc.count('cond_control_cases')
        if not use_flow:
            acc.count('cond_control_test/' + test_style)
        if use_flow:
            acc.count('cond_control_flowvar_value/' + fv_kind)
        acc.count('cond_control_ops', len(ops))
        # judge the log
        released = False
        paused = False
        went = 0
        what = None
        seen_ops = []
        for e in log:
            if e[0] == 'op':
                seen_ops.append(e[1])
                if e[2] != 'ok':
                    continue
                if e[1] == 'pause':
                    paused = went == 0 or paused
                elif e[1] in ('resume', 'play'):
                    paused = False
                elif e[1] == 'release':
                    if not (use_flow and released):
                        released = True
            elif e[0] == 'went-on':
                went += 1
                if went > 1:
                    what = 'waiter-resumed-twice'
                elif use_flow and e[1] is not True:
                    what = 'flowvar-waiter-got-another-value-than-the-one-assigned/' + fv_kind
                elif not released:
                    ok_ops = [x[1] for x in log if x[0] == 'op' and x[2] == 'ok']
                    k = ok_ops.index('pause') if 'pause' in ok_ops else None
                    if k is not None and any(o in ('resume', 'play') for o in ok_ops[k + 1:]):
                        what = ('waiter-resumed-without-release/'
                                'paused-and-resumed-while-parked')
                    else:
                        what = 'waiter-resumed-without-release/other'
                    acc.count('cond_control_resumed_without_release')
                if what:
                    break
        if what is None and released and went == 0:
            what = 'waiter-never-resumed-after-release/' + (
                'released-while-paused' if 'pause' in seen_ops[:seen_ops.index('release')]
                else 'released-while-parked')
        acc.case(h64(('cctl', use_flow, onclock, tuple(ops), how_rel)),
                 nontrivial='pause' in ops and 'release' in ops)
        if released and went == 1 and what is None:
            acc.count('cond_control_resumed_once_after_release')
        if what:
            acc.violation(f'C11/cond-control/{what}',
                          {'case': i, 'ops': ops, 'release_by': how_rel, 'clock': onclock,
                           'flowvar': use_flow, 'log': log[:24]})


def run_pause_resume(spec, acc):
    """A routine yielding a constant delta plays on a real clock; a controller
    routine pauses and resumes it (or stops, resets and plays it again) between
    two of its wake-ups.  After resume() the routine continues where it was:
    every step exactly once, the first one at the logical time of the resume,
    the following ones one delta apart - never lost, never driven twice.  Real
    time and non real time."""
    from sc3.base.main import main
    from sc3.base import clock as clk, stream as stm
    nrt = spec['shard']['mode'] == 'nrt'
    mode = 'nrt' if nrt else 'rt'
    t_stop = time.time() + spec['shard']['secs']
    for i in iter_cases(spec):
        if time.time() > t_stop:
            break
        rng = case_rng(spec['seed'], 'C11', 'pr' + mode, i)
        if nrt:
            main.reset()
        ck = rng.choice(['SystemClock', 'TempoClock'])
        tempo = rng.choice([1, 2, 4, 8])
        d = 1 / 32                              # seconds between steps
        n = rng.randint(4, 8)
        how = rng.choice(['pause-resume', 'pause-resume', 'stop-reset-play'])
        gap = rng.choice([0, 1 / 128, 1 / 64, 3 / 64])     # pause length
        at = (rng.randint(1, n - 2) + rng.choice([0.25, 0.5, 0.75])) * d
        wakes, marks = [], {}
        box = {}

        def setup():
            clock = clk.SystemClock if ck == 'SystemClock' else clk.TempoClock(tempo)
            box['clock'] = clock
            dd = d if ck == 'SystemClock' else d * tempo        # beats

            def body():
                for k in range(n):
                    wakes.append((k, clk.SystemClock.seconds))
                    yield dd
            r = stm.Routine(body)
            box['r'] = r
            marks['start'] = clk.SystemClock.seconds
            r.play(clock, 0)

            def ctrl():
                yield at
                # (runs under the library lock: the step count cannot change here)
                marks['steps-before'] = len(wakes)
                if how == 'pause-resume':
                    r.pause()
                    yield gap
                    marks['resume'] = clk.SystemClock.seconds
                    r.resume(quant=0)
                else:
                    r.stop()
                    yield gap
                    r.reset()
                    marks['resume'] = clk.SystemClock.seconds
                    r.play(clock, 0)
                marks['ctrl-done'] = True
            stm.Routine(ctrl).play(clk.SystemClock)
        starter = stm.Routine(_once(setup))
        starter.play(clk.SystemClock)
        if nrt:
            try:
                main.process()
            except Exception as e:      # noqa
                acc.violation(f'C11/pause-resume/process-raised/{type(e).__name__}',
                              {'case': i, 'tb': short_tb(e)})
                continue
        else:
            t_end = time.time() + 20.0      # (ends as soon as the routine is done)
            while time.time() < t_end:
                time.sleep(0.02)
                with main._main_lock:
                    done = marks.get('ctrl-done') and box.get('r') is not None and \
                        box['r'].state.name == 'Done'
                if done:
                    break
            time.sleep(0.05)
        with main._main_lock:
            got = list(wakes)
            state = box['r'].state.name if 'r' in box else None
        if ck == 'TempoClock' and not nrt:
            box['clock'].stop()
        acc.count('pause_resume_cases')
        acc.case(h64(('pr', mode, ck, how, n, at, gap)), nontrivial=True)
        w = {'case': i, 'clock': ck, 'tempo': tempo, 'how': how, 'steps': n, 'at': at,
             'gap': gap, 'wakes': [(k, round(t - marks.get('start', 0), 9)) for k, t in got],
             'resume_at': round(marks.get('resume', 0) - marks.get('start', 0), 9),
             'state': state}
        ks = [k for k, _ in got]
        m = int(at / d) + 1                     # steps done before the controller acted
        if ck == 'TempoClock' and not nrt:
            # two clock threads: which of them is served first when both are due is
            # a matter of physical time (a late thread, a loaded host), so the
            # controller may find fewer or more steps done than the logical times
            # say; what it found is the reference (same clock or NRT: exact)
            m_seen = marks.get('steps-before', m)
            if m_seen != m:
                acc.count('pause_resume_rt_cross_thread_order_differs_from_logical')
            m = m_seen
        w['steps_before_controller'] = m
        exp_ks = list(range(n)) if how == 'pause-resume' else list(range(m)) + list(range(n))
        what = None
        if ks != exp_ks:
            what = 'steps-lost' if len(ks) < len(exp_ks) else \
                'steps-repeated' if len(ks) > len(exp_ks) else 'steps-differ'
        elif state != 'Done':
            what = 'not-done-at-the-end'
        else:
            ts = [t for _, t in got]
            for j in range(len(ts)):
                if j == m:
                    exp_t = marks['resume']
                elif j == 0:
                    exp_t = marks['start']
                else:
                    exp_t = ts[j - 1] + d
                if abs(ts[j] - exp_t) > 1e-9 * max(1.0, abs(exp_t)):
                    what = 'step-at-wrong-time'
                    w['step'] = j
                    break
        if what:
            acc.violation(f'C11/pause-resume/{what}/{how}/{mode}', w)


def _once(f):
    def g():
        f()
        return
        yield
    return g


def run_restart(spec, acc):
    from vf.c11_restart import run_restart as _rr
    return _rr(spec, acc, 'C11')


def run_shard(spec, acc):
    kind = spec['shard']['kind']
    if kind == 'pause-resume':
        return run_pause_resume(spec, acc)
    if kind == 'fsm-mt':
        return run_fsm_mt(spec, acc)
    if kind == 'cond-race':
        return run_cond_race(spec, acc)
    if kind == 'cond-ctl':
        return run_cond_ctl(spec, acc)
    if kind == 'restart':
        return run_restart(spec, acc)
    if kind == 'cond-fault':
        return run_cond_fault(spec, acc)
    if kind == 'fsm':
        run_fsm(spec, acc)
    elif kind == 'cond-nrt':
        run_cond_nrt(spec, acc)
    else:
        run_cond_rt(spec, acc)
