"""C18 real-time rig: delivers datagrams to the library's receive path
(`OscInterface._handle_request`, or a real loop-back UDP socket), waits for
the dispatch on SystemClock with a canary message, records every callback
invocation, every exception the library logged on the way, and counts logical
steps (sys.monitoring LINE events) of the OSC parser so that a non-terminating
parse is detected, reported and *aborted* instead of hanging the worker.

Imports sc3 lazily (inside Rig.__init__): the driver never imports this file.
"""

import collections
import logging
import socket
import sys
import threading
import time

from . import osc

CANARY = '/__vf/canary'


def tb_sites(exc, under='sc3'):
    """(file, qualified function) of the traceback frames inside the library,
    innermost last."""
    import os
    out = []
    tb = exc.__traceback__
    while tb is not None:
        code = tb.tb_frame.f_code
        if f'/{under}/' in code.co_filename:
            out.append((os.path.basename(code.co_filename), code.co_qualname))
        tb = tb.tb_next
    return out


def exc_name(exc):
    t = type(exc)
    return t.__name__ if t.__module__ == 'builtins' else f'{t.__module__}.{t.__name__}'


class Hang(BaseException):
    """Raised by the step monitor into a parse that exceeded its budget."""


class StepMonitor:
    """Counts LINE events in sc3.base._osclib per delivery (per thread).

    Bounds are logical: one activation of the bundle-element loop
    `_parse_contents` consumes at least the 4 size bytes per iteration, so no
    line of it can legitimately execute more than len/4 (+ slack) times; one
    activation of any other parser function passes over each byte at most
    once.  The activation that exceeds its bound names the hang.  A total step
    budget (linear in the size) is the backstop."""

    TOOL = 4

    def __init__(self, osclib):
        self.mon = sys.monitoring
        self.codes = set()
        for obj in vars(osclib).values():
            self._collect(obj, osclib.__name__)
        self.pc_code = osclib.OscBundle._parse_contents.__code__
        self.tls = threading.local()
        self.epoch = 0
        self.budget_pc = 0
        self.budget_all = 0
        self.hangs = []
        self.total = 0
        self.max_pc = 0
        self.lock = threading.Lock()
        self.arm(256)           # never without a budget
        try:
            self.mon.use_tool_id(self.TOOL, 'vf-c18')
        except ValueError:
            pass
        self.mon.register_callback(self.TOOL, self.mon.events.LINE, self._cb)
        for c in self.codes:
            self.mon.set_local_events(self.TOOL, c, self.mon.events.LINE)

    def _collect(self, obj, modname):
        if getattr(obj, '__module__', None) != modname:
            return
        if isinstance(obj, type):
            for v in vars(obj).values():
                f = getattr(v, '__func__', v)
                if isinstance(v, property):
                    f = v.fget
                if hasattr(f, '__code__'):
                    self.codes.add(f.__code__)
        elif hasattr(obj, '__code__'):
            self.codes.add(obj.__code__)

    def arm(self, nbytes):
        self.epoch += 1
        self.nbytes = nbytes
        # one activation of the element loop: <= one iteration per 4 bytes
        self.limit_pc = nbytes // 4 + 4
        # one activation of any other parser function: <= one pass per byte
        self.limit_any = nbytes + 16
        # backstop over the whole parse
        self.budget_all = 120 * nbytes + 6000

    def _cb(self, code, line):
        st = self.tls
        if getattr(st, 'epoch', None) != self.epoch:
            st.epoch = self.epoch
            st.pc = 0
            st.all = 0
            st.reported = False
            st.repeat = {}
            st.pc_max = 0
        st.all += 1
        # how often did *this activation* execute *this line*?  (frames are
        # kept alive by the dict until the next arm(), so ids are not reused)
        key = (sys._getframe(1), line)
        c = st.repeat.get(key, 0) + 1
        st.repeat[key] = c
        if code is self.pc_code:
            st.pc += 1
            if c > st.pc_max:
                st.pc_max = c
            limit = self.limit_pc
        else:
            limit = self.limit_any
        if c > limit:
            if not st.reported:
                st.reported = True
                self.hangs.append((code.co_qualname, c, self.epoch))
            raise Hang(f'{code.co_qualname} repeats a line {c} times for '
                       f'{self.nbytes} bytes')
        if st.all > self.budget_all:
            if not st.reported:
                st.reported = True
                self.hangs.append(('parser-total-steps', st.all, self.epoch))
            raise Hang('parser exceeded its total step budget')

    def harvest(self):
        """Line events of the calling thread in this epoch."""
        st = self.tls
        if getattr(st, 'epoch', None) == self.epoch:
            self.total += st.all
            self.max_pc = max(self.max_pc, st.pc_max)
            st.repeat = {}
            return st.all
        return 0


class _Capture(logging.Handler):
    def __init__(self, sink):
        super().__init__(level=logging.WARNING)
        self.sink = sink

    def emit(self, rec):
        exc = rec.exc_info[1] if rec.exc_info else None
        try:
            text = rec.getMessage()[:200]
        except Exception:
            text = str(rec.msg)[:200]
        self.sink.append({
            'logger': rec.name, 'level': rec.levelname, 'text': text,
            'exc': exc_name(exc) if exc is not None else None,
            'exc_str': str(exc)[:200] if exc is not None else None,
            'sites': tb_sites(exc) if exc is not None else []})


class _TraceCapture(logging.Handler):
    """Records of OscFunc.trace (INFO, 'OSC Message Received: ...')."""

    def __init__(self, sink):
        super().__init__(level=logging.INFO)
        self.sink = sink

    def emit(self, rec):
        if rec.levelno != logging.INFO:
            return
        try:
            text = rec.getMessage()
        except Exception:
            return
        if text.startswith('OSC Message Received:') and CANARY not in text:
            self.sink.append(text)


class _NoSteps:
    """Stand-in for StepMonitor where the sys.monitoring tool id is needed by
    the schedule injector (real-time shard): counts nothing."""
    hangs = ()
    total = 0
    max_pc = 0

    def arm(self, nbytes):
        pass

    def harvest(self):
        return 0


class Delivery:
    __slots__ = ('escaped', 'hangs', 't0', 't1', 'raw', 'inv', 'errs',
                 'canary_ok', 'canary_tries', 'steps', 'recv_port', 'sender',
                 'clock_step', 'send_error', 'traced', 'pred')

    def witness(self):
        return {'escaped': self.escaped, 'hangs': self.hangs,
                'raw': [(m, t) for m, t, a, p in self.raw][:8],
                'inv': [e[:3] for e in self.inv][:12],
                'errs': list(self.errs)[:4], 'canary_ok': self.canary_ok}


class Rig:
    def __init__(self, steps=True):
        from sc3.base.main import main
        from sc3.base import _osclib, _oscinterface
        self.main = main
        self.itf = main._osc_interface
        self.osci = _oscinterface
        self.inv = collections.deque()
        self.raw = collections.deque()
        self.errs = collections.deque()
        self.pred = collections.deque()   # (rid, position, name, value): template
                                          # predicate evaluations (c18_hist)
        self.on_invoke = None
        self.canary_ev = threading.Event()
        self.canary_seq = 0
        self.canaries_seen = collections.deque(maxlen=64)
        self.mon = StepMonitor(_osclib) if steps else _NoSteps()
        cap = _Capture(self.errs)
        for name in ('sc3.base.clock', 'sc3.base._oscinterface',
                     'sc3.base._osclib', 'sc3.base.responders'):
            lg = logging.getLogger(name)
            lg.setLevel(logging.ERROR)
            lg.addHandler(cap)
            lg.propagate = False
        # OscFunc.trace() dumps at INFO level through sc3.base.responders
        self.traced = collections.deque()
        lg = logging.getLogger('sc3.base.responders')
        lg.setLevel(logging.INFO)
        lg.addHandler(_TraceCapture(self.traced))
        self.server_addr = None
        main.add_osc_recv_func(self._raw_hook)
        # library's origin of elapsed time (unix seconds)
        self.init_time = getattr(main, '_init_time', None)
        if self.init_time is None:
            self.init_time = time.time() - main.elapsed_time()
        self.sock = None
        self.extra = {}          # port -> interface
        self._ports = {}         # id(interface) -> port its socket is bound to
        # the port datagrams for the library really arrive on: what the kernel
        # says the socket of the main interface is bound to - NOT what the
        # library keeps in its own bookkeeping (itf.port, NetAddr.lang_port()),
        # which is the value under test (it is handed to responders as
        # recv_port and compared with their recv_port filter)
        self.port = self.true_port(self.itf)
        self.port_book = self.itf.port
        self.lock_owned = 0
        self.lock_not_owned = 0

    # ---- observation --------------------------------------------------
    def _raw_hook(self, msg, time_, addr, port):
        if msg and msg[0] == CANARY:
            if len(msg) > 1:
                self.canaries_seen.append(msg[1])
            if len(msg) > 1 and msg[1] == self.canary_seq:
                self.canary_ev.set()
            return
        self.raw.append((list(msg), time_, (addr.hostname, addr.port), port))

    def _on_inv(self, rid, ver, msg, time_, addr, port):
        try:
            owned = self.main._main_lock._is_owned()
        except Exception:
            owned = None
        if owned:
            self.lock_owned += 1
        else:
            self.lock_not_owned += 1
        a = None if addr is None else (addr.hostname, addr.addr, addr.port)
        self.inv.append(('inv', rid, ver, list(msg), time_, a, port))
        if self.on_invoke is not None:
            self.on_invoke(rid)

    def make_cb(self, rid, ver, nparams=4):
        rig = self
        if nparams == 4:
            def cb(msg, time, addr, port):
                rig._on_inv(rid, ver, msg, time, addr, port)
        elif nparams == 3:
            def cb(msg, time, addr):
                rig._on_inv(rid, ver, msg, time, addr, None)
        elif nparams == 'var':
            def cb(*args):
                rig._on_inv(rid, ver, *args)
        elif nparams == 2:
            def cb(msg, time):
                rig._on_inv(rid, ver, msg, time, None, None)
        else:
            def cb(msg):
                rig._on_inv(rid, ver, msg, None, None, None)
        return cb

    def sink_server(self):
        """Points the default server's address at a socket of the harness (so
        that CmdPeriod.hard_run(), which sends to every local server whether
        it runs or not, talks to nobody else on this host) -> (ip, port)."""
        if self.server_addr is None:
            from sc3.synth.server import Server
            from sc3.base.netaddr import NetAddr
            self.sink = socket.socket(socket.AF_INET, socket.SOCK_DGRAM)
            self.sink.bind(('127.0.0.1', 0))
            self.sink.setblocking(False)
            self.server_addr = self.sink.getsockname()
            Server.default.addr = NetAddr(*self.server_addr)
        return self.server_addr

    def wait_sink(self, token, timeout):
        """Waits until the sink received a datagram containing token."""
        end = time.monotonic() + timeout
        while True:
            try:
                d, _ = self.sink.recvfrom(65536)
                if token in d:
                    return True
                continue
            except BlockingIOError:
                pass
            except (AttributeError, OSError):
                return False
            if time.monotonic() > end:
                return False
            time.sleep(0.0005)

    def drain_sink(self):
        n = 0
        try:
            while True:
                self.sink.recvfrom(65536)
                n += 1
        except (BlockingIOError, AttributeError, OSError):
            pass
        return n

    # ---- extra ports ----------------------------------------------------
    def open_port(self, near):
        """Opens an extra UDP receive port through the public API."""
        localhost = socket.gethostbyname('localhost')
        for k in range(40):
            port = near + k
            try:
                self.main.open_udp_port(port)
            except OSError:
                continue
            itf = self.osci.OscInterface._local_endpoints.get((localhost, port))
            if itf is not None:
                self.extra[port] = itf
                return port
        return None

    def interface(self, port):
        if port is None or port == self.port:
            return self.itf
        return self.extra[port]

    def true_port(self, itf):
        """Local port of the interface's socket according to the kernel
        (remembered: a closed socket cannot be asked any more)."""
        try:
            p = itf.socket.getsockname()[1]
            self._ports[id(itf)] = (itf, p)
            return p
        except OSError:
            return self._ports[id(itf)][1]

    # ---- contended ports (a port another program holds) -------------------
    def block_port(self):
        """Binds a UDP socket of the harness ('another program') to a free
        port of the address the library binds its receive ports to
        -> (port, socket)."""
        s = socket.socket(socket.AF_INET, socket.SOCK_DGRAM)
        s.bind((socket.gethostbyname('localhost'), 0))
        return s.getsockname()[1], s

    def adopt_port(self, port):
        """The library opened `port` itself (OscFunc(..., recv_port=port)):
        -> its interface, also known to interface() from now on."""
        itf = self.osci.OscInterface._local_endpoints.get(
            (socket.gethostbyname('localhost'), port))
        if not isinstance(itf, self.osci.OscUdpInterface):
            return None         # (a TCP connection of the library has that port)
        self.extra[port] = itf
        return itf

    def probe_port(self, port):
        """Does a datagram sent to `port` over loop-back UDP reach the receive
        functions?  (canary; three tries with growing patience)"""
        itf = self.extra.get(port)
        if itf is None:
            return None
        self.udp_client()
        for timeout in (1.0, 3.0, 15.0):
            # (the canary is parsed by the port's receive thread: give the
            # parser step monitor a budget for it - over UDP _canary() relies
            # on the one of the datagram under test, and there is none here)
            self.mon.arm(256)
            if self._canary(True, timeout, itf):
                return True
        return False

    def close_port(self, port):
        """Closes an extra port through the public API (waits for the receive
        thread to be running first: stop() of a not yet running interface does
        nothing) -> closed?"""
        itf = self.extra.pop(port, None)
        if itf is None:
            return False
        end = time.monotonic() + 2.0
        while not itf.running() and time.monotonic() < end:
            time.sleep(0.0002)
        self.main.close_udp_port(port)
        ok = (socket.gethostbyname('localhost'), port) not in \
            self.osci.OscInterface._local_endpoints
        return ok

    def udp_client(self):
        if self.sock is None:
            self.sock = socket.socket(socket.AF_INET, socket.SOCK_DGRAM)
            self.sock.bind(('127.0.0.1', 0))
        return self.sock.getsockname()

    # ---- delivery ------------------------------------------------------
    def _canary(self, udp, timeout, itf=None):
        itf = itf or self.itf
        self.canary_seq += 1
        self.canary_ev.clear()
        d = osc.enc_msg(CANARY, self.canary_seq)
        if not udp:
            # (over UDP the receive thread may still be parsing the datagram
            # under test: its budget stays armed and also covers the canary)
            self.mon.arm(len(d))
        if udp:
            # same socket as the datagram under test: one socket is FIFO
            self.sock.sendto(d, ('127.0.0.1', self.true_port(itf)))
        else:
            self.itf._handle_request(d, ('127.0.0.1', 9))
        return self.canary_ev.wait(timeout)

    def deliver(self, d, sender, port=None, udp=False):
        """One datagram through the receive path, then a canary; returns after
        the canary was dispatched (=> everything scheduled before it ran)."""
        self.inv.clear(); self.raw.clear(); self.errs.clear(); self.traced.clear()
        self.pred.clear()
        nh = len(self.mon.hangs)
        r = Delivery()
        r.sender = tuple(sender)
        r.escaped = None
        itf = self.interface(port)
        r.recv_port = self.true_port(itf)     # where it really arrives
        self.mon.arm(len(d) + (64 if udp else 0))
        r.steps = 0
        r.send_error = None
        w0, m0 = time.time(), time.monotonic()
        r.t0 = self.main.elapsed_time()
        if udp:
            try:
                self.sock.sendto(d, ('127.0.0.1', r.recv_port))
            except OSError as e:           # e.g. larger than a UDP datagram
                r.send_error = str(e)
        else:
            try:
                itf._handle_request(d, tuple(sender))
            except BaseException as e:      # noqa - anything escaping is the finding
                r.escaped = {'exc': exc_name(e), 'str': str(e)[:200],
                             'sites': tb_sites(e)}
            r.steps = self.mon.harvest()
        r.t1 = self.main.elapsed_time()
        ok = self._canary(udp, 10.0, itf)
        tries = 1
        while not ok and tries < 4:
            # (a canary is lost legitimately when a callback ran
            # CmdPeriod.run(), which clears the SystemClock queue; the last,
            # long wait separates a starved host from a dead receiver)
            ok = self._canary(udp, 3.0 if tries < 3 else 30.0, itf)
            tries += 1
        if udp:
            r.t1 = self.main.elapsed_time()
        w1, m1 = time.time(), time.monotonic()
        # sc3's elapsed time is time.time() based: a stepped host clock makes
        # time stamps and canary ordering meaningless for this delivery
        r.clock_step = abs((w1 - w0) - (m1 - m0)) > 0.005
        r.canary_ok = ok
        r.canary_tries = tries
        r.hangs = [h[:2] for h in self.mon.hangs[nh:]]
        r.raw = list(self.raw)
        r.inv = list(self.inv)
        r.errs = list(self.errs)
        r.traced = list(self.traced)
        r.pred = list(self.pred)
        return r

    # ---- helpers ---------------------------------------------------------
    def expected_time(self, timetag):
        """OSC timetag (NTP 32.32 fixed point since 1900) -> library elapsed
        seconds; None for 'immediately' (value 1) and plain messages."""
        if timetag is None or timetag == 1:
            return None
        return timetag / 4294967296.0 - 2208988800.0 - self.init_time

    def time_ok(self, got, timetag, t0, t1):
        exp = self.expected_time(timetag)
        if exp is None:
            return isinstance(got, float) and t0 - 1e-6 <= got <= t1 + 1e-6
        # float64 rounding of a ~4e9 s quantity: ~5e-7 s
        return isinstance(got, float) and abs(got - exp) <= 1e-5 + 1e-9 * abs(exp)


def same_value(a, b):
    """Equality of decoded OSC values, NaN == NaN, int/float kept apart."""
    if isinstance(a, list) and isinstance(b, list):
        return len(a) == len(b) and all(same_value(x, y) for x, y in zip(a, b))
    if isinstance(a, float) and isinstance(b, float):
        return a == b or (a != a and b != b)
    return type(a) is type(b) and a == b
