"""C17 entry points that no history shard enters (round 8, coverage survey).

Public methods of the anchored files that emit commands - or must emit none -
and were not reached by any workload: each case calls ONE of them against a
stand-in server (the `_send` recorder of the real-time interface answers
/status, /notify, /sync and /quit the way scsynth does and can be told to
answer a request of the case), and compares every datagram with a script
written from the Server Command Reference and the class documentation:

  Buffer.new_send_list        /b_alloc, sync, then /b_setn chunks of 1626
                              values (wait < 0: a sync after every chunk),
                              action(buffer) once, id from the allocator
  Buffer.send_list(wait=-1)   the sync-paced form of the streaming routine
  Buffer.new_load_list        data written to a float WAV file in the scratch
                              tmp dir, /b_allocRead id path 0 -1 [/b_query id];
                              after /b_info: action(buffer) once, file removed;
                              a non-local server: nothing sent, no id drawn
  Buffer.load_list            same with /b_read id path 0 -1 start 0 [/b_query id]
  Buffer.load_to_list         /b_write id path 'wav' 'float' count index 0, sync;
                              the stand-in writes the file the way libsndfile
                              does; action(list, buffer) gets its samples
  Buffer.get_to_list          /b_getn requests of at most 1633 values, answered
                              with /b_setn: action(list) once, every sample
  Node.register / unregister / on_free     emit nothing
  AbstractGroup.query_tree, Server.query_tree   /g_queryTree id flag (+ reply)
  Server.dump_tree            nothing while no server process runs
  RootNode                    one object per server, id 0; run / free /
                              move_* refuse (no command, with or without the
                              base class arguments); free_all, deep_free,
                              dump_tree, set, trace, query address node 0;
                              RootNode as target / free_all_roots
  Server.free_nodes           /g_freeAll 0, /clearSched, the default groups
                              again (/g_new id 0 0), sync, sync
  Server.free_default_group(all_users=True)   /g_freeAll for every default group
  Server.unregister / quit    (registered) /notify 0 clientID; /quit and
                              /g_freeAll 0; (not running) nothing
Not reached: Server.reboot / boot / quit of a real process (needs scsynth).
Waits are bounds that end in 'timeout' (no verdict), never in a key.
"""

import os
import struct
import threading
import time as _time

from vf import osc, cmdref, model_cmds as mc
from vf.c17_exec import Violation, Runner, Judge, _site, _show, _decode_blob
from vf.common import short_tb, tb_sites

GRID = [k / 64.0 for k in range(-64, 65)]            # float32 exact


class Wire:
    """`_send` recorder playing the server.  Datagrams that only ask for the
    status (alive routine) are counted and answered, never recorded."""

    def __init__(self, main):
        self.itf = itf = main._osc_interface
        self.calls = []
        self.status_seen = 0
        self.on_msg = []            # callables(msg, target) of the running case
        self.login_reply = None     # (clientID, maxLogins | None) of the next /notify 1
        self.lock = threading.Lock()

        def _send(msg, target):
            data = bytes(msg.dgram)
            try:
                msgs = cmdref.flatten(osc.decode(data))
            except osc.OscError:
                self.calls.append((data, target))
                return
            if msgs and all(mm.addr == '/status' for mm in msgs):
                self.status_seen += 1
                itf._handle_request(osc.enc_msg(
                    '/status.reply', 1, 0, 0, 2, 0, 0.5, 1.0, 48000.0, 48000.0), target)
                return
            self.calls.append((data, target))
            for mm in msgs:
                for h in list(self.on_msg):
                    h(mm, target)
                if mm.addr == '/sync' and mm.args:
                    itf._handle_request(osc.enc_msg('/synced', mm.args[0]), target)
                elif mm.addr == '/notify' and mm.args:
                    if mm.args[0] and self.login_reply is not None:
                        # the login shard dictates clientID [maxLogins]
                        cid, ml = self.login_reply
                        rep = ['/done', '/notify', cid] + ([ml] if ml is not None else [])
                        itf._handle_request(osc.enc_msg(*rep), target)
                    elif mm.args[0]:
                        itf._handle_request(osc.enc_msg(
                            '/done', '/notify',
                            mm.args[1] if len(mm.args) > 1 else 0, 1), target)
                    else:
                        itf._handle_request(osc.enc_msg('/done', '/notify'), target)
                elif mm.addr == '/quit':
                    itf._handle_request(osc.enc_msg('/done', '/quit'), target)
        itf._send = _send

    def reset(self):
        self.calls = []
        self.on_msg = []

    def packets(self):
        return [(osc.decode(b), t) for b, t in list(self.calls)]

    def inject(self, target, *msg):
        self.itf._handle_request(osc.enc_msg(*msg), target)


def wait_for(cond, secs):
    t0 = _time.time()
    while _time.time() - t0 < secs:
        if cond():
            return True
        _time.sleep(0.002)
    return bool(cond())


def register(server, wire, secs=15.0):
    """Registers with the stand-in (starts the real alive routine)."""
    done = []
    server.register(on_complete=lambda *a: done.append(1))
    ok = wait_for(lambda: done and server.status.server_running, secs)
    return bool(ok and server.status.alive_thread_running)


# ---------------------------------------------------------------------------
# generator (pure data)

KINDS = [('new_send_list', 3), ('send_list_sync', 2), ('new_load_list', 3),
         ('load_list', 3), ('load_to_list', 3), ('get_to_list', 3),
         ('node_watch', 3), ('query_tree', 3), ('dump_tree', 1), ('rootnode', 4),
         ('free_nodes', 1.5), ('free_default_group_all', 1.5)]


def gen_case(rng):
    names, w = zip(*KINDS)
    kind = rng.choices(names, w)[0]
    c = {'kind': kind}
    ch = rng.choice([1, 1, 2, 3])
    if kind in ('new_send_list', 'send_list_sync'):
        nchunks = rng.choice([1, 1, 2, 3])
        n = 1626 * (nchunks - 1) + rng.randint(1, 1626)
        if kind == 'send_list_sync' or rng.random() < 0.75:
            n -= n % ch             # else: a last frame that is not complete -
        n = max(n, ch)              # the new buffer still has to hold every sample
        c.update(n=n, channels=ch, values_seed=rng.getrandbits(32),
                 wait=rng.choice([-1, -1, 0, 0.002]) if kind == 'new_send_list' else -1,
                 start=rng.choice([0, 0, 5, 64]))
    elif kind in ('new_load_list', 'load_list'):
        n = rng.choice([rng.randint(1, 40), rng.randint(200, 700), 256, 512]) * ch
        c.update(n=n, channels=ch, values_seed=rng.getrandbits(32),
                 start=rng.choice([0, 0, 3, 100]),
                 remote=kind == 'new_load_list' and rng.random() < 0.15,
                 reply=rng.random() < 0.85)
    elif kind == 'load_to_list':
        frames = rng.randint(4, 600)
        index = rng.choice([0, 0, rng.randint(0, frames - 1)])
        count = rng.choice([-1, -1, rng.randint(1, frames - index)])
        c.update(frames=frames, channels=ch, index=index, count=count,
                 values_seed=rng.getrandbits(32),
                 extra_chunks=rng.random() < 0.6)
    elif kind == 'get_to_list':
        nreq = rng.choice([1, 1, 2, 3])
        total = 1633 * (nreq - 1) + rng.randint(1, 1633)
        index = rng.choice([0, 0, 7, 100])
        frames = -(-(total + index) // ch) + rng.choice([0, 8])
        c.update(frames=frames, channels=ch, index=index,
                 count=rng.choice([None, total]) if index == 0 and
                 frames * ch == total else total,
                 wait=rng.choice([-1, 0, 0.002]), values_seed=rng.getrandbits(32))
    elif kind == 'node_watch':
        c.update(cls=rng.choice(['Synth', 'Group', 'ParGroup']),
                 steps=[rng.choice(['register', 'register_flags', 'unregister',
                                    'on_free', 'on_free_noarg'])
                        for _ in range(rng.randint(1, 4))],
                 end=rng.random() < 0.6)
    elif kind == 'query_tree':
        c.update(on=rng.choice(['group', 'group', 'server', 'root']),
                 controls=rng.choice([True, False, 1, 0]),
                 reply=rng.random() < 0.7, children=rng.randint(0, 3))
    elif kind == 'dump_tree':
        c.update(controls=rng.choice([True, False]))
    elif kind == 'rootnode':
        ms = ['run', 'run_arg', 'free', 'free_arg', 'move_before', 'move_before_arg',
              'move_after', 'move_after_arg', 'move_to_head', 'move_to_head_arg',
              'move_to_tail', 'move_to_tail_arg', 'free_all', 'deep_free', 'dump_tree',
              'set', 'trace', 'query', 'identity', 'as_target_synth', 'as_target_group',
              'free_all_roots', 'query_tree']
        c.update(steps=[rng.choice(ms) for _ in range(rng.randint(2, 7))],
                 controls=rng.choice([True, False]),
                 value=rng.choice(GRID))
    return c


def case_nontrivial(c):
    k = c['kind']
    if k in ('new_send_list', 'send_list_sync', 'get_to_list'):
        return True
    if k == 'rootnode':
        return len(set(c['steps'])) >= 2
    if k == 'node_watch':
        return len(c['steps']) >= 2 or c['end']
    return True


# ---------------------------------------------------------------------------
# independent readers / writers for the data files

def parse_wav(path):
    """RIFF/WAVE reader written from the format description: returns
    (format_tag, channels, sample_rate, bits, samples)."""
    with open(path, 'rb') as f:
        b = f.read()
    if b[:4] != b'RIFF' or b[8:12] != b'WAVE':
        raise ValueError('no RIFF/WAVE header')
    riff_size, = struct.unpack_from('<I', b, 4)
    riff_ok = riff_size == len(b) - 8      # readers go by the chunk sizes
    i = 12
    fmt = data = None
    while i + 8 <= len(b):
        ck, n = b[i:i + 4], struct.unpack_from('<I', b, i + 4)[0]
        body = b[i + 8:i + 8 + n]
        if ck == b'fmt ':
            fmt = struct.unpack_from('<HHIIHH', body, 0)
        elif ck == b'data':
            if len(body) != n:
                raise ValueError('data chunk shorter than announced')
            data = body
        i += 8 + n + (n & 1)
    if fmt is None or data is None:
        raise ValueError('fmt or data chunk missing')
    tag, chans, rate, _bps, align, bits = fmt
    if tag != 3 or bits != 32:
        raise ValueError(f'not a 32 bit float file: tag {tag}, {bits} bits')
    if align != 4 * chans:
        raise ValueError(f'block align {align} for {chans} channels')
    return tag, chans, rate, riff_ok, list(struct.unpack(f'<{len(data) // 4}f', data))


def write_wav(path, samples, channels, rate, extra_chunks):
    """Float WAV the way libsndfile (scsynth) writes it: 'fmt ' (16 bytes),
    optionally 'fact' and 'PEAK' chunks, then 'data'."""
    data = struct.pack(f'<{len(samples)}f', *samples)
    fmt = struct.pack('<HHIIHH', 3, channels, rate, rate * channels * 4,
                      channels * 4, 32)
    chunks = b'fmt ' + struct.pack('<I', len(fmt)) + fmt
    if extra_chunks:
        chunks += b'fact' + struct.pack('<II', 4, len(samples) // channels)
        peak = struct.pack('<II', 1, 0) + b''.join(
            struct.pack('<fI', 1.0, 0) for _ in range(channels))
        chunks += b'PEAK' + struct.pack('<I', len(peak)) + peak
    chunks += b'data' + struct.pack('<I', len(data)) + data
    with open(path, 'wb') as f:
        f.write(b'RIFF' + struct.pack('<I', 4 + len(chunks)) + b'WAVE' + chunks)


# ---------------------------------------------------------------------------

class Ctx:
    def __init__(self, m, server, remote, wire, ledger, counters, tmp_dir):
        self.m = m
        self.server = server
        self.remote = remote
        self.wire = wire
        self.led = ledger
        self.count = counters
        self.tmp_dir = tmp_dir
        self.target = tuple(server.addr._target)
        self.runner = Runner(m, server, 'rt', None, ledger, counters)


SYNC = ('sync', None)


def fail(key, case, **w):
    wit = {'entry': case}
    wit.update(w)
    raise Violation(key, wit)


def compare(ctx, method, script, got, case, before):
    """script: ('msg', M) | ('bundle', [M, ..]) | ('sync', None)."""
    plain_got = [g.plain() for g, _t in got]
    if len(got) != len(script):
        mech = 'unexpected-message' if len(got) > len(script) else 'message-missing'
        fail(f'C17/method/{method}/{mech}', case,
             expected=[[k, mc.plain(p)] for k, p in script][:30], got=plain_got[:30])
    judge = Judge(ctx.runner, got, 'rt', ctx.count)
    rec = {'index': None, 'op': {'op': method}, 'before': before,
           'after': ctx.led.snapshot()}
    for (kind, p), (g, target) in zip(script, got):
        ctx.count('destinations_checked')
        if target is None or tuple(target) != ctx.target:
            fail('C17/wire/sent-to-wrong-address', case, target=list(target or ()),
                 expected=list(ctx.target), method=method)
        msgs = cmdref.flatten(g)
        if kind == 'sync':
            if len(msgs) != 1 or msgs[0].addr != '/sync' or len(msgs[0].args) != 1 \
                    or not isinstance(msgs[0].args[0], int):
                fail(f'C17/method/{method}/sync-point-missing', case,
                     got=g.plain(), all=plain_got[:30])
            ctx.count('entry_sync_points_observed')
            continue
        if kind == 'msg':
            if not isinstance(g, osc.Msg):
                fail(f'C17/method/{method}/message-sent-as-bundle', case, got=g.plain())
            want = [p]
        else:
            if not isinstance(g, osc.Bundle):
                fail(f'C17/method/{method}/bundle-sent-as-message', case, got=g.plain())
            want = p
        if len(want) != len(msgs):
            fail(f'C17/method/{method}/' + ('unexpected-message' if len(msgs) > len(want)
                                            else 'message-missing'), case,
                 expected=mc.plain(want), got=g.plain())
        for w, mm in zip(want, msgs):
            r = mc.match_message(w, mm, _decode_blob)
            if r:
                fail(f'C17/method/{method}/{r}', case, expected=_clipm(mc.plain(w)),
                     got=_clipm(_show(mm)))
            try:
                judge.check_message(rec, mm)
            except Violation as v:
                v.witness['entry'] = case
                raise
            ctx.count('entry_messages_compared')


def _clipm(m, n=12):
    return m[:n] + [f'... {len(m) - n} more'] if len(m) > n else m


def ledger_is(ctx, method, case, ev0, want):
    ev = [e for e in ctx.led.events[ev0:]
          if e[1] == 'alloc' or (e[1] == 'free' and e[3] is not None)]
    got = [(e[0], e[1], e[2], e[3]) if e[1] == 'alloc' else (e[0], 'release', e[2])
           for e in ev]
    ctx.count('ledger_checks')
    if got != want:
        mech = ('id-not-from-allocator' if len(got) < len(want) else
                'unexpected-allocation' if len(got) > len(want) else
                'object-id-differs-from-allocated-id')
        fail(f'C17/ledger/{method}/{mech}', case, events=got, expected=want)


def library_call(method, case, f):
    """Runs the entry point; an exception is the method's fault."""
    try:
        return f()
    except Violation:
        raise
    except Exception as e:
        fail(f'C17/raises/{method}/{_site(e)}', case, tb=short_tb(e))


def new_buffer(ctx, case, frames, channels):
    """Setup: a plain buffer (its /b_alloc is judged by the history shards)."""
    b = library_call('Buffer.init', case, lambda: ctx.m.Buffer(frames, channels, ctx.server))
    ctx.wire.reset()
    return b


def values(case, n):
    import random
    vr = random.Random(case['values_seed'])
    return [vr.choice(GRID) for _ in range(n)]


def tmp_files(ctx):
    return sorted(os.listdir(ctx.tmp_dir))


def run_case(ctx, case):
    """None (held) | 'timeout' (no verdict); raises Violation."""
    kind = case['kind']
    r = globals()['case_' + kind](ctx, case)
    if r is None:
        ctx.count('entry_cases_checked')
        ctx.count(f'entry:{kind}')
    return r


def case_new_send_list(ctx, case):
    m, s, wire = ctx.m, ctx.server, ctx.wire
    n, ch, w = case['n'], case['channels'], case['wait']
    lst = values(case, n)
    done = threading.Event()
    seen = []
    before, ev0 = ctx.led.snapshot(), len(ctx.led.events)
    wire.reset()
    method = 'Buffer.new_send_list'
    buf = library_call(method, case, lambda: m.Buffer.new_send_list(
        lst, ch, s, w, lambda b: (seen.append(b), done.set())))
    if not done.wait(8.0):
        return 'timeout'
    _time.sleep(0.01)
    bufnum = buf.bufnum
    frames = -(-n // ch)
    script = [('msg', ['/b_alloc', bufnum, frames, ch, mc.Comp(None)]), SYNC]
    for pos in range(0, n, 1626):
        sub = lst[pos:pos + 1626]
        script.append(('msg', ['/b_setn', bufnum, pos, len(sub)] + [mc.Num(v) for v in sub]))
        if w < 0:
            script.append(SYNC)
    compare(ctx, method, script, wire.packets(), case, before)
    ledger_is(ctx, method, case, ev0, [('buffer', 'alloc', 1, bufnum)])
    if len(seen) != 1 or seen[0] is not buf:
        fail(f'C17/method/{method}/action-not-called-once-with-the-buffer', case,
             calls=len(seen))
    if (buf.frames, buf.channels) != (frames, ch):
        fail(f'C17/method/{method}/object-differs-from-creation-command', case,
             frames=buf.frames, channels=buf.channels)
    ctx.count('entry_stream_chunks_compared', -(-n // 1626))


def case_send_list_sync(ctx, case):
    m, s, wire = ctx.m, ctx.server, ctx.wire
    n, ch, start = case['n'], case['channels'], case['start']
    lst = values(case, n)
    buf = new_buffer(ctx, case, n // ch + start + 4, ch)
    done = threading.Event()
    seen = []
    before, ev0 = ctx.led.snapshot(), len(ctx.led.events)
    method = 'Buffer.send_list(wait=-1)'
    library_call(method, case, lambda: buf.send_list(
        lst, start, -1, lambda b: (seen.append(b), done.set())))
    if not done.wait(8.0):
        return 'timeout'
    _time.sleep(0.01)
    script = []
    for pos in range(0, n, 1626):
        sub = lst[pos:pos + 1626]
        script.append(('msg', ['/b_setn', buf.bufnum, start * ch + pos, len(sub)]
                       + [mc.Num(v) for v in sub]))
        script.append(SYNC)
    compare(ctx, method, script, wire.packets(), case, before)
    ledger_is(ctx, method, case, ev0, [])
    if len(seen) != 1 or seen[0] is not buf:
        fail(f'C17/method/{method}/action-not-called-once-with-the-buffer', case,
             calls=len(seen))
    ctx.count('entry_stream_chunks_compared', -(-n // 1626))


def _check_data_file(ctx, method, case, path, lst, ch):
    if not isinstance(path, str) or not os.path.isabs(path):
        fail(f'C17/method/{method}/path-argument-is-not-an-absolute-path', case,
             path=repr(path))
    if os.path.dirname(path) != ctx.tmp_dir:
        fail(f'C17/method/{method}/data-file-outside-the-tmp-directory', case,
             path=path, tmp_dir=ctx.tmp_dir)
    if not os.path.isfile(path):
        fail(f'C17/method/{method}/data-file-named-in-the-command-does-not-exist', case,
             path=path)
    try:
        _tag, chans, rate, riff_ok, samples = parse_wav(path)
    except (ValueError, struct.error) as e:
        fail(f'C17/method/{method}/data-file-is-not-a-float-wav', case, why=str(e))
    if not riff_ok:
        # outside the property (no command involved; libsndfile goes by the
        # chunk sizes): noted in proposed_fixes/C17-wave-header-riff-size.md
        ctx.count('observed_data_file_riff_size_field_differs_from_file_length')
    if chans != ch or rate != 48000:
        fail(f'C17/method/{method}/data-file-header-differs', case, channels=chans,
             sample_rate=rate, expected=[ch, 48000])
    if samples != [osc.f32(v) for v in lst]:
        fail(f'C17/method/{method}/data-file-samples-differ', case,
             n_file=len(samples), n_list=len(lst))
    ctx.count('entry_data_files_parsed')


def _after_info(ctx, method, case, buf, path, frames, ch, seen, done):
    """The server's /b_info reply: the action runs once, the file goes."""
    ctx.wire.inject(ctx.target, '/b_info', buf.bufnum, frames, ch, 48000.0)
    if not done.wait(5.0):
        if os.path.exists(path):
            os.unlink(path)
        return 'timeout'            # replies are dispatched by a clock thread
    _time.sleep(0.005)
    if len(seen) != 1 or seen[0] is not buf:
        fail(f'C17/method/{method}/action-not-called-once-with-the-buffer', case,
             calls=len(seen))
    if os.path.exists(path):
        fail(f'C17/method/{method}/data-file-left-behind', case, path=path)
    if (buf.frames, buf.channels) != (frames, ch):
        fail(f'C17/method/{method}/object-not-updated-from-b_info', case,
             frames=buf.frames, channels=buf.channels)
    ctx.count('entry_info_replies_fed_back')
    return None


def case_new_load_list(ctx, case):
    m, wire = ctx.m, ctx.wire
    n, ch = case['n'], case['channels']
    lst = values(case, n)
    done = threading.Event()
    seen = []
    before, ev0 = ctx.led.snapshot(), len(ctx.led.events)
    files0 = tmp_files(ctx)
    wire.reset()
    if case['remote']:
        method = 'Buffer.new_load_list(non-local server)'
        r = library_call(method, case, lambda: m.Buffer.new_load_list(
            lst, ch, ctx.remote, lambda b: seen.append(b)))
        _time.sleep(0.005)
        compare(ctx, method, [], wire.packets(), case, before)
        ledger_is(ctx, method, case, ev0, [])
        if r is not None or seen:
            fail(f'C17/method/{method}/returns-an-object', case, returned=repr(r))
        if tmp_files(ctx) != files0:
            fail(f'C17/method/{method}/data-file-left-behind', case)
        return None
    method = 'Buffer.new_load_list'
    buf = library_call(method, case, lambda: m.Buffer.new_load_list(
        lst, ch, ctx.server, lambda b: (seen.append(b), done.set())))
    got = wire.packets()
    path = got[0][0].args[1] if got and isinstance(got[0][0], osc.Msg) \
        and len(got[0][0].args) > 1 else None
    bufnum = buf.bufnum
    compare(ctx, method, [('msg', ['/b_allocRead', bufnum, path, 0, -1,
                                   mc.Comp(['/b_query', bufnum])])], got, case, before)
    ledger_is(ctx, method, case, ev0, [('buffer', 'alloc', 1, bufnum)])
    _check_data_file(ctx, method, case, path, lst, ch)
    if seen:
        fail(f'C17/method/{method}/action-called-before-the-reply', case)
    if case['reply']:
        if _after_info(ctx, method, case, buf, path, n // ch, ch, seen, done):
            return 'timeout'
    else:
        os.unlink(path)
    if [f for f in tmp_files(ctx) if f not in files0]:
        fail(f'C17/method/{method}/data-file-left-behind', case,
             files=[f for f in tmp_files(ctx) if f not in files0])


def case_load_list(ctx, case):
    wire = ctx.wire
    n, ch, start = case['n'], case['channels'], case['start']
    lst = values(case, n)
    buf = new_buffer(ctx, case, n // ch + start + 2, ch)
    frames0 = buf.frames
    done = threading.Event()
    seen = []
    before, ev0 = ctx.led.snapshot(), len(ctx.led.events)
    files0 = tmp_files(ctx)
    method = 'Buffer.load_list'
    library_call(method, case, lambda: buf.load_list(
        lst, start, lambda b: (seen.append(b), done.set())))
    got = wire.packets()
    path = got[0][0].args[1] if got and isinstance(got[0][0], osc.Msg) \
        and len(got[0][0].args) > 1 else None
    bufnum = buf.bufnum
    compare(ctx, method, [('msg', ['/b_read', bufnum, path, 0, -1, start, 0,
                                   mc.Comp(['/b_query', bufnum])])], got, case, before)
    ledger_is(ctx, method, case, ev0, [])
    _check_data_file(ctx, method, case, path, lst, ch)
    if seen:
        fail(f'C17/method/{method}/action-called-before-the-reply', case)
    if case['reply']:
        if _after_info(ctx, method, case, buf, path, frames0, ch, seen, done):
            return 'timeout'
    else:
        os.unlink(path)
    if [f for f in tmp_files(ctx) if f not in files0]:
        fail(f'C17/method/{method}/data-file-left-behind', case)


def case_load_to_list(ctx, case):
    wire = ctx.wire
    frames, ch = case['frames'], case['channels']
    index, count = case['index'], case['count']
    buf = new_buffer(ctx, case, frames, ch)
    nfr = frames - index if count < 0 else count
    data = values(case, nfr * ch)
    done = threading.Event()
    seen = []
    written = []

    def serve(mm, target):
        # the stand-in server writes the file it is asked for
        if mm.addr == '/b_write' and len(mm.args) > 1 and isinstance(mm.args[1], str) \
                and os.path.dirname(mm.args[1]) == ctx.tmp_dir:
            write_wav(mm.args[1], data, ch, 48000, case['extra_chunks'])
            written.append(mm.args[1])
    before, ev0 = ctx.led.snapshot(), len(ctx.led.events)
    files0 = tmp_files(ctx)
    wire.on_msg.append(serve)
    method = 'Buffer.load_to_list'
    library_call(method, case, lambda: buf.load_to_list(
        lambda lst, b=None: (seen.append((lst, b)), done.set()), index, count))
    if not done.wait(6.0):
        for f in written:
            if os.path.exists(f):
                os.unlink(f)
        return 'timeout'
    _time.sleep(0.005)
    got = wire.packets()
    path = got[0][0].args[1] if got and isinstance(got[0][0], osc.Msg) \
        and len(got[0][0].args) > 1 else None
    compare(ctx, method, [('msg', ['/b_write', buf.bufnum, path, 'wav', 'float', count,
                                   index, 0, mc.Comp(None)]), SYNC], got, case, before)
    ledger_is(ctx, method, case, ev0, [])
    if not isinstance(path, str) or os.path.dirname(path) != ctx.tmp_dir:
        fail(f'C17/method/{method}/data-file-outside-the-tmp-directory', case, path=path)
    if len(seen) != 1:
        fail(f'C17/method/{method}/action-not-called-once', case, calls=len(seen))
    lst, b = seen[0]
    if list(lst) != [osc.f32(v) for v in data]:
        fail(f'C17/method/{method}/samples-differ-from-the-file', case,
             n_got=len(lst), n_file=len(data), extra_chunks=case['extra_chunks'])
    if b is not None and b is not buf:
        fail(f'C17/method/{method}/action-got-another-buffer', case)
    if [f for f in tmp_files(ctx) if f not in files0]:
        fail(f'C17/method/{method}/data-file-left-behind', case)
    ctx.count('entry_files_served_to_the_client')


def case_get_to_list(ctx, case):
    wire = ctx.wire
    frames, ch, index = case['frames'], case['channels'], case['index']
    count, w = case['count'], case['wait']
    buf = new_buffer(ctx, case, frames, ch)
    total = frames * ch if count is None else count
    content = values(case, frames * ch + 4)
    done = threading.Event()
    seen = []

    def serve(mm, target):
        if mm.addr == '/b_getn' and len(mm.args) == 3 and mm.args[0] == buf.bufnum \
                and all(isinstance(x, int) for x in mm.args[1:]) \
                and 0 <= mm.args[1] and mm.args[1] + mm.args[2] <= len(content):
            a, k = mm.args[1], mm.args[2]
            wire.inject(target, '/b_setn', buf.bufnum, a, k,
                        *[float(v) for v in content[a:a + k]])
    before, ev0 = ctx.led.snapshot(), len(ctx.led.events)
    wire.on_msg.append(serve)
    method = 'Buffer.get_to_list'
    library_call(method, case, lambda: buf.get_to_list(
        lambda lst: (seen.append(list(lst)), done.set()), index, count, w, 5))
    script = []
    pos = index
    while pos < index + total:
        size = min(1633, index + total - pos)
        script.append(('msg', ['/b_getn', buf.bufnum, pos, size]))
        if w < 0:
            script.append(SYNC)
        pos += size
    if not wait_for(lambda: len(wire.calls) >= len(script) and done.is_set(), 6.0):
        if len(wire.calls) < len(script) and not seen:
            return 'timeout'
    _time.sleep(0.01)
    compare(ctx, method, script, wire.packets(), case, before)
    ledger_is(ctx, method, case, ev0, [])
    if len(seen) != 1:
        fail(f'C17/method/{method}/action-not-called-once', case, calls=len(seen))
    want = [osc.f32(v) for v in content[index:index + total]]
    if seen[0] != want:
        fail(f'C17/method/{method}/samples-differ-from-the-replies', case,
             n_got=len(seen[0]), n_expected=len(want))
    ctx.count('entry_getn_replies_fed_back', len([1 for k, _ in script if k == 'msg']))


def _node(ctx, case, cls):
    m, s = ctx.m, ctx.server
    if cls == 'Synth':
        o = library_call('Synth.init', case, lambda: m.Synth('default', None, s))
    else:
        o = library_call(f'{cls}.init', case, lambda: getattr(m, cls)(s))
    ctx.wire.reset()
    return o


def case_node_watch(ctx, case):
    wire = ctx.wire
    node = _node(ctx, case, case['cls'])
    nid = node.node_id
    before, ev0 = ctx.led.snapshot(), len(ctx.led.events)
    calls = []
    hooked = 0
    for st in case['steps']:
        method = 'Node.' + st.replace('_flags', '').replace('_noarg', '')
        if st == 'register':
            library_call(method, case, lambda: node.register())
        elif st == 'register_flags':
            library_call(method, case, lambda: node.register(False, True))
        elif st == 'unregister':
            library_call(method, case, lambda: node.unregister())
        elif st == 'on_free':
            library_call(method, case, lambda: node.on_free(lambda n: calls.append(n)))
            hooked += 1
        else:
            library_call(method, case, lambda: node.on_free(lambda: calls.append(node)))
            hooked += 1
        _time.sleep(0.001)
        compare(ctx, method, [], wire.packets(), case, before)
        if node.node_id != nid:
            fail(f'C17/method/{method}/node-id-changed', case, was=nid, now=node.node_id)
    if case['end']:
        # the server reports the end of the node; whatever the watcher does
        # with it, no command may follow
        wire.inject(ctx.target, '/n_end', nid, 1, -1, -1, 0 if case['cls'] == 'Synth' else 1,
                    *([] if case['cls'] == 'Synth' else [-1, -1]))
        _time.sleep(0.005)
        compare(ctx, 'Node.on_free(/n_end received)', [], wire.packets(), case, before)
        if calls:
            ctx.count('observed_on_free_actions_run_after_n_end', len(calls))
        if any(c is not node for c in calls):
            fail('C17/method/Node.on_free/action-got-another-node', case)
    ledger_is(ctx, 'Node.register', case, ev0, [])
    ctx.count('entry_silent_calls_checked', len(case['steps']))


def _tree_reply(flag, gid, children):
    # /g_queryTree.reply flag, node id, number of children, then per child:
    # id, -1 (synth) + def name [+ controls]
    out = ['/g_queryTree.reply', int(bool(flag)), gid, children]
    for k in range(children):
        out += [2000 + k, -1, 'default']
        if flag:
            out += [1, 'freq', 440.0]
    return out


def case_query_tree(ctx, case):
    m, s, wire = ctx.m, ctx.server, ctx.wire
    on = case['on']
    if on == 'group':
        grp = _node(ctx, case, 'Group')
        gid, method = grp.node_id, 'Group.query_tree'
    elif on == 'root':
        from sc3.synth.node import RootNode
        grp = library_call('RootNode', case, lambda: RootNode(s))
        gid, method = 0, 'RootNode.query_tree'
    else:
        grp, gid, method = s, 0, 'Server.query_tree'
    before, ev0 = ctx.led.snapshot(), len(ctx.led.events)
    seen = []
    wire.reset()
    library_call(method, case, lambda: grp.query_tree(
        case['controls'], lambda d: seen.append(d), 0.05 if not case['reply'] else 3))
    compare(ctx, method, [('msg', ['/g_queryTree', gid, int(bool(case['controls']))])],
            wire.packets(), case, before)
    ledger_is(ctx, method, case, ev0, [])
    if case['reply']:
        wire.inject(ctx.target, *_tree_reply(case['controls'], gid, case['children']))
        if not wait_for(lambda: seen, 3.0):
            return 'timeout'        # replies are dispatched by a clock thread
        _time.sleep(0.003)
        if len(seen) != 1 or not isinstance(seen[0], dict) \
                or list(seen[0]) != [f'Group({gid})'] \
                or len(seen[0][f'Group({gid})']) != case['children']:
            fail(f'C17/method/{method}/reply-not-handed-to-the-action', case,
                 seen=repr(seen)[:300])
        ctx.count('entry_tree_replies_fed_back')
    else:
        _time.sleep(0.08)           # the request times out: nothing is sent
    compare(ctx, method, [('msg', ['/g_queryTree', gid, int(bool(case['controls']))])],
            wire.packets(), case, before)


def case_dump_tree(ctx, case):
    s, wire = ctx.server, ctx.wire
    before, ev0 = ctx.led.snapshot(), len(ctx.led.events)
    wire.reset()
    method = 'Server.dump_tree(no server process)'
    library_call(method, case, lambda: s.dump_tree(case['controls']))
    _time.sleep(0.002)
    compare(ctx, method, [], wire.packets(), case, before)
    ledger_is(ctx, method, case, ev0, [])
    ctx.count('entry_silent_calls_checked')


def case_rootnode(ctx, case):
    from sc3.synth.node import RootNode
    m, s, wire = ctx.m, ctx.server, ctx.wire
    root = library_call('RootNode', case, lambda: RootNode(s))
    other = _node(ctx, case, 'Group')
    if root.node_id != 0 or root.server is not s:
        fail('C17/method/RootNode/is-not-node-0-of-its-server', case,
             node_id=root.node_id)
    for st in case['steps']:
        before, ev0 = ctx.led.snapshot(), len(ctx.led.events)
        wire.reset()
        refuse = None
        script = []
        led = []
        name = st[:-4] if st.endswith('_arg') else st
        method = f'RootNode.{name}'
        if name in ('run', 'free', 'move_before', 'move_after', 'move_to_head',
                    'move_to_tail'):
            # "cannot be freed, or moved anywhere": whichever way it is called
            # (the base class signature takes an argument), no command
            arg = {'run': False, 'free': True}.get(name, other)
            refuse = (lambda: getattr(root, name)(arg)) if st.endswith('_arg') \
                else (lambda: getattr(root, name)())
            try:
                refuse()
            except TypeError:
                ctx.count('observed_rootnode_refusal_by_type_error')
            except Exception as e:
                fail(f'C17/raises/{method}/{_site(e)}', case, tb=short_tb(e))
            ctx.count('entry_rootnode_refusals_checked')
        elif name == 'free_all':
            library_call(method, case, root.free_all)
            script = [('msg', ['/g_freeAll', 0])]
        elif name == 'deep_free':
            library_call(method, case, root.deep_free)
            script = [('msg', ['/g_deepFree', 0])]
        elif name == 'dump_tree':
            library_call(method, case, lambda: root.dump_tree(case['controls']))
            script = [('msg', ['/g_dumpTree', 0, int(case['controls'])])]
        elif name == 'set':
            library_call(method, case, lambda: root.set('amp', case['value']))
            script = [('msg', ['/n_set', 0, 'amp', mc.Num(case['value'])])]
        elif name == 'trace':
            library_call(method, case, root.trace)
            script = [('msg', ['/n_trace', 0])]
        elif name == 'query':
            library_call(method, case, lambda: root.query(lambda *a: None))
            script = [('msg', ['/n_query', 0])]
        elif name == 'query_tree':
            library_call(method, case, lambda: root.query_tree(False, lambda d: None, 0.01))
            script = [('msg', ['/g_queryTree', 0, 0])]
        elif name == 'identity':
            again = library_call(method, case, lambda: RootNode(s))
            if again is not root or again.node_id != 0:
                fail('C17/method/RootNode/second-object-for-the-same-server', case)
        elif name == 'as_target_synth':
            o = library_call('Synth.init(target=RootNode)', case,
                             lambda: m.Synth('default', None, root, 'addToTail'))
            script = [('msg', ['/s_new', 'default', o.node_id, 1, 0])]
            led = [('node', 'alloc', 1, o.node_id)]
            method = 'Synth.init(target=RootNode)'
        elif name == 'as_target_group':
            o = library_call('Group.init(target=RootNode)', case, lambda: m.Group(root))
            script = [('msg', ['/g_new', o.node_id, 0, 0])]
            led = [('node', 'alloc', 1, o.node_id)]
            method = 'Group.init(target=RootNode)'
        elif name == 'free_all_roots':
            library_call(method, case, RootNode.free_all_roots)
            # one /g_freeAll 0 per server that has a root node object; other
            # servers of this process are judged by destination only
            got = [(g, t) for g, t in wire.packets() if tuple(t or ()) == ctx.target]
            compare(ctx, method, [('msg', ['/g_freeAll', 0])], got, case, before)
            for g, t in wire.packets():
                if not isinstance(g, osc.Msg) or g.plain() != ['/g_freeAll', 0]:
                    fail(f'C17/method/{method}/unexpected-message', case, got=g.plain())
            continue
        _time.sleep(0.001)
        compare(ctx, method, script, wire.packets(), case, before)
        ledger_is(ctx, method, case, ev0, led)
    ctx.count('entry_rootnode_steps_checked', len(case['steps']))


def case_free_nodes(ctx, case):
    s, wire = ctx.server, ctx.wire
    before, ev0 = ctx.led.snapshot(), len(ctx.led.events)
    wire.reset()
    method = 'Server.free_nodes'
    library_call(method, case, s.free_nodes)
    groups = [g.node_id for g in s._default_groups]
    script = [('msg', ['/g_freeAll', 0]), ('msg', ['/clearSched'])]
    script += [('msg', ['/g_new', g, 0, 0]) for g in groups]
    script += [SYNC, SYNC]
    if not wait_for(lambda: len(wire.calls) >= len(script), 6.0):
        if len(wire.calls) < 2:
            return 'timeout'
    _time.sleep(0.02)
    compare(ctx, method, script, wire.packets(), case, before)
    ledger_is(ctx, method, case, ev0, [])


def case_free_default_group_all(ctx, case):
    s, wire = ctx.server, ctx.wire
    before, ev0 = ctx.led.snapshot(), len(ctx.led.events)
    wire.reset()
    method = 'Server.free_default_group(all_users=True)'
    library_call(method, case, lambda: s.free_default_group(True))
    groups = [g.node_id for g in s._default_groups]
    compare(ctx, method, [('msg', ['/g_freeAll', g]) for g in groups],
            wire.packets(), case, before)
    ledger_is(ctx, method, case, ev0, [])


# ---------------------------------------------------------------------------
# life cycle against the stand-in: unregister / register / quit

def lifecycle(ctx, count):
    """Returns None or 'timeout'; raises Violation.  The server is registered
    on entry and registered again on exit."""
    s, wire = ctx.server, ctx.wire
    case = {'kind': 'lifecycle'}
    cid = s.client_id
    # ---- unregister
    before = ctx.led.snapshot()
    wire.reset()
    done = []
    library_call('Server.unregister', case,
                 lambda: s.unregister(on_complete=lambda *a: done.append(1)))
    if not wait_for(lambda: done, 6.0):
        if not wire.calls:
            fail('C17/method/Server.unregister/message-missing', case)
        return 'timeout'
    compare(ctx, 'Server.unregister', [('msg', ['/notify', 0, cid])],
            wire.packets(), case, before)
    count('entry_lifecycle:unregister')
    # ---- not running any more: unregister and quit say so and send nothing
    wire.reset()
    library_call('Server.unregister(not registered)', case, s.unregister)
    library_call('Server.quit(not running)', case, s.quit)
    _time.sleep(0.01)
    compare(ctx, 'Server.quit(not running)', [], wire.packets(), case, before)
    count('entry_lifecycle:offline-calls-silent')
    # ---- register again: /notify 1 id, then a sync
    wire.reset()
    if not register(s, wire):
        return 'timeout'
    _time.sleep(0.05)
    got = wire.packets()
    compare(ctx, 'Server.register', [('msg', ['/notify', 1, mc.Alt(cid, 0)]), SYNC],
            got, case, ctx.led.snapshot())
    count('entry_lifecycle:register')
    # ---- quit
    before = ctx.led.snapshot()
    wire.reset()
    done = []
    library_call('Server.quit', case,
                 lambda: s.quit(True, on_complete=lambda *a: done.append(1)))
    if not wait_for(lambda: done, 6.0):
        if not wire.calls:
            fail('C17/method/Server.quit/message-missing', case)
        return 'timeout'
    _time.sleep(0.01)
    compare(ctx, 'Server.quit', [('msg', ['/quit']), ('msg', ['/g_freeAll', 0])],
            wire.packets(), case, before)
    count('entry_lifecycle:quit')
    wire.reset()
    if not register(s, wire):
        return 'timeout'
    _time.sleep(0.05)
    wire.reset()
    return None
