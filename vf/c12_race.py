"""C12 real-time shard 'rtm': map changes from a plain thread racing with the
map changes of routines running on clocks.

Class of behaviour: the statement's "changing tempo or beats leaves the current
beat/second pair continuous" for EVERY change of a history also when a second
party changes the same map at the same time.  A routine on the clock (or on
another TempoClock: every clock thread runs its tasks under the library lock)
changes the map during its wake-up - `beats = beats + j`, `tempo = v`,
`etempo(v)` - sometimes after having been busy for a millisecond; meanwhile an
ordinary thread (an UI callback, an OSC / MIDI handler) calls `etempo(v)`,
`tempo = v` or `beats = x` on the same clock.  Every mutator is a read of a
pivot followed by four stores, so each of them has to be one atomic step with
respect to the others: a pivot taken from the map as it was before the other
party's change re-bases the clock on a point that is not on its line any more
(the other change is lost, the clock jumps).

Observation: the line of the clock, (tempo, secs2beats(reference second)), is
sampled through the public interface with the library lock held
 - by the routine at the start and at the end of its wake-up (a task holds the
   lock for the whole wake-up, so nothing else can happen in between),
 - by the plain thread after each of its calls (no lock is taken by the
   harness before or during the call: the call itself queues up behind a
   running task),
and every sample is appended to one log under the lock, which gives a total
order.  Between two consecutive samples the line must be unchanged, except
 - inside a routine wake-up: exactly the routine's own change, pivoting on the
   routine's logical second (etempo: on some physical second of the call);
 - inside the window of a plain thread's call (from the last sample logged
   before the call began to the sample after it returned): exactly ONE gap
   may differ, and there the new line must be the old line OF THAT GAP changed
   as the call says at some physical second e of the call's duration: tempo
   and etempo keep the pair (e, beats(e)), `beats = x` passes through (e, x).
The instant e is unknown to the harness: the old and the new line have to
meet somewhere inside [t_before_call, t_after_call] (for `beats = x`: the new
line takes the value x there).  Nothing is assumed about the order in which
the two parties' changes take effect.

Schedule: the routine keeps the lock busy (sleeps 0.3-2 ms inside the task)
before its change so that plain calls begin while a task is running;
sys.monitoring yield injection (vf/inject.py) on the three mutators delays the
plain thread between any two of their statements; 50 us switch interval.
Evidence counters say how many plain calls had a routine wake-up inside their
window and how many took effect after one.

Domain: tempos 20..200, beats moved by a few ms worth of beats (a larger jump
forwards would put the routine's logical time far into the past, see
vf/c12_gen.py), no clock is stopped while calls are in flight.
"""

import sys
import threading
import time

from vf.common import iter_cases, case_rng, h64, derive_seed, short_tb

KEY = 'C12/concurrent-map-change/'


def tol(*vals):
    return 1e-9 * max([1.0] + [abs(v) for v in vals]) + 1e-9


class Line:
    __slots__ = ('tempo', 'b', 'sref')

    def __init__(self, tempo, b, sref):
        self.tempo, self.b, self.sref = tempo, b, sref

    def at(self, s):
        return self.b + (s - self.sref) * self.tempo

    def same(self, other):
        return self.tempo == other.tempo and \
            abs(self.b - other.b) <= tol(self.b, other.b)

    def pub(self):
        return {'tempo': self.tempo, 'beats_at_reference_second': self.b}


def explains(op, arg, old, new, t0, t1):
    """Is `new` the line `old` changed by op(arg) at some second in [t0, t1]?"""
    if op in ('tempo', 'etempo'):
        if new.tempo != arg:
            return False
        f0 = new.at(t0) - old.at(t0)
        f1 = new.at(t1) - old.at(t1)
        t = 2 * tol(new.at(t0), new.at(t1), old.at(t0))
        return min(abs(f0), abs(f1)) <= t or f0 * f1 < 0
    if op == 'beats':
        if new.tempo != old.tempo:
            return False
        t = 2 * tol(arg, new.at(t0), new.at(t1))
        lo, hi = sorted((new.at(t0), new.at(t1)))
        return lo - t <= arg <= hi + t
    return old.same(new)


class Race:
    """One clock, 1-2 routines changing its map, one plain thread doing so."""

    def __init__(self, rng, sc, counts):
        self.rng, self.sc, self.counts = rng, sc, counts
        self.main = sc.main
        self.lock = sc.main._main_lock
        self.log = []
        self.stop = False
        self.live = 0
        self.internal = None
        self.bads = []
        tempo = rng.choice([20, 50.0, 100, rng.uniform(20, 200)])
        self.clk = sc.TempoClock(tempo)
        self.clocks = [self.clk]
        self.sref = self.main.elapsed_time()
        self.desc = {'tempo': tempo, 'routines': []}

    def n(self, k, v=1):
        self.counts[k] = self.counts.get(k, 0) + v

    def sample(self):
        # call with the library lock held
        c = self.clk
        return Line(c.tempo, c.secs2beats(self.sref), self.sref)

    # -- generators of changes ---------------------------------------------
    def gen_tempo(self):
        rng = self.rng
        return rng.choice([20, 40.0, 60, 100.0, 120, 200,
                           rng.uniform(20, 200), rng.uniform(20, 200)])

    def routine_ops(self, n):
        rng = self.rng
        ops, cum = [], 0.0
        for _ in range(n):
            c = rng.random()
            if c < 0.4:
                # in milliseconds worth of beats, kept near zero in sum
                j = rng.choice([-1, 1]) * rng.uniform(2.0, 25.0)
                if abs(cum + j) > 30.0:
                    j = -j
                cum += j
                ops.append(('beats+', j))
            elif c < 0.65:
                ops.append(('tempo', self.gen_tempo()))
            elif c < 0.8:
                ops.append(('etempo', self.gen_tempo()))
            else:
                ops.append(('none', None))
        return ops

    # -- the routine ---------------------------------------------------------
    def make_routine(self, play_on, n, period):
        me, clk, main = self, self.clk, self.main
        rng = self.rng
        ops = self.routine_ops(n)
        holds = [rng.uniform(0.0003, 0.002) if rng.random() < 0.6 else 0.0
                 for _ in range(n)]
        self.live += 1
        self.desc['routines'].append(
            {'on': 'the clock' if play_on is clk else 'another TempoClock',
             'wakeups': n, 'period_s': period})

        def body(inval):
            c = inval[1]
            for k in range(n):
                if me.stop:
                    break
                s = c.seconds
                pre = me.sample()
                if holds[k]:
                    time.sleep(holds[k])      # a task that takes its time
                op, arg = ops[k]
                err = None
                t0 = main.elapsed_time()
                try:
                    if op == 'beats+':
                        arg = clk.beats + arg * 0.001 * pre.tempo
                        clk.beats = arg
                    elif op == 'tempo':
                        clk.tempo = arg
                    elif op == 'etempo':
                        clk.etempo(arg)
                except Exception as e:
                    err = (type(e).__name__, short_tb(e, 6))
                t1 = main.elapsed_time()
                me.log.append(dict(who='R', s=s, pre=pre, post=me.sample(),
                                   op=op, arg=arg, t0=t0, t1=t1, err=err))
                yield period * c.tempo

        def gen(inval):
            try:
                yield from body(inval)
            except BaseException as e:
                if not isinstance(e, GeneratorExit):
                    me.internal = short_tb(e, 10)
                raise
            finally:
                me.live -= 1
        r = self.sc.Routine(gen)
        r.play(play_on)

    def start(self):
        rng, sc = self.rng, self.sc
        with self.lock:
            self.log.append(dict(who='S', line=self.sample()))
            n = rng.randint(100, 180)
            period = rng.uniform(0.003, 0.008)
            kind = rng.choice(['own', 'own', 'own+other', 'other'])
            if 'own' in kind:
                self.make_routine(self.clk, n, period)
            if 'other' in kind:
                other = sc.TempoClock(rng.choice([30, 64.0, 100]))
                self.clocks.append(other)
                self.make_routine(other, n // 2 if 'own' in kind else n,
                                  rng.uniform(0.004, 0.01))
        self.plain_ops = []
        for _ in range(64):
            c = rng.random()
            if c < 0.45:
                self.plain_ops.append(('etempo', self.gen_tempo()))
            elif c < 0.75:
                self.plain_ops.append(('tempo', self.gen_tempo()))
            else:
                self.plain_ops.append(('beats', rng.uniform(-10.0, 10.0)))
        self.gaps = [rng.uniform(0.0001, 0.002) for _ in range(37)]
        self.thread = threading.Thread(target=self.plain, daemon=True)
        self.thread.start()

    # -- the plain thread ------------------------------------------------------
    def plain(self):
        clk, main, lock, log = self.clk, self.main, self.lock, self.log
        i = 0
        try:
            while not self.stop and self.live > 0:
                op, arg = self.plain_ops[i % len(self.plain_ops)]
                if op == 'beats':
                    # an absolute beat near the present (read outside any lock:
                    # whatever it is, it is the value handed to the setter)
                    arg = clk.beats + arg * 0.001 * clk.tempo
                # Everything logged so far was sampled before this call began.
                # No lock is taken here: the call itself has to queue up
                # behind a running task, not the harness.
                i0 = len(log)
                err = None
                t0 = main.elapsed_time()
                try:
                    if op == 'etempo':
                        clk.etempo(arg)
                    elif op == 'tempo':
                        clk.tempo = arg
                    else:
                        clk.beats = arg
                except Exception as e:
                    err = (type(e).__name__, short_tb(e, 6))
                t1 = main.elapsed_time()
                with lock:
                    log.append(dict(who='PB', i=i, i0=i0, line=self.sample(),
                                    op=op, arg=arg, t0=t0, t1=t1, err=err))
                i += 1
                time.sleep(self.gaps[i % len(self.gaps)])
        except BaseException as e:
            self.internal = short_tb(e, 10)

    def finish(self):
        self.stop = True
        self.thread.join(3)
        for c in self.clocks:
            try:
                c.stop()
            except Exception:
                pass

    # -- the verdict -------------------------------------------------------------
    def bad(self, key, **detail):
        if not self.bads:
            self.bads.append((KEY + key, detail))

    def judge(self):
        if self.thread.is_alive():
            self.n('races_not_judged_plain_thread_stuck')
            return
        log = self.log
        if not log or log[0]['who'] != 'S':
            self.n('races_not_judged_no_first_sample')
            return

        def first(e):
            return e['pre'] if e['who'] == 'R' else e['line']

        def last(e):
            return e['post'] if e['who'] == 'R' else e['line']
        # Window of a plain call logged at index m which began when the log
        # had i0 entries: the routine wake-ups i0 .. m-1 and the gaps in
        # front of the entries i0 .. m.  Windows do not overlap (one plain
        # thread per clock).
        win_at = {}
        for m, e in enumerate(log):
            if e['who'] == 'PB':
                w = {'e': e, 'm': m, 'i0': max(e['i0'], 1), 'moved': []}
                for k in range(w['i0'], m + 1):
                    win_at[k] = w
        for k, e in enumerate(log):
            w = win_at.get(k)
            if k:
                old, new = last(log[k - 1]), first(e)
                self.n('gaps_checked')
                if not old.same(new):
                    if w is None:
                        self.bad('map-moved-with-no-change-in-progress',
                                 before=old.pub(), after=new.pub())
                        return
                    w['moved'].append(k)
            if e['who'] == 'R':
                self.own_change(e, w)
            elif e['who'] == 'PB':
                self.close(w, log, first, last)
            if self.bads:
                return

    def own_change(self, e, win):
        op, arg, pre, post, s = e['op'], e['arg'], e['pre'], e['post'], e['s']
        self.n('routine_wakeups')
        if e['err']:
            self.bad(f'routine-{op}/raises/{e["err"][0]}', tb=e['err'][1])
            return
        if op == 'none':
            ok = pre.same(post)
        elif op == 'beats+':
            ok = explains('beats', arg, pre, post, s, s)
        elif op == 'tempo':
            ok = explains('tempo', arg, pre, post, s, s)
        else:
            ok = explains('etempo', arg, pre, post, e['t0'], e['t1'])
        self.n('routine_changes_checked_' + op)
        if not ok:
            # a task holds the library lock: a plain call in flight must not
            # be able to touch the map before the wake-up is over
            key = f'routine-{op}/line-after-differs' if win is None else \
                f'plain-{win["e"]["op"]}/changed-the-map-during-a-routine-wakeup'
            self.bad(key, op=op, value=arg, plain_call_in_flight=bool(win),
                     logical_second=s, before=pre.pub(), after=post.pub(),
                     beats_before_at_s=pre.at(s), beats_after_at_s=post.at(s))

    def close(self, win, log, first, last):
        e, m, i0 = win['e'], win['m'], win['i0']
        op, arg, t0, t1 = e['op'], e['arg'], e['t0'], e['t1']
        self.n('plain_changes_checked')
        self.n('plain_changes_checked_' + op)
        if m > i0:
            self.n('plain_calls_with_a_routine_wakeup_in_their_window')
        if e['err']:
            self.bad(f'plain-{op}/raises/{e["err"][0]}', tb=e['err'][1])
            return
        # the lines the clock had during the call, in order
        lines = [last(log[k]) for k in range(i0 - 1, m)]
        detail = dict(call=op, value=arg, call_began=t0, call_returned=t1,
                      routine_wakeups_in_window=m - i0,
                      routine_changes_in_window=[
                          log[k]['op'] for k in range(i0, m)],
                      lines_in_window=[ln.pub() for ln in lines[:6]]
                      + [e['line'].pub()])
        moved = win['moved']
        if not moved:
            # nothing moved: allowed only if the call changes nothing
            if any(explains(op, arg, ln, ln, t0, t1) for ln in lines):
                self.n('plain_changes_without_effect')
                return
            self.bad(f'plain-{op}/lost', **detail)
            return
        if len(moved) > 1:
            self.bad(f'plain-{op}/map-moved-more-than-once', **detail)
            return
        k = moved[0]
        old, new = last(log[k - 1]), first(log[k])
        detail.update(line_before_the_change=old.pub(),
                      line_after_the_change=new.pub(),
                      beats_before_at_call_begin=old.at(t0),
                      beats_after_at_call_begin=new.at(t0))
        if explains(op, arg, old, new, t0, t1):
            if k > i0:
                self.n('plain_changes_applied_after_a_routine_wakeup')
            if any(log[j]['op'] != 'none' for j in range(i0, k)):
                self.n('plain_changes_applied_after_a_routine_change')
                self.n('plain_changes_applied_after_a_routine_change_' + op)
            return
        # not continuous.  Which line was the pivot taken from?
        stale = [ln for ln in lines
                 if not ln.same(old) and explains(op, arg, ln, new, t0, t1)]
        if stale:
            detail['pivot_is_on_the_line'] = stale[0].pub()
            self.bad(f'plain-{op}/not-continuous/pivot-from-before-the-'
                     'routine-change', **detail)
        else:
            self.bad(f'plain-{op}/not-continuous', **detail)


def run_rtm(spec, acc, sc):
    from vf.inject import Injector, func_code
    cfg = spec['shard']
    seed = derive_seed(spec['seed'], 'C12', cfg['name'], spec.get('attempt', 0))
    T = sc.TempoClock
    # (class attribute access goes to the default clock: use the class dict)
    codes = [T.__dict__['etempo'].__code__, T.__dict__['tempo'].fset.__code__,
             T.__dict__['beats'].fset.__code__]
    inj = Injector(codes, seed)
    inj.p_yield = cfg.get('p_yield', 0.25)
    inj.max_sleep = 0.002
    inj.start()
    old_switch = sys.getswitchinterval()
    sys.setswitchinterval(5e-5)
    counts = {}
    deadline = time.time() + cfg.get('secs', 12)
    try:
        for i in iter_cases(spec):
            if time.time() > deadline:
                break
            rng = case_rng(spec['seed'], 'C12', 'rtm', i)
            races = [Race(rng, sc, counts) for _ in range(rng.choice([2, 3]))]
            for r in races:
                r.start()
            # a round lasts until the routines are through or 1.5 s (tempo
            # changes stretch the periods)
            t_end = time.time() + 1.5
            while time.time() < t_end and any(r.live > 0 for r in races):
                time.sleep(0.01)
            unfinished = any(r.live > 0 for r in races)
            for r in races:
                r.stop = True
            for r in races:
                r.finish()
            for r in races:
                if r.internal:
                    raise RuntimeError('harness error, case %d:\n%s'
                                       % (i, r.internal))
            acc.count('rtm_rounds')
            if unfinished:
                acc.count('rtm_rounds_cut_at_time_limit')
            before = counts.get('plain_changes_applied_after_a_routine_change',
                                0)
            for r in races:
                with sc.main._main_lock:
                    r.judge()
            acc.case(h64(repr([r.desc for r in races])),
                     nontrivial=counts.get(
                         'plain_changes_applied_after_a_routine_change', 0)
                     > before)
            for r in races:
                if r.bads:
                    key, detail = r.bads[0]
                    acc.violation(key, {'case': i, 'race': r.desc,
                                        'detail': detail})
                elif acc.want_sample():
                    acc.sample({'case': i, 'race': r.desc,
                                'log_entries': len(r.log)})
    finally:
        inj.stop()
        sys.setswitchinterval(old_switch)
    for k, v in counts.items():
        acc.count('rtm_' + k, v)
    acc.count('rtm_injected_yields', inj.injected)
