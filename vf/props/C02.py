"""C02 - emitted definitions are well-formed, topologically ordered SCgf v2;
the library's own reader recovers them; invalid graphs are rejected.

Monitors (all on `bytes(SynthDef(...).as_bytes())` of generated programs,
vf/gen_graph.py profile c02: C01's generator plus array controls, multichannel
expansion with nested lists, multi-output units, LocalBuf/SetBuf/ClearBuf,
FFT -> PV_* -> IFFT chains, RandSeed/RandID, up to ~400 units and ~300 distinct
constants, definition names of 1..255 printable ASCII characters, variants):

  parse      vf.scgf.parse: the bytes are exactly one SCgf-2 definition; every
             input refers to an existing constant or to an existing output of a
             unit placed strictly earlier (strict, consumes all bytes);
  structure  name, control-name table, partition of the control slots by the
             control units, defaults and rates of every declared control,
             number of inputs/outputs of every unit against the unit's
             documented shape, output rates, audio-rate inputs where the unit
             demands them, no NaN constant, variant blocks;
  order      creation order is known from unique tag constants: every tagged
             unit created after a width-first unit W (LocalBuf, SetBuf, FFT,
             PV_*, IFFT, RandSeed, RandID) is placed after W;
  reader     SynthDesc.new_from(def) and SynthDesc._read_stream(BytesIO(bytes))
             return the name, control names, per-slot ControlName (name, index,
             default, rate), has_gate and the In/Out IODesc list that the
             independent parse of the same bytes predicts;
  invalid    programs with one injected defect (control-rate signal into an
             audio-rate Out / filter / SendTrig / Pan2, NaN constant, None /
             string / object input) must raise, or else emit bytes that pass
             every predicate above.

Round 7b - every emitted definition includes the datagrams and the files
(shards routes / routes-rt, vf/c02_routes.py): after the as_bytes() specimen of
a program has passed the predicates above, a random history runs the other
emission routes - SynthDef.send / load / store / add / _write_def_file /
send_from_file / load_from_file, SynthDescLib.send, `@synthdef` and the
ServerBoot action it registers, reconstructed definitions
(_load_reconstructed), generate_tmp_name, _write_def_list with several
definitions - and the file readers SynthDesc.read, SynthDescLib.read / at /
match / remove_at, def_name_from_bytes, version-1 files, MdPlugin.write / read
/ read_file / delete.  NRT traffic is the decoded score of main.process(), RT
traffic the datagrams handed to the interface's replaced `_send`.  Every
/d_recv blob and every file must be byte-identical to the judged specimen, a
/d_load must name a file that holds exactly those bytes when it is issued, one
definition command per addressed server with the completion message asked
for, RT /d_recv datagrams fit a UDP datagram (definitions tuned to the byte
around 65504), readers return what the independent parse of the file predicts
(metadata: what the harness reads back as JSON), match/at/remove_at follow a
dict model.

Round 9 - a fault followed by continued use inside one build, after the
helper's controls exist (vf/c02_wrapbody.py; every second case of the 'wrap'
shard is such a program, kind 'wrapbody').  The 'wrap' programs fail before
SynthDef.wrap has registered anything (bad rate annotation).  Here the wrapped
helper has parameters (kr / ir / tr / ar / lag / array / prepended) and fails in
its BODY - user exception, exception raised by the library (refused operator,
rejected nested wrap, ...), misuse of the control objects - in five forms
(own statement, after a valid inner wrap, inner helper fails, both, helper
that handles its inner helper's failure), handled by `except Exception` or by
the precise class, with and without fall-back wraps / rejected wraps / further
body failures afterwards.  The predicates are the ones above: the control
units partition the control table (C02/control-slot-out-of-range, -covered-
twice, -without-unit), declared controls carry their default / unit class /
rate, the reader accepts the bytes.  The controls of a failed helper may be
kept (today's behaviour) or dropped, level by level; whichever the name table
shows is what defaults and units are compared with, and when all are kept the
bytes equal those of the twin whose helpers lack the failing statement
(C02/failed-wrap-leaves-residue/body-failure-bytes-differ).
"""

import io
import json
import math
import struct

from vf.common import iter_cases, case_rng, h64, split, short_tb, tb_sites


def safe(fn, *a):
    """formatting of library objects must never take the shard down (their
    __repr__ runs library code)"""
    try:
        return fn(*a)
    except Exception as x:      # noqa
        return f'<{type(x).__name__} while formatting>'


LEVEL = 'exploration'
RULE = ("seeded random programs as data (vf/gen_graph.py:gen_program_c02) of "
        "kinds plain / wrap (graph functions that recover from a SynthDef.wrap "
        "rejected for a bad rate annotation, then wrap valid helpers) / wrapbody "
        "(vf/c02_wrapbody.py: the wrapped helper has 1-4 parameters and fails in "
        "its body after its controls were built, 27 faults raised by the user / "
        "the library / Python on control objects, 5 nesting forms, followed or "
        "not by fall-back wraps) / mc "
        "(multichannel expansion, nested lists) / wf (width-"
        "first units, FFT chains) / big (150-420 nodes, up to 300 distinct "
        "constants) / variants / invalid:<9 defects>, each with a random "
        "definition name of 1..255 printable ASCII characters and 0-8 controls "
        "(scalar or array defaults, kr/ar/ir/tr/lag, optional 'gate').  "
        "Non-trivial: a valid program whose definition has >= 8 units and "
        "at least one of: multi-output unit, expanded list, width-first unit, "
        "array control, variant; or an invalid program.  distinct = hash of "
        "the program data.  routes / routes-rt: one such program (kinds plain / mc "
        "/ wf / variants / wrap / bigarray, or ~64 KiB 'huge' ones whose /d_recv "
        "message is tuned to 65496..65520 bytes) with a file-safe name of 1..246 "
        "characters (or an identifier for @synthdef, a generate_tmp_name() name, "
        "a 247..255 character name no file can carry), optional JSON/ControlSpec "
        "metadata, and a history of 3-8 operations over the emission routes and "
        "readers (directories: default / scratch, str / Path; servers: default, "
        "second local, remote; completion: none / list / function; stale files "
        "planted).  Non-trivial there: >= 4 units and >= 2 operations with traffic")
ASSUMPTIONS = [
    "independent strict SCgf-2 parser vf/scgf.py (from the synth definition "
    "file format document)",
    "documented input/output shape of the ~55 unit classes used "
    "(vf/gen_graph.py:UNIT_SHAPE) and which of them demand same-rate first "
    "inputs",
    "unique tag constants identify units; only tagged units take part in the "
    "width-first ordering check",
    "exceptions raised by the SynthDef constructor for *valid* programs are "
    "C01's subject and only counted here",
    "wrapbody: what becomes of the controls of a helper that failed in its body "
    "is not specified; kept as a whole or dropped as a whole per wrap level is "
    "accepted, a fall-back helper never reuses the parameter names of a helper "
    "that failed in its body (duplicated names would be the caller's doing); "
    "faults that leave a half-constructed unit behind (In.ar(0, 0), "
    "EnvGen.kr(None)) are not used",
    "routes: vf/osc.py decodes the captured packets; an absent completion "
    "message may be omitted or sent as int 0 / nil; a definition too big for a "
    "datagram may reach a local server as /d_load of a file with exactly its "
    "bytes and may not reach a remote server at all; file names are restricted "
    "to what the file system can carry (no '/', <= 246 characters; longer names "
    "must be refused with OSError by the file routes); patterns given to the "
    "readers are glob-escaped; directories with hidden files are not read by "
    "pattern; which servers `None` stands for in SynthDescLib.send is not judged",
    "routes: a version-1 file may be rejected (NotImplementedError today) or "
    "read correctly, never read as something else; multi-definition files put "
    "a definition with variant blocks in front of another one only as a probe "
    "whose first default is negative (a reader that does not step over the "
    "blocks fails at once instead of allocating the count it mis-reads)",
    "routes: metadata is outside the statement proper; judged only as "
    "consistency of the stored pair (JSON file next to the definition equals "
    "what the definition carries, no stale file of an earlier definition is "
    "left, MdPlugin.read/read_file/the file reader return it, the definition "
    "file is untouched by metadata operations)",
    "routes: a reconstructed definition is one the reader kept "
    "(keep_defs=True); where the reader fails to deliver one (reported) the "
    "harness marks a fresh definition with the documented metadata "
    "{'reconstructed': True, 'load_path': file} so that _load_reconstructed "
    "is still observed",
]
MIN_COUNTERS = {
    'quick': {'definitions_parsed': 1500, 'units_checked': 30000,
              'reader_roundtrips': 3000, 'width_first_pairs_checked': 3000,
              'invalid_rejected': 300, 'invalid_ctor_rejected': 1000,
              'definitions_parsed_big': 20,
              'definitions_parsed_mc': 200, 'definitions_parsed_wf': 200,
              'variant_blocks_checked': 50, 'names_longer_than_200': 20,
              'recovered_failing_wraps': 100,
              'failed_wrap_twins_compared': 100,
              'recovered_body_failures': 150,
              'body_failure_definitions_judged': 100,
              'body_failure_raised_by_user': 30,
              'body_failure_raised_by_library': 40,
              'body_failure_raised_by_python': 15,
              'body_failure_followed_by_fallback_wrap': 80,
              'body_failure_is_last_control_creator': 5,
              'body_failure_form_own': 40,
              'body_failure_form_inner-fails': 10,
              'body_failure_form_outer-ok-inner-caught': 10,
              'unwritable_retries_checked': 500,
              'unwritable_corrections_checked': 60,
              'definitions_parsed_bigarray': 100,
              'side_effect_units_counted': 10000,
              # routes (vf/c02_routes.py), per entry point
              'definitions_parsed_routes': 250,
              'route_send': 80, 'route_load': 60, 'route_store': 60,
              'route_add': 100, 'route_write_def_file': 60,
              'route_send_from_file': 50, 'route_load_from_file': 50,
              'route_load_reconstructed': 40, 'route_lib-send': 10,
              'route_decorator': 15, 'route_decorator_boot_actions': 15,
              'tmp_names_checked': 8, 'route_write_def_list': 20,
              'route_datagrams_judged': 400, 'route_files_judged': 400,
              'route_too_big_fallbacks': 8,
              'route_datagrams_within_500_of_the_bound': 2,
              'reader_read_file': 150, 'reader_lib_read': 40,
              'reader_file_roundtrips': 100,
              'reader_def_name_from_bytes': 800, 'reader_v1_files': 40,
              'multi_definition_files': 40,
              'multi_definition_files_with_variants_inside': 10,
              'md_write': 30, 'md_read': 25, 'md_read_file': 25,
              'md_delete': 25, 'md_files_judged': 150,
              'lib_match': 100, 'lib_remove_at': 60},
    'thorough': {'definitions_parsed': 50000, 'units_checked': 1000000,
                 'reader_roundtrips': 100000,
                 'width_first_pairs_checked': 100000, 'invalid_rejected': 10000,
                 'invalid_ctor_rejected': 20000,
                 'definitions_parsed_big': 500, 'definitions_parsed_mc': 5000,
                 'definitions_parsed_wf': 5000, 'variant_blocks_checked': 2000,
                 'names_longer_than_200': 500,
                 'recovered_failing_wraps': 20000,
                 'failed_wrap_twins_compared': 10000,
                 'recovered_body_failures': 12000,
                 'body_failure_definitions_judged': 8000,
                 'body_failure_raised_by_user': 3000,
                 'body_failure_raised_by_library': 4000,
                 'body_failure_raised_by_python': 2000,
                 'body_failure_followed_by_fallback_wrap': 7000,
                 'body_failure_is_last_control_creator': 800,
                 'body_failure_form_own': 4000,
                 'body_failure_form_inner-fails': 1500,
                 'body_failure_form_outer-ok-inner-caught': 1500,
                 'unwritable_retries_checked': 20000,
                 'unwritable_corrections_checked': 3000,
                 'definitions_parsed_bigarray': 3000,
                 'side_effect_units_counted': 300000,
                 'definitions_parsed_routes': 5000,
                 'route_send': 1600, 'route_load': 1200, 'route_store': 1200,
                 'route_add': 2000, 'route_write_def_file': 1200,
                 'route_send_from_file': 1000, 'route_load_from_file': 1000,
                 'route_load_reconstructed': 800, 'route_lib-send': 200,
                 'route_decorator': 300, 'route_decorator_boot_actions': 300,
                 'tmp_names_checked': 150, 'route_write_def_list': 400,
                 'route_datagrams_judged': 8000, 'route_files_judged': 8000,
                 'route_too_big_fallbacks': 150,
                 'route_datagrams_within_500_of_the_bound': 40,
                 'reader_read_file': 3000, 'reader_lib_read': 800,
                 'reader_file_roundtrips': 2000,
                 'reader_def_name_from_bytes': 16000, 'reader_v1_files': 800,
                 'multi_definition_files': 800,
                 'multi_definition_files_with_variants_inside': 200,
                 'md_write': 600, 'md_read': 500, 'md_read_file': 500,
                 'md_delete': 500, 'md_files_judged': 3000,
                 'lib_match': 2000, 'lib_remove_at': 1200},
}

KINDS = {'plain': 7000, 'mc': 7000, 'wf': 7000, 'variants': 4500, 'big': 720,
         'invalid': 4500, 'invalid-ctor': 9000, 'wrap': 5000,
         'unwritable': 4000, 'bigarray': 600,
         'routes': 6000, 'routes-rt': 3000}
# quick tier sizes (cases); also capped in seconds
RT_KINDS = ('routes-rt',)


def plan(tier, seed):
    mult = 1 if tier == 'quick' else 13
    secs = 40 if tier == 'quick' else 620
    shards = []
    for kind, n in KINDS.items():
        # at most 16 shards: one wave of workers
        parts = {'big': 1, 'variants': 1, 'invalid': 1, 'wrap': 1,
                 'unwritable': 1, 'bigarray': 1, 'plain': 1,
                 'routes-rt': 1}.get(kind, 2) \
            if tier == 'quick' else \
            {'big': 2, 'invalid': 1, 'variants': 1, 'wrap': 2,
             'unwritable': 1, 'bigarray': 1, 'wf': 1, 'plain': 1, 'mc': 1,
             'routes-rt': 1}.get(kind, 2)
        if tier == 'thorough' and kind == 'big':
            n = 600                       # x13 = 7800 big programs
        for p, (f, c) in enumerate(split(n * mult, parts)):
            shards.append({'name': f'{kind}{p}',
                           'mode': 'rt' if kind in RT_KINDS else 'nrt',
                           'kind': kind,
                           'first_case': f, 'n': c, 'secs': secs,
                           'hard_timeout': secs + 150})
    return shards


def f32(x):
    return struct.unpack('>f', struct.pack('>f', x))[0]


def err_code(msg):
    """mechanism class of a strict-parser message (no numbers, no unit names)"""
    import re
    for pat, code in ((r'refers to unit', 'input-not-strictly-earlier'),
                      (r'constant -?\d+ does not exist', 'input-constant-missing'),
                      (r'output -?\d+ of unit', 'input-output-missing'),
                      (r'trailing bytes', 'trailing-bytes'),
                      (r'non-ASCII', 'non-ascii-string'),
                      (r'empty class name', 'empty-class-name'),
                      (r'parameter name .* index', 'parameter-index-out-of-range'),
                      (r'negative', 'negative-count'),
                      (r'output rate', 'bad-output-rate'),
                      (r': rate ', 'bad-unit-rate'),
                      (r'bad magic|version|definition count', 'bad-header')):
        if re.search(pat, msg):
            return code
    m = re.match(r'truncated while reading (.*) at \d+', msg)
    if m:
        what = ''.join(c if c.isalpha() else ' ' for c in m.group(1)).split()
        return 'truncated-' + '-'.join(what)
    return 'unparseable'


SAME_RATE_FIRST_INPUT = ('LPF', 'HPF', 'OnePole', 'Lag', 'LinExp', 'SendTrig')
OUT_CLASSES = {'Out': 1, 'ReplaceOut': 1, 'OffsetOut': 1}
IN_CLASSES = ('In',)
RATE_WORD = {0: 'scalar', 1: 'control', 2: 'audio', 3: 'demand'}
CONTROL_OF_RATE = {'ir': ('Control', 0), 'kr': ('Control', 1),
                   'tr': ('TrigControl', 1), 'ar': ('AudioControl', 2)}


def wire_rate(d, w):
    return 0 if w[0] == 'c' else d.units[w[1]].out_rates[w[2]]


def structure(d, prog, gg, acc):
    """[(key, detail)] structural problems of the parsed definition."""
    out = []
    P = len(d.params)
    if d.name != prog['name']:
        out.append(('C02/name-differs', f'{d.name!r} != {prog["name"]!r}'))
    names = [nm for nm, _ in d.param_names]
    # controls of the function itself plus those of every successful
    # SynthDef.wrap, in creation order (a rejected helper creates none)
    declared = list(prog['params']) + list(prog.get('wrap_params') or [])
    if len(set(names)) != len(names):
        out.append(('C02/control-name-duplicated', repr(names)))
    slots = [ix for _, ix in d.param_names]
    if len(set(slots)) != len(slots):
        out.append(('C02/control-names-share-slot', repr(d.param_names)))
    if names != [p['name'] for p in declared]:
        out.append(('C02/control-names-differ',
                    f'{names} != {[p["name"] for p in declared]}'))
    # control units partition the slots
    cover = [None] * P
    for u in d.units:
        if u.cls in gg.CONTROL_CLASSES:
            for k in range(len(u.out_rates)):
                s = u.special + k
                if not (0 <= s < P):
                    out.append(('C02/control-slot-out-of-range', repr(u)))
                elif cover[s] is not None:
                    out.append(('C02/control-slot-covered-twice', repr(u)))
                else:
                    cover[s] = u
    if any(c is None for c in cover):
        out.append(('C02/control-slot-without-unit',
                    f'slots {[i for i, c in enumerate(cover) if c is None]}'))
    # declared controls: contiguous ranges, defaults, unit class and rate
    index = dict(d.param_names)
    used = [0] * P
    lagged_groups = {p.get('group', 0) for p in declared if p.get('lag')}
    for prm in declared:
        lagged = prm.get('group', 0) in lagged_groups
        ix = index.get(prm['name'])
        if ix is None:
            continue
        dv = prm['default'] if isinstance(prm['default'], list) \
            else [prm['default']]
        if ix + len(dv) > P:
            out.append(('C02/control-range-out-of-bounds', prm['name']))
            continue
        for k, x in enumerate(dv):
            used[ix + k] += 1
            if d.params[ix + k] != f32(x):
                out.append(('C02/control-default-differs',
                            f'{prm["name"]}[{k}]: {d.params[ix + k]} != {x}'))
            u = cover[ix + k]
            cls, rate = CONTROL_OF_RATE[prm['rate']]
            if prm['rate'] == 'kr' and lagged:
                cls = 'LagControl'
            if u is not None and (u.cls != cls or u.rate != rate):
                out.append(('C02/control-unit-differs',
                            f'{prm["name"]} ({prm["rate"]}): {u!r}'))
        acc.count('controls_checked')
    if any(c != 1 for c in used):
        out.append(('C02/control-ranges-not-a-partition', repr(used)))
    # units
    for u in d.units:
        acc.count('units_checked')
        shape = gg.UNIT_SHAPE.get(u.cls)
        ni, no = len(u.inputs), len(u.out_rates)
        if shape is None:
            acc.count('units_of_unknown_class')
        else:
            bad = (shape[0] is not None and shape[0] != ni) or \
                  (shape[1] is not None and shape[1] != no)
            if u.cls in OUT_CLASSES and ni < 2:
                bad = True
            if u.cls in ('DC', 'LagControl') and ni != no:
                bad = True
            if u.cls in ('In',) + gg.CONTROL_CLASSES and no < 1:
                bad = True
            if u.cls == 'SetBuf' and not (
                    ni >= 3 and u.inputs[2][0] == 'c'
                    and d.constants[u.inputs[2][1]] == ni - 3):
                bad = True
            if bad:
                out.append((f'C02/unit-shape/{u.cls}',
                            f'{u!r}: documented shape {shape}'))
        if any(r != u.rate for r in u.out_rates):
            out.append((f'C02/output-rate-differs/{u.cls}', repr(u)))
        if u.cls in SAME_RATE_FIRST_INPUT and u.inputs \
                and wire_rate(d, u.inputs[0]) != u.rate:
            out.append((f'C02/input-rate/{u.cls}', repr(u)))
        if u.cls == 'Pan2' and u.rate == 2 and u.inputs \
                and wire_rate(d, u.inputs[0]) != 2:
            out.append(('C02/input-rate/Pan2', repr(u)))
        if u.cls in OUT_CLASSES and u.rate == 2:
            if any(wire_rate(d, w) != 2 for w in u.inputs[1:]):
                out.append((f'C02/input-rate/{u.cls}', repr(u)))
        if u.cls in gg.ARITH_CLASSES:
            if u.rate != max([wire_rate(d, w) for w in u.inputs], default=0):
                out.append((f'C02/arith-rate/{u.cls}', repr(u)))
    for c in d.constants:
        if c != c:
            out.append(('C02/nan-constant', repr(d.constants)))
            break
    # every output / side-effecting statement of the function is a unit of the
    # definition (multichannel expansion can only add more of them)
    want, have = {}, {}
    expanded = any(nd['k'] == 'sink' and any(
        o[0] == 'n' and prog['nodes'][o[1]]['k'] != 'idx'
        and not isinstance(prog['nodes'][o[1]].get('k'), type(None))
        and _is_list_node(prog, o[1]) for o in nd.get('chans', ()))
        for nd in prog['nodes'])
    for nd in prog['nodes']:
        if nd['k'] == 'sink':
            want[nd['cls']] = want.get(nd['cls'], 0) + 1
        elif nd['k'] == 'raw' and nd['src'].startswith('Out.'):
            want['Out'] = want.get('Out', 0) + 1       # verbatim statements
    for u in d.units:
        if u.cls in want:
            have[u.cls] = have.get(u.cls, 0) + 1
    for cls, n in want.items():
        acc.count('side_effect_units_counted', n)
        h = have.get(cls, 0)
        if h < n or (h != n and not expanded):
            out.append((f'C02/side-effect-unit-missing/{cls}' if h < n else
                        f'C02/side-effect-unit-duplicated/{cls}',
                        f'the function creates {n} {cls} units, the definition '
                        f'has {h}'))
    return out


def _is_list_node(prog, i):
    nd = prog['nodes'][i]
    if nd['k'] == 'list':
        return True
    if nd['k'] == 'param':
        return isinstance(prog['params'][nd['i']]['default'], list)
    if nd['k'] == 'ugen' and nd['cls'] in ('In', 'Pan2'):
        return True
    return any(o[0] == 'n' and _is_list_node(prog, o[1])
               for o in __import__('vf.gen_graph', fromlist=['x']).operands_of(nd)
               if nd['k'] in ('un', 'bin', 'madd', 'sumn', 'ugen'))


def order(d, prog, gg, acc):
    tags = gg.tag_creation_order(prog)
    pos = []          # (position, node index, unit)
    for u in d.units:
        for w in u.inputs:
            if w[0] == 'c':
                c = d.constants[w[1]]
                if c == c and abs(c) < 1e9 and c == int(c) \
                        and int(c) in tags and gg.tag_belongs_to(
                        prog['nodes'][tags[int(c)]], u.cls):
                    pos.append((u.index, tags[int(c)], u))
                    break
    out = []
    for pw, nw, w in pos:
        if w.cls not in gg.WIDTH_FIRST_CLASSES:
            continue
        acc.count('width_first_units_checked')
        for pt, nt, t in pos:
            if nt > nw:
                acc.count('width_first_pairs_checked')
                if pt < pw:
                    out.append(('C02/width-first-order',
                                f'{t!r} was created after {w!r} but is placed '
                                f'before it'))
                    return out
    return out


def expected_desc(d):
    P = len(d.params)
    name_at = {ix: nm for nm, ix in d.param_names}
    cover = {}
    for u in d.units:
        if u.cls in ('Control', 'TrigControl', 'AudioControl', 'LagControl'):
            for k in range(len(u.out_rates)):
                cover[u.special + k] = u
    ctl = []
    first = None
    for s in range(P):
        nm = name_at.get(s, '?')
        ent = {'name': nm, 'index': s, 'default': d.params[s],
               'rate': RATE_WORD[cover[s].rate] if s in cover else '?'}
        if nm == '?' and first is not None:
            fd = first['default']
            first['default'] = (fd if isinstance(fd, list) else [fd]) \
                + [d.params[s]]
        elif nm != '?':
            first = ent
        ctl.append(ent)
    ios = {'in': [], 'out': []}
    for u in d.units:
        if u.cls in IN_CLASSES or u.cls in OUT_CLASSES:
            if u.cls in IN_CLASSES:
                n, lst = len(u.out_rates), ios['in']
            else:
                n, lst = len(u.inputs) - OUT_CLASSES[u.cls], ios['out']
            w = u.inputs[0]
            if w[0] == 'c':
                start = ('num', d.constants[w[1]])
            elif d.units[w[1]].cls in ('Control', 'TrigControl', 'LagControl'):
                start = ('name', name_at.get(d.units[w[1]].special + w[2], '?'))
            else:
                start = ('other', None)
            lst.append((RATE_WORD[u.rate], n, start, u.cls))
    return {'name': d.name, 'control_names': [nm for nm, _ in d.param_names],
            'controls': ctl, 'has_gate': 'gate' in name_at.values(),
            'in': ios['in'], 'out': ios['out']}


def compare_desc(desc, exp, acc):
    out = []
    if desc.name != exp['name']:
        out.append(('name', f'{desc.name!r} != {exp["name"]!r}'))
    if list(desc.control_names) != exp['control_names']:
        out.append(('control-names',
                    f'{desc.control_names} != {exp["control_names"]}'))
    got = [{'name': c.name, 'index': c.index, 'default': c.default_value,
            'rate': c.rate} for c in desc.controls]
    if got != exp['controls']:
        k = next((i for i, (a, b) in enumerate(zip(got, exp['controls']))
                  if a != b), None)
        field = 'count'
        if k is not None:
            field = next(f for f in ('name', 'index', 'default', 'rate')
                         if got[k][f] != exp['controls'][k][f])
        out.append((f'control-{field}',
                    f'slot {k}: {got[k] if k is not None else len(got)} != '
                    f'{exp["controls"][k] if k is not None else len(exp["controls"])}'))
    if bool(desc.has_gate) != exp['has_gate']:
        out.append(('has-gate', f'{desc.has_gate} != {exp["has_gate"]}'))
    for what, lst in (('in', desc.inputs), ('out', desc.outputs)):
        e = exp[what]
        g = [(io_.rate, io_.channels,
              io_.starting_channel if isinstance(
                  io_.starting_channel, (str, int, float)) else '<unit>',
              getattr(io_.type, '__name__', '?')) for io_ in lst]
        if [(a, b, dd) for a, b, _, dd in g] != [(a, b, dd) for a, b, _, dd in e]:
            out.append((f'{what}puts', f'{g} != {e}'))
            continue
        for (_, _, sc, _), (_, _, (kind, val), _) in zip(g, e):
            if kind == 'num':
                acc.count('io_start_channels_checked')
                if sc != val:
                    out.append((f'{what}put-bus' + ('-zero' if val == 0 else ''),
                                f'{sc!r} != {val!r}'))
            elif kind == 'name':
                acc.count('io_start_channels_checked')
                if sc != val:
                    out.append((f'{what}put-bus', f'{sc!r} != {val!r}'))
    return out


def expected_variants(d, prog):
    """[(name, values)] of the variants that must be written (note 'ok')."""
    index = dict(d.param_names)
    out = []
    for vn, pairs in prog['variants'].items():
        vals = list(d.params)
        for cname, v in pairs.items():
            v = v if isinstance(v, list) else [v]
            for k, x in enumerate(v):
                vals[index[cname] + k] = f32(x)
        out.append((prog['name'] + '.' + vn, vals))
    return out


# ---------------------------------------------------------------------------
# invalid inputs into every installed unit class (introspection, worker side)
# ---------------------------------------------------------------------------
SIGNAL_NAMES = {'input', 'in0', 'in1', 'input_a', 'input_b', 'left', 'right',
                'x', 'y', 'w', 'z', 'sig', 'trig', 'gate', 'reset', 'source',
                'src', 'in_', 'a', 'b', 'which', 'phase', 'freq', 'kernel'}
COUNT_NAMES = {'channels', 'num_channels', 'numchans', 'num_chans', 'n'}
LIST_NAMES = {'lst', 'input_list', 'values', 'array', 'inputs', 'spec_list'}
BUF_NAMES = {'bufnum', 'buf', 'buffer', 'bufpos', 'buf_a', 'buf_b'}
WRAPPERS = ('Out.ar(0, {x})', 'Out.kr(0, {x})',
            'Out.kr(0, Demand.kr(Impulse.kr(1), 0, {x}))',
            'Out.ar(0, IFFT.ar({x}))', '{x}')
BAD_VALUES = {'nan': "float('nan')", 'none': 'None', 'string': "'abc'",
              'object': 'object()'}
_CATALOGUE = None


def check_family(cls, ugn):
    """which input check a class uses: the helper its _check_inputs delegates
    to (mechanism key), read from the class by introspection"""
    import inspect
    base = ugn.SynthObject.__dict__['_check_inputs']
    for c in cls.__mro__:
        f = c.__dict__.get('_check_inputs')
        if f is None:
            continue
        if f is base:
            return 'default-check'
        try:
            src = inspect.getsource(f)
        except Exception:
            return c.__name__ + '-check'
        for helper in ('_check_n_inputs', '_check_sr_as_first_input',
                       '_check_when_audio', '_check_valid_inputs'):
            if helper in src:
                return f'{c.__name__}.{helper.strip("_")}'
        return c.__name__ + '-check'
    return 'default-check'


def build_catalogue(gg, scgf, acc):
    """[{'cls','m','rate','family','kw': [(name, text, substitutable)],
    'wrap'}]: constructor calls of installed unit classes that compile with
    plain scalar/signal arguments and whose unit is part of the emitted
    definition; found by introspection, nothing is assumed about a class that
    is not confirmed by building the valid call first."""
    global _CATALOGUE
    if _CATALOGUE is not None:
        return _CATALOGUE
    import inspect
    from sc3.synth import ugens as ugns, ugen as ugn
    from sc3.synth.ugens import inout as iou
    ns = gg.namespace()
    out = []
    skipped = []
    classes = own = 0
    for name, cls in sorted(ugns.installed_ugens.items()):
        if not isinstance(cls, type) or issubclass(cls, iou.AbstractControl) \
                or issubclass(cls, ugn.OutputProxy) or name not in ns:
            continue
        fam = check_family(cls, ugn)
        found = False
        for m in ('ar', 'kr', 'ir', 'new'):
            f = getattr(cls, m, None)
            if f is None:
                continue
            try:
                params = list(inspect.signature(f).parameters.values())
            except (TypeError, ValueError):
                continue
            sigtxt = {'ar': 'SinOsc.ar(440)', 'kr': 'SinOsc.kr(3)'}.get(m, '0.5')
            kw = []
            for pk, p in enumerate(params):
                k_first = pk == 0 or p.name != 'freq'
                if p.kind not in (p.POSITIONAL_OR_KEYWORD, p.KEYWORD_ONLY):
                    kw = None
                    break
                d = p.default
                if p.name in COUNT_NAMES:
                    kw.append((p.name, '2', False))
                elif p.name in LIST_NAMES:
                    kw.append((p.name, f'[{{bad}}, {sigtxt}]', True))
                elif p.name in SIGNAL_NAMES and k_first:
                    # signal inputs get a signal of the unit's rate even when
                    # they have a numeric default (filters reject scalars)
                    kw.append((p.name, sigtxt, True))
                elif isinstance(d, (int, float)) and not isinstance(d, bool):
                    kw.append((p.name, repr(d), True))
                elif d is p.empty:
                    if p.name in BUF_NAMES:
                        kw.append((p.name, '0', True))
                    else:
                        kw.append((p.name, sigtxt, True))
                # other defaults (None, strings, tuples): left alone
            if not kw or not any(k[2] for k in kw):
                continue
            call = f'{name}.{m}(' + ', '.join(
                f'{n}={t.format(bad=sigtxt)}' for n, t, _ in kw) + ')'
            for wrap in WRAPPERS:
                src = 'def graph():\n    ' + wrap.format(x=call) + '\n'
                try:
                    loc = dict(ns)
                    exec(src, loc)
                    raw = bytes(loc['SynthDef']('cat', loc['graph']).as_bytes())
                    d = scgf.parse(raw)
                except Exception:
                    continue
                us = [u for u in d.units if u.cls == name]
                if not us:
                    continue
                out.append({'cls': name, 'm': m, 'family': fam, 'kw': kw,
                            'wrap': wrap, 'rate': RATE_WORD[us[0].rate]})
                found = True
                break
        if found:
            classes += 1
            own += fam != 'default-check'
        elif any(getattr(cls, m, None) for m in ('ar', 'kr', 'ir', 'new')):
            skipped.append(name)
    acc.extra['catalogue'] = {
        'entries': len(out), 'classes': classes,
        'classes_with_own_input_check': own,
        'classes_without_usable_call': skipped,
        'families': sorted({e['family'] for e in out})}
    _CATALOGUE = out
    return out


# ---------------------------------------------------------------------------
# definitions whose graph builds but that can not be encoded: every request
# for the bytes, through every entry point, must be answered the same way
# ---------------------------------------------------------------------------
UNWRITABLE = ['big-constant', 'big-default', 'big-variant', 'name-too-long',
              'name-non-ascii']
BIG = [1e39, -3.5e38, 1e300, -1e40, 3.5e38]


def unwritable_program(rng, i, gg):
    what = UNWRITABLE[i % len(UNWRITABLE)]
    prog = gg.gen_program_c02(rng, 'plain',
                              name=''.join(rng.choice('abcdefgh_123')
                                           for _ in range(rng.randint(1, 18))))
    fixed = None
    if what == 'big-constant':
        prog['nodes'].append({'k': 'raw', 'src':
                              f'Out.kr(0, SinOsc.kr(3) * {rng.choice(BIG)!r})'})
    elif what == 'big-default':
        prog['params'].append({'name': 'big', 'rate': rng.choice(['kr', 'ir']),
                               'default': rng.choice(BIG), 'lag': 0})
    elif what == 'big-variant':
        prog['params'].append({'name': 'vp', 'rate': 'kr', 'default': 0.5,
                               'lag': 0})
        prog['variants'] = {'a': {'vp': 2.0}, 'b': {'vp': rng.choice(BIG)}}
        if rng.random() < 0.5:
            prog['variants'] = dict(reversed(list(prog['variants'].items())))
        fixed = ('b', 'vp', 1.5)
    elif what == 'name-too-long':
        prog['name'] = ''.join(rng.choice(ASCII) for _ in range(
            rng.choice([256, 257, 300, 511, 512])))
    else:
        prog['name'] = rng.choice(['se\u00f1al', '\u00e9', 'a\u20acb', 'x\u00df'])\
            + ''.join(rng.choice('abc') for _ in range(rng.randint(0, 5)))
    prog['kind'] = 'unwritable:' + what
    return prog, what, fixed


ASCII = ''.join(chr(c) for c in range(32, 127))


def run_unwritable(spec, acc, gg, scgf, SynthDesc):
    ENTRIES = {
        'as_bytes': lambda sd: bytes(sd.as_bytes()),
        'new_from': lambda sd: bytes(SynthDesc.new_from(sd).sdef.as_bytes()),
        'add': lambda sd: (sd.add(), bytes(sd.as_bytes()))[1],
    }
    for i in iter_cases(spec):
        rng = case_rng(spec['seed'], 'C02', 'unwritable', i)
        prog, what, fixed = unwritable_program(rng, i, gg)
        sig = h64(json.dumps([prog['name'], prog['params'], prog['nodes'],
                              prog.get('variants')], sort_keys=True, default=str))
        acc.count('programs_generated')
        try:
            sd = gg.build(prog)
        except Exception:
            # rejected at construction: nothing can be asked for its bytes
            acc.count('unwritable_rejected_by_constructor')
            acc.case(sig, nontrivial=False)
            continue
        acc.case(sig, nontrivial=True)
        seq = [rng.choice(['as_bytes', 'as_bytes', 'new_from', 'add'])]
        seq += [rng.choice(['as_bytes', 'as_bytes', 'new_from', 'add'])
                for _ in range(rng.randint(1, 3))]
        if 'as_bytes' not in seq[1:]:
            seq.append('as_bytes')
        outcomes = []
        for entry in seq:
            try:
                outcomes.append((entry, 'bytes', ENTRIES[entry](sd)))
            except Exception as e:
                outcomes.append((entry, 'raises', type(e).__name__))
            acc.count('unwritable_requests')
        first = outcomes[0]
        witness = {'case': i, 'what': what, 'requests': [
            (e, k, v if k == 'raises' else f'{len(v)} bytes')
            for e, k, v in outcomes], 'script': gg.script(prog)[:5000]}
        if first[1] == 'bytes':
            # the library found a way to write it: then it has to be a
            # complete, repeatable definition
            acc.count('unwritable_written_by_first_request')
            try:
                scgf.parse(first[2])
            except scgf.ScgfError as e:
                acc.violation(f'C02/unwritable-def/accepted/{what}',
                              dict(witness, detail=str(e)))
                continue
        for entry, k, v in outcomes[1:]:
            acc.count('unwritable_retries_checked')
            if first[1] == 'raises' and k == 'bytes':
                try:
                    scgf.parse(v)
                    ok = 'a complete definition'
                except scgf.ScgfError as e:
                    ok = f'not a definition ({e})'
                acc.violation(
                    f'C02/unwritable-def/bytes-after-failed-request/{entry}',
                    dict(witness, detail=f'first request ({first[0]}) raised '
                         f'{first[2]}; a later {entry} returned {len(v)} '
                         f'bytes: {ok}'))
                break
            if first[1] == 'raises' and v != first[2]:
                acc.violation('C02/unwritable-def/exception-class-changes',
                              dict(witness, detail=f'{first[2]} then {v}'))
                break
            if first[1] == 'bytes' and (k != 'bytes' or v != first[2]):
                acc.violation('C02/as-bytes-not-repeatable', witness)
                break
        if fixed and first[1] == 'raises':
            vn, cname, val = fixed
            try:
                sd.variants[vn][cname] = val        # correct the cause
                got = bytes(sd.as_bytes())
                good = json.loads(json.dumps(prog))
                good['variants'][vn][cname] = val
                want = bytes(gg.build(good).as_bytes())
                acc.count('unwritable_corrections_checked')
                if got != want:
                    acc.violation(
                        'C02/unwritable-def/bytes-after-correction-differ',
                        dict(witness, detail=f'{len(got)} bytes after the '
                             f'variant was corrected, a fresh build has '
                             f'{len(want)}'))
            except Exception as e:
                acc.violation(
                    'C02/unwritable-def/still-rejected-after-correction',
                    dict(witness, detail=safe(lambda: repr(e)[:300])))
        if acc.want_sample() and len(prog['nodes']) < 14:
            acc.sample(witness)


def invalid_ctor_program(rng, i, cat, gg):
    ent = cat[(i // len(BAD_VALUES)) % len(cat)]
    bad = sorted(BAD_VALUES)[i % len(BAD_VALUES)]
    sigtxt = {'ar': 'SinOsc.ar(440)', 'kr': 'SinOsc.kr(3)'}.get(ent['m'], '0.5')
    subs = [k for k, (_, _, ok) in enumerate(ent['kw']) if ok]
    pos = rng.choice(subs)
    args = []
    for k, (n, t, _) in enumerate(ent['kw']):
        if k == pos:
            t = t.format(bad=BAD_VALUES[bad]) if '{bad}' in t else BAD_VALUES[bad]
        else:
            t = t.format(bad=sigtxt)
        args.append(f'{n}={t}')
    call = f"{ent['cls']}.{ent['m']}(" + ', '.join(args) + ')'
    prog = gg.gen_program_c02(rng, 'plain')
    prog['nodes'].append({'k': 'raw', 'src': ent['wrap'].format(x=call)})
    what = f"{bad}-input/{ent['family']}/{ent['rate']}"
    prog['kind'] = 'invalid-ctor:' + what
    prog['invalid_call'] = call
    return prog, 'invalid:' + what


FOLDED_KEY = 'C02/operand-folded-to-python-number'


def folding_explains(prog, gg, scgf):
    """Attribution probe (keys only): the program is of the lifted class and,
    once the library does not hand Python numbers back to the graph function
    (x*0 -> 0.0, x.madd(0, c) -> c switched off inside this worker), it builds,
    is written, parses strictly and passes the structure and ordering
    predicates.  Only then is a failure of the same program on the real
    library attributed to the folded operand."""
    if not (prog.get('folding_agnostic') and prog.get('foldable_nodes')):
        return False
    from vf.props.C01 import no_folding
    from vf.common import Acc
    try:
        with no_folding():
            d = scgf.parse(bytes(gg.build(prog).as_bytes()))
        if prog.get('kind') == 'wrapbody':
            from vf import c02_wrapbody as wb
            prog, _ = wb.resolve(prog, [nm for nm, _ in d.param_names])
        scratch = Acc('C02', 'probe', 0, 'quick')
        return not (structure(d, prog, gg, scratch)
                    or order(d, prog, gg, scratch))
    except Exception:
        return False


def run_shard(spec, acc):
    from vf import gen_graph as gg, scgf, c02_wrapbody as wb
    from sc3.synth.synthdesc import SynthDesc
    kind0 = spec['shard']['kind']
    cat = build_catalogue(gg, scgf, acc) if kind0 == 'invalid-ctor' else None
    if kind0 == 'invalid-ctor' and len(cat) < 50:
        acc.mark_inconclusive(f'constructor catalogue has {len(cat)} entries')
        return
    if kind0 == 'unwritable':
        return run_unwritable(spec, acc, gg, scgf, SynthDesc)
    if kind0 in ('routes', 'routes-rt'):
        from vf import c02_routes
        return c02_routes.run(spec, acc, 'rt' if kind0 == 'routes-rt' else 'nrt')
    for i in iter_cases(spec):
        rng = case_rng(spec['seed'], 'C02', kind0, i)
        kind = kind0
        if kind0 == 'invalid':
            kind = 'invalid:' + gg.INVALID_KINDS[i % len(gg.INVALID_KINDS)]
        if kind0 == 'invalid-ctor':
            prog, kind = invalid_ctor_program(rng, i, cat, gg)
            acc.count('invalid_ctor_programs')
        elif kind0 == 'wrap' and i % 2:
            # the helper fails in its body, after its controls were built
            kind = 'wrapbody'
            prog = wb.gen_program(rng, gg)
            for k, v in wb.stats(prog).items():
                acc.count(k, v)
        else:
            prog = gg.gen_program_c02(rng, kind)
        sig = h64(json.dumps([prog['name'], prog['params'], prog['nodes'],
                              prog.get('variants')], sort_keys=True, default=str))
        invalid = kind.startswith('invalid:')
        acc.count('programs_generated')
        if len(prog['name']) > 200:
            acc.count('names_longer_than_200')
        # ---- build ----------------------------------------------------------
        try:
            sd = gg.build(prog)
        except Exception as e:
            if invalid and isinstance(e, (ValueError, TypeError)):
                acc.count('invalid_rejected')
                if kind0 == 'invalid-ctor':
                    acc.count('invalid_ctor_rejected')
                    acc.count('invalid_ctor_rejected_' + '/'.join(
                        kind.split(':')[1].split('/')[1:]))
                else:
                    acc.count('invalid_rejected_' + kind.split(':')[1])
                acc.case(sig, nontrivial=True)
            elif invalid:
                # e.g. the dead-code KeyError of C01 hit first: no verdict
                acc.count('invalid_build_failed_for_another_reason')
                acc.case(sig, nontrivial=False)
            else:
                # a valid program that does not compile: C01's statement, but
                # the mc / wf / big / wrap / variants programs exist only here
                acc.count('constructor_raised_for_valid_program')
                acc.case(sig, nontrivial=True)
                tb, last = e.__traceback__, None
                while tb is not None:
                    last, tb = tb, tb.tb_next
                sites = tb_sites(e)
                site = ':'.join(sites[-1]) if sites else 'graph-function'
                if last is not None and last.tb_frame.f_code.co_filename \
                        .startswith('<program'):
                    site = 'graph-function'
                key = f'C02/valid-program-rejected/{type(e).__name__}/{site}'
                manifestation = key
                if folding_explains(prog, gg, scgf):
                    key = FOLDED_KEY
                    acc.count(f'folded_operand_{type(e).__name__}@{site}')
                acc.violation(
                    key,
                    {'case': i, 'kind': kind, 'manifestation': manifestation,
                     'error': safe(lambda: repr(e)[:300]),
                     'script': gg.script(prog)[:6000], 'tb': safe(short_tb, e, 5)})
            continue
        try:
            raw = bytes(sd.as_bytes())
        except Exception as e:
            acc.case(sig, nontrivial=True)
            if invalid:
                acc.count('invalid_rejected')
                if kind0 == 'invalid-ctor':
                    acc.count('invalid_ctor_rejected')
                    acc.count('invalid_ctor_rejected_by_writer')
                else:
                    acc.count('invalid_rejected_' + kind.split(':')[1])
                continue
            sites = tb_sites(e)
            site = ':'.join(sites[-1]) if sites else '?'
            root = e.__cause__ or e
            key = f'C02/writer-raises/{type(root).__name__}/{site}'
            manifestation = key
            if folding_explains(prog, gg, scgf):
                # e.g. (x*0 + 2.0) ** 1005 computed by Python: a constant
                # that does not fit float32
                key = FOLDED_KEY
                acc.count(f'folded_operand_writer_{type(root).__name__}')
            acc.violation(
                key,
                {'case': i, 'kind': kind, 'manifestation': manifestation,
                 'error': safe(lambda: repr(root)[:300]),
                 'script': gg.script(prog), 'tb': safe(short_tb, e, 6)})
            continue
        # ---- parse ----------------------------------------------------------
        problems = []
        d = None
        try:
            d = scgf.parse(raw)
        except scgf.ScgfError as e:
            problems.append((f'C02/not-scgf/{err_code(str(e))}', str(e)))
            if kind in ('wrap', 'wrapbody'):
                acc.count('recovered_failing_wraps', sum(
                    nd['k'] == 'wrapfail' for nd in prog['nodes']))
                for how in ('new_from', 'read_stream'):   # the library's reader
                    try:
                        if how == 'new_from':
                            SynthDesc.new_from(sd)
                        else:
                            SynthDesc._read_stream(io.BytesIO(raw))
                        acc.count('reader_accepted_unparseable_bytes')
                    except Exception as e2:
                        sites = tb_sites(e2)
                        site = ':'.join(sites[-1]) if sites else '?'
                        problems.append((
                            f'C02/reader-raises/{type(e2).__name__}/{site}',
                            safe(lambda: f'{how}: {e2!r}'[:300])))
        if d is not None:
            again = bytes(sd.as_bytes())
            if again != raw:
                problems.append(('C02/as-bytes-not-repeatable',
                                 f'{len(raw)} bytes, then {len(again)}'))
            acc.count('definitions_parsed')
            acc.count('definitions_parsed_' + kind.split(':')[0])
            acc.maxi('max_units_in_a_definition', len(d.units))
            acc.maxi('max_constants_in_a_definition', len(d.constants))
            kept = True
            if kind == 'wrapbody':
                # which of the failed helpers' controls the name table shows
                prog, how = wb.resolve(prog, [nm for nm, _ in d.param_names])
                acc.count('body_failure_definitions_judged')
                acc.count('body_failure_controls_' + how)
                kept = how == 'kept'
            problems += structure(d, prog, gg, acc)
            problems += order(d, prog, gg, acc)
            if kind == 'wrapbody' and kept:
                # the fault itself leaves nothing behind: same bytes as the
                # program whose helpers lack the failing statement
                acc.count('recovered_failing_wraps', sum(
                    nd['k'] == 'wrapfail' for nd in prog['nodes']))
                try:
                    twin = bytes(gg.build(wb.twin(prog, gg)).as_bytes())
                    acc.count('body_failure_twins_compared')
                    if twin != raw:
                        k0 = next((k for k, (x, y) in enumerate(zip(raw, twin))
                                   if x != y), min(len(raw), len(twin)))
                        problems.append((
                            'C02/failed-wrap-leaves-residue/'
                            'body-failure-bytes-differ',
                            f'{len(raw)} bytes with the failing statements, '
                            f'{len(twin)} without; first difference at {k0}'))
                except Exception:
                    acc.count('body_failure_twin_did_not_build')
            if kind == 'wrap':
                # a rejected helper leaves nothing behind: same bytes as the
                # program that goes straight to the fallback
                acc.count('recovered_failing_wraps', sum(
                    nd['k'] == 'wrapfail' for nd in prog['nodes']))
                try:
                    twin = bytes(gg.build(
                        gg.without_failed_wraps(prog)).as_bytes())
                    acc.count('failed_wrap_twins_compared')
                    if twin != raw:
                        k0 = next((k for k, (x, y) in enumerate(zip(raw, twin))
                                   if x != y), min(len(raw), len(twin)))
                        problems.append((
                            'C02/failed-wrap-leaves-residue/bytes-differ',
                            f'{len(raw)} bytes with the failed wrap, '
                            f'{len(twin)} without; first difference at {k0}'))
                except Exception:
                    acc.count('failed_wrap_twin_did_not_build')
            if prog.get('variants'):
                note = prog.get('variants_note')
                acc.count('variant_programs_' + str(note))
                if note == 'ok':
                    exp = expected_variants(d, prog)
                    if d.variants != exp:
                        problems.append(('C02/variants-differ',
                                         f'{d.variants} != {exp}'))
                else:
                    exp = dict(expected_variants_lenient(d, prog))
                    for nm, vals in d.variants:
                        if nm in exp and exp[nm] is not None and vals != exp[nm]:
                            problems.append(('C02/variants-differ',
                                             f'{nm}: {vals} != {exp[nm]}'))
                acc.count('variant_blocks_checked', len(d.variants))
            # ---- library reader ------------------------------------------------
            exp = expected_desc(d)
            for how in ('new_from', 'read_stream'):
                try:
                    if how == 'new_from':
                        desc = SynthDesc.new_from(sd)
                    else:
                        lst = SynthDesc._read_stream(io.BytesIO(raw))
                        if len(lst) != 1:
                            problems.append(('C02/reader/definition-count',
                                             str(len(lst))))
                            continue
                        desc = lst[0]
                except Exception as e:
                    sites = tb_sites(e)
                    site = ':'.join(sites[-1]) if sites else '?'
                    problems.append((
                        f'C02/reader-raises/{type(e).__name__}/{site}',
                        safe(lambda: f'{how}: {e!r}'[:300])))
                    continue
                acc.count('reader_roundtrips')
                for what, detail in compare_desc(desc, exp, acc):
                    problems.append((f'C02/reader/{what}', f'{how}: {detail}'))
        if invalid:
            what = kind.split(':')[1]
            # what the library's reader makes of the bytes is judged for the
            # valid programs; here: are the emitted bytes a sound definition
            problems = [p for p in problems if not p[0].startswith('C02/reader')]
            if problems:
                key, detail = problems[0]
                acc.violation(f'C02/invalid-graph-emitted/{what}',
                              {'case': i, 'kind': kind, 'first_problem': key,
                               'invalid_call': prog.get('invalid_call'),
                               'detail': detail[:600], 'script': gg.script(prog)})
            else:
                # compiled into a definition that satisfies every predicate
                acc.count('invalid_compiled_into_wellformed_definition')
            acc.case(sig, nontrivial=True)
            continue
        feats = prog.get('features', ())
        nontriv = d is not None and len(d.units) >= 8 and (
            any(f.startswith(('mc-', 'wf-', 'multi', 'list', 'sink-list',
                              'recovered-failing-wrap'))
                for f in feats)
            or any(isinstance(p['default'], list) for p in prog['params'])
            or bool(prog.get('variants')))
        acc.case(sig, nontrivial=nontriv)
        if problems and any(not k.startswith('C02/reader') for k, _ in problems) \
                and folding_explains(prog, gg, scgf):
            acc.count('folded_operand_' + problems[0][0].split('/')[1])
            problems = [(FOLDED_KEY, f'{k}: {dt}') for k, dt in problems
                        if not k.startswith('C02/reader')][:1] + \
                       [(k, dt) for k, dt in problems
                        if k.startswith('C02/reader')]
        seen = set()
        for key, detail in problems:
            if key in seen:
                continue
            seen.add(key)
            acc.violation(key, {'case': i, 'kind': kind, 'detail': detail[:800],
                                'variants_note': prog.get('variants_note'),
                                'script': gg.script(prog)[:6000]})
        if acc.want_sample() and d is not None and 8 <= len(prog['nodes']) <= 24 \
                and nontriv:
            acc.sample({'case': i, 'kind': kind, 'program': gg.render(prog),
                        'definition_units': [repr(u) for u in d.units]})


def expected_variants_lenient(d, prog):
    """variants with a defect may be skipped; the ones written must carry the
    right values when all their controls exist and fit"""
    index = dict(d.param_names)
    width = {p['name']: (len(p['default']) if isinstance(p['default'], list)
                         else 1) for p in prog['params']}
    out = []
    for vn, pairs in prog['variants'].items():
        vals = list(d.params)
        ok = True
        for cname, v in pairs.items():
            v = v if isinstance(v, list) else [v]
            if cname not in index or len(v) > width[cname]:
                ok = False
                break
            for k, x in enumerate(v):
                vals[index[cname] + k] = f32(x)
        out.append((prog['name'] + '.' + vn, vals if ok else None))
    return out
