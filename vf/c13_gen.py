"""Seeded, typed generator of pattern expressions (ASTs of vf/model_patterns).

No sc3 import.  Kinds keep the expressions inside the documented domains:

  int   integers only            flt   dyadic floats only (k/4: exact arithmetic)
  num   ints and floats mixed    bool  truth values
  list1 lists of numbers         list2 lists of lists of numbers
  tup   Ptuple output            evt   dicts (event specifications)

Numbers are small dyadic rationals so that every float operation the model and
the library perform is exact or performed identically (same IEEE operation on
the same operands); comparison can therefore be exact.
"""

from vf.model_patterns import INF, isnode, OMIT

INT_LITS = [-3, -2, -1, 0, 1, 2, 3, 4, 5, 7, 9]
FLT_LITS = [k * 0.25 for k in (-10, -6, -4, -3, -2, -1, 0, 1, 2, 3, 4, 5, 6, 8, 10, 13, 18)]

import os

LIFT = set(os.environ.get('C13_LIFT', '').split(','))   # scratch audits only

POLY = ['Pseq', 'Pser', 'Place', 'Placep', 'Plazy', 'Pn', 'Plen', 'Pdrop', 'Pstutter', 'Pswitch',
        'Pswitch1', 'Pslide']
# round 7b: Pwalk (deterministic steps), Platch, Pwhile, Ptrace / .trace(),
# Pvalue; Pgate (needs an input event, so it is chosen less often)
POLY2 = ['Pwalk', 'Platch', 'Pwhile', 'Ptrace', 'Pvalue']
NUMERIC = ['Pseries', 'Pgeom', 'Pdiff', 'Pconst', 'Pwrap', 'Pcollect',
           'Pselect', 'Preject', 'Pif', 'Punop', 'Pbinop', 'Pnarop',
           'Pseed', 'Pfuncn', 'Prout', 'Pfunc', 'PfuncnI', 'ProutI', 'PcollectI',
           'PlazyI', 'Pprorate', 'Pproduct', 'Pgen', 'Pseed']
EVT_LITS = [{'a': 1}, {'a': 2, 'b': 0.5}, {'b': -1}, {'k': 9}, {'g': True, 'a': 3},
            {}, {'a': [1, 2]}]


class Gen:
    def __init__(self, rng, max_depth=5):
        self.r = rng
        self.max_depth = max_depth
        self.exact = 0      # >0: below a wrap/mod/Pconst: dyadic values only
        self.noinval = 0    # >0: below a decorator-made pattern, whose arguments
                            # are pulled without input value: no Pgate there

    def gx(self, kind, d):
        """sub-expression whose values must be dyadic (no float random leaf):
        wrap, mod and Pconst compare partial results computed by different
        but mathematically equal formulas."""
        self.exact += 1
        try:
            return self.g(kind, d)
        finally:
            self.exact -= 1

    # ---- literals --------------------------------------------------------
    def lit(self, kind):
        r = self.r
        if kind == 'int':
            return r.choice(INT_LITS)
        if kind == 'flt':
            return r.choice(FLT_LITS)
        if kind == 'num':
            return r.choice(INT_LITS) if r.random() < 0.5 else r.choice(FLT_LITS)
        if kind == 'bool':
            return r.random() < 0.5
        if kind == 'list1':
            return [self.lit('num') for _ in range(r.randint(1, 3))]
        if kind == 'list2':
            return [self.lit('list1') if r.random() < 0.7 else self.lit('num')
                    for _ in range(r.randint(1, 3))]
        if kind == 'tup':
            return [self.lit('num') for _ in range(2)]
        if kind == 'evt':
            return dict(r.choice(EVT_LITS))
        raise ValueError(kind)

    def repeats(self, lo=0, hi=3, pinf=0.12):
        r = self.r
        if r.random() < pinf:
            return INF
        if lo == 0 and r.random() > 0.06:      # zero repeats: rare but present
            lo = 1
        return r.randint(lo, hi)

    def subkind(self, kind):
        if kind == 'num':
            return self.r.choice(['int', 'flt', 'num'])
        return kind

    # ---- items of list patterns -------------------------------------------
    def item(self, kind, d):
        if d > 0 and self.r.random() < 0.45:
            return self.g(self.subkind(kind), d - 1)
        return self.lit(kind)

    def items(self, kind, d, lo=1, hi=4):
        return [self.item(kind, d) for _ in range(self.r.randint(lo, hi))]

    # ---- small integer argument patterns -------------------------------------
    def count(self, lo, hi, d, allow_pat=True):
        """literal int in lo..hi or a pattern of such ints"""
        r = self.r
        if not allow_pat or r.random() < 0.55:
            return r.randint(lo, hi)
        vals = [r.randint(lo, hi) for _ in range(r.randint(1, 4))]
        c = r.random()
        if c < 0.6:
            return ('Pseq', vals, self.repeats(1, 3, 0.4), 0)
        if c < 0.8:
            return ('Pser', vals, r.randint(1, 6), r.randrange(len(vals)))
        return ('Pstutter', ('Pseq', vals, self.repeats(1, 2, 0.4), 0),
                r.randint(1, 2))

    def bounds(self, kind, pat_ok=True):
        r = self.r
        if kind == 'int':
            los, his = [-3, -2, 0, 1], [2, 3, 5, 8]
        else:
            los, his = [-1.5, -0.5, 0.0, 0.25], [1.0, 1.5, 2.75, 4.0]
        if pat_ok and r.random() < 0.3:
            lo = ('Pseq', [r.choice(los) for _ in range(r.randint(1, 3))], INF, 0)
            hi = ('Pseq', [r.choice(his) for _ in range(r.randint(1, 3))],
                  self.repeats(2, 6, 0.6), 0)
            return lo, hi
        return r.choice(los), r.choice(his)

    # ---- expressions ----------------------------------------------------------
    def base(self, kind):
        r = self.r
        if kind in ('int', 'flt') and r.random() < 0.3:
            step = self.lit(kind)
            return ('Pseries', self.omit(self.lit(kind), 0.15), self.omit(step, 0.15),
                    self.repeats(1, 6))
        lits = [self.lit(kind) for _ in range(r.randint(1, 4))]
        c = r.random()
        if c < 0.7:
            return ('Pseq', lits, self.repeats(0, 3),
                    r.randrange(len(lits)) if r.random() < 0.4 else 0)
        return ('Pser', lits, self.repeats(0, 7), r.randrange(len(lits)))

    def g(self, kind, d):
        r = self.r
        if d <= 0:
            return self.base(kind)
        cands = list(POLY) + POLY2
        if r.random() < 0.3 and not self.noinval:
            cands.append('Pgate')
        if kind in ('int', 'flt', 'num'):
            cands += NUMERIC + ['Pbinop', 'Punop', 'Pif']
            if kind == 'num':
                cands += ['Pflatten'] * 3
        elif kind == 'bool':
            cands += ['Pbinop_cmp'] * 6 + ['Pif', 'Pselect']
        elif kind == 'list1':
            cands += ['Pclump'] * 5 + ['Pcollect_box', 'Pselect_true',
                                       'Pproduct_list', 'Pproduct_list']
        elif kind == 'list2':
            cands += ['Pclump'] * 5
        elif kind == 'tup':
            cands += ['Ptuple'] * 6
        cls = r.choice(cands)
        return getattr(self, 'mk_' + cls)(kind, d)

    # polymorphic ------------------------------------------------------------
    def far_offset(self, off, size):
        """sometimes an offset outside 0..size-1: the starting index wraps
        around the (cyclic) list, as Pser and Pslide of the library do and as
        sclang's wrapAt does"""
        if self.r.random() < 0.12:
            return self.r.randint(-2 * size - 1, 2 * size + 1)
        return off

    def mk_Pseq(self, kind, d):
        items = self.items(kind, d)
        off = self.r.randrange(len(items)) if self.r.random() < 0.5 else 0
        off = self.far_offset(off, len(items))
        return ('Pseq', items, self.repeats(), off)

    def mk_Pser(self, kind, d):
        items = self.items(kind, d)
        return ('Pser', items, self.repeats(0, 7),
                self.far_offset(self.r.randrange(len(items)), len(items)))

    def mk_Place(self, kind, d):
        r = self.r
        n = r.randint(1, 4)
        items = []
        for _ in range(n):
            c = r.random()
            if c < 0.45 and kind not in ('list1', 'list2', 'tup'):
                # sub-list: interlaced, one element per repeat
                items.append([self.lit(kind) for _ in range(r.randint(1, 3))])
            else:
                items.append(self.item(kind, d))
        if kind in ('list1', 'list2', 'tup'):
            # a literal list item would be read as an interlace list: use
            # patterns only for list-valued kinds
            items = [i if isnode(i) else self.g(kind, d - 1) for i in items]
        off = self.far_offset(r.randrange(len(items)) if r.random() < 0.4 else 0,
                              len(items))
        return ('Place', items, self.repeats(0, 4), off)

    def mk_Placep(self, kind, d):
        # sub-patterns of unequal length, re-polled on every pass
        r = self.r
        items = [self.g(self.subkind(kind), d - 1) if r.random() < 0.75
                 else self.lit(kind) for _ in range(r.randint(1, 4))]
        if not any(isnode(i) for i in items):
            items[0] = self.g(self.subkind(kind), d - 1)
        off = self.far_offset(r.randrange(len(items)) if r.random() < 0.4 else 0,
                              len(items))
        return ('Placep', items, self.repeats(0, 6, 0.3), off)

    def mk_Pn(self, kind, d):
        return ('Pn', self.g(self.subkind(kind), d - 1), self.repeats(0, 3))

    def mk_Plen(self, kind, d):
        sub = self.g(self.subkind(kind), d - 1)
        n = self.r.choice([0, 1, 2, 3, 4, 5, 6, 7, 9, 12, 70])
        if self.r.random() < 0.3:
            n = self.near_len(sub, n)
        return ('Plen', sub, n)

    def mk_Pdrop(self, kind, d):
        sub = self.g(self.subkind(kind), d - 1)
        n = self.r.randint(0, 5)
        if self.r.random() < 0.3:
            n = self.near_len(sub, n)
        return ('Pdrop', sub, n)

    def mk_Pstutter(self, kind, d):
        return ('Pstutter', self.g(self.subkind(kind), d - 1),
                self.count(-2, 3, d))       # negative n: |n| repetitions

    def mk_Pswitch(self, kind, d):
        return ('Pswitch', self.items(kind, d), self.count(-2, 6, d))

    def mk_Pswitch1(self, kind, d):
        return ('Pswitch1', self.items(kind, d), self.count(-2, 6, d))

    def mk_Pslide(self, kind, d):
        r = self.r
        items = self.items(kind, d, 1, 5)
        return ('Pslide', items, self.count(0, 4, d), self.count(-2, 3, d),
                r.randint(0, len(items) - 1), r.random() < 0.6,
                self.repeats(0, 4))

    # numeric --------------------------------------------------------------------
    def nk(self, kind):
        """a concrete numeric kind for homogeneous operations"""
        return self.r.choice(['int', 'flt']) if kind == 'num' else kind

    def omit(self, v, p=0.2):
        """leave a defaulted constructor argument out"""
        return OMIT if self.r.random() < p else v

    def mk_Pseries(self, kind, d):
        k = self.nk(kind)
        step = self.g(k, d - 1) if self.r.random() < 0.4 else self.lit(k)
        return ('Pseries', self.omit(self.lit(k)), self.omit(step),
                self.omit(self.repeats(0, 8), 0.1))

    def mk_Pgeom(self, kind, d):
        k = self.nk(kind)
        r = self.r
        grows = [-1, 2, 3, 1, 0] if k == 'int' else [0.5, 2.0, -1.0, 1.5, 1.0]
        if r.random() < 0.3:
            grow = ('Pseq', [r.choice(grows) for _ in range(r.randint(1, 3))],
                    self.repeats(1, 3, 0.5), 0)
        else:
            grow = r.choice(grows)
        return ('Pgeom', self.omit(self.lit(k)), self.omit(grow),
                self.omit(self.repeats(0, 8), 0.1))

    def mk_Pdiff(self, kind, d):
        return ('Pdiff', self.g(self.subkind(kind), d - 1))

    def mk_Pconst(self, kind, d):
        k = self.nk(kind)
        r = self.r
        if r.random() < 0.45:
            # a constructed source whose running total lands at a chosen place
            # of the tolerance window (see pconst_edge)
            # (below a wrap / mod only dyadic data: see gx)
            return self.pconst_edge('int' if k == 'int' else
                                    r.choice(['dyadic', 'coarse']) if self.exact
                                    else None)
        total = r.choice([1, 3, 6, 10, 17]) if k == 'int' else \
            r.choice([0.75, 2.5, 4.0, 9.25])
        if r.random() < 0.3:
            # an explicit tolerance with an arbitrary source: whatever zone the
            # totals fall into (the model gives no verdict at the undecided ones)
            tol = r.choice([1, 2, 3, 0, 0.5]) if k == 'int' else \
                r.choice([0.125, 0.5, 1.0, 0.001, 0.0, 0.0625, 1])
            return ('Pconst', self.gx(k, d - 1), total, tol)
        return ('Pconst', self.gx(k, d - 1), total)

    # ---- numeric edges (round 9) ------------------------------------------------
    # Pconst: `tolerance` decides at which running total the pattern ends.  The
    # source is planned in integer units u (tolerance = U units, sum = S units):
    # a prefix whose totals stay outside the window, one value that lands L
    # units below the sum (L < 0: beyond it), then a tail, so that what the
    # pattern does AT that total (end with the remainder / hand the value on)
    # shows in length and content.  Families: tolerance left out (0.001) or
    # decimal (data on a grid of tolerance / 10: 0.7493), dyadic and coarse
    # tolerances (0.5, 0.25, 1.5: data on tolerance / 8 or / 4), int tolerance
    # with int data, int data with a tolerance below 1.
    PCONST_FAMILIES = ['default', 'default', 'default', 'decimal', 'decimal', 'dyadic',
                       'dyadic', 'coarse', 'coarse', 'int', 'int', 'intdata']

    def pconst_edge(self, fam=None):
        r = self.r
        ints_only = fam == 'int'
        if fam == 'int':
            fam = r.choice(['int', 'int', 'intdata'])
        elif fam is None:
            fam = r.choice(self.PCONST_FAMILIES)
        sum_int = False
        if fam in ('default', 'decimal'):
            # (0.3, 0.03, 0.15, 0.6: decimals whose double lies below them)
            tol = 0.001 if fam == 'default' else r.choice([0.01, 0.1, 0.05, 0.02, 0.001,
                                                            0.005, 0.0001, 0.2, 0.3,
                                                            0.03, 0.15, 0.6])
            U = 10
            conv = lambda n: round(n * tol / 10, 12)
            sums = [x for x in (0.5, 1.0, 1.5, 2.0, 3.0, 4.0, 0.25, 10.0, 1, 2, 4, 5, 8,
                                0.1, 0.75, 1.2, 2.4, 0.9, 0.6, 1.8, 3, 6, 0.45, 0.12)
                    if abs(x / tol - round(x / tol)) < 1e-6 and 1 <= round(x / tol) <= 20000]
            total = r.choice(sums)
            S = round(total / tol) * U
            omit = fam == 'default' and r.random() < 0.7
        elif fam in ('dyadic', 'coarse'):
            if fam == 'dyadic':
                tol, U = r.choice([0.125, 0.0625, 2.0 ** -10, 0.25, 0.03125]), 8
            else:
                tol, U = r.choice([0.5, 0.25, 1.5, 2.5, 1.0, 2.0, 4.0, 1, 2]), r.choice([4, 8])
            conv = lambda n: n * (float(tol) / U)
            K = r.randint(1, 24 if fam == 'dyadic' else 9)
            total = K * tol
            if float(total).is_integer() and r.random() < 0.5:
                total = int(total)
            S = K * U
            omit = False
        elif fam == 'int':
            tol = r.choice([2, 3, 4, 6, 2, 4, 1, 8])
            U = tol
            conv = lambda n: n
            K = r.randint(1, 8)
            total, S = K * tol, K * U
            omit = False
        else:                   # int data, tolerance smaller than the data's grid
            tol = r.choice([0.001, 0.001, 0.5, 0.0, 0, 0.25])
            U = 0
            conv = lambda n: n
            total = S = r.randint(1, 24)
            omit = tol == 0.001 and r.random() < 0.7
        if U and r.random() < 0.1:
            # a sum that is not a multiple of the tolerance: decided only
            # outside the window (model) / by the reading-independent audit
            off = r.randint(1, U - 1) if U > 1 else 0
            S += off
            total = conv(S) if fam != 'int' else S
        # ---- where the deciding total lands -----------------------------------
        if U >= 2:
            h = U // 2
            lands = [0, 0, -1, -U, 1, h, h + 1, U - 1, U - 1, h + 1, U, U + 1, 2 * U,
                     U + h] + ([h - 1] if h > 1 else [])
        else:
            lands = [0, 0, -1, -2, 1, 2, 3]
        L = r.choice(lands)
        t = S - L
        if t < 1:
            L, t = 0, S
        last_min = max(1, U - L + 1)
        if t <= last_min:
            last = t
        else:
            last = r.randint(last_min, min(t, last_min + 3 * max(U, 2)))
        P = t - last
        items = self.units_prefix(P, conv, total, tol, omit) if P > 0 else []
        items.append(conv(last))
        for _ in range(r.choice([0, 1, 1, 2, 3])):
            items.append(conv(r.randint(1, 2 * max(U, 2))))
        if fam == 'intdata' and not ints_only and r.random() < 0.3:
            items = [float(i) if not isnode(i) and r.random() < 0.5 else i for i in items]
        src = ('Pseq', items, INF if r.random() < 0.5 else 1, 0)
        if omit:
            return ('Pconst', src, total)
        return ('Pconst', src, total, tol)

    def units_prefix(self, P, conv, total, tol, omit):
        """items (numbers and patterns) whose values add up to P units"""
        r = self.r
        shape = r.choice(['lits', 'lits', 'series', 'geom', 'stutter', 'repeat', 'const'])
        items, rem = [], P
        if shape == 'series' and P >= 3:
            n = r.randint(2, 12)        # (accumulated: start, start + step, ...)
            st = r.randint(0, 3)
            a = (P - st * n * (n - 1) // 2) // n
            if a >= 1:
                items.append(('Pseries', conv(a), conv(st), n))
                rem = P - (n * a + st * n * (n - 1) // 2)
        elif shape == 'geom' and P >= 3:
            n = r.randint(2, 4)
            a = P // (2 ** n - 1)
            if a >= 1:
                items.append(('Pgeom', conv(a), 2, n))
                rem = P - a * (2 ** n - 1)
        elif shape == 'stutter' and P >= 2:
            c1, c2 = r.randint(1, 3), r.randint(0, 2)
            a = P // (c1 + c2)
            if a >= 1:
                items.append(('Pstutter', ('Pseq', [conv(a), conv(a + 1), conv(a)], 1, 0),
                              ('Pseq', [c1, 0, c2], 1, 0)))
                rem = P - a * (c1 + c2)
        elif shape == 'repeat' and P >= 2:
            n = r.randint(2, 6)
            a = P // n
            if a >= 1:
                items.append(('Pn', ('Pseq', [conv(a)], 1, 0), n) if r.random() < 0.5
                             else ('Pseq', [conv(a)], n, 0))
                rem = P - a * n
        elif shape == 'const' and P >= 2:
            # the values of a constrained sum add up to its sum
            x = r.randint(1, P)
            inner = ('Pconst', ('Pseq', [conv(x)], INF, 0), conv(P))
            items.append(inner if omit else inner + (tol,))
            rem = 0
        if rem > 0:
            m = r.randint(1, min(4, rem))
            cuts = sorted(r.sample(range(1, rem), m - 1)) if m > 1 else []
            parts = [b - a for a, b in zip([0] + cuts, cuts + [rem])]
            lits = [conv(x) for x in parts]
            if r.random() < 0.5:
                items = items + lits
            else:
                items = lits + items
        return items

    def near_len(self, sub, n_default):
        """a count at or next to the length of sub's sequence (truncation /
        dropping / clumping exactly at the end, one before, one beyond)"""
        from vf import model_patterns as mp
        try:
            vals, ended = mp.take(sub, 40, fuel=4000)
        except Exception:
            return n_default
        if not ended:
            return n_default
        return max(0, len(vals) + self.r.choice([-1, 0, 0, 1]))

    def edge(self, d):
        """an expression around one numeric edge, nested in up to 2 contexts"""
        r = self.r
        node = self.pconst_edge()
        for _ in range(r.choice([0, 1, 1, 2])):
            c = r.choice(['seq', 'seq', 'pn', 'stutter', 'len', 'drop', 'add', 'clump',
                          'diff', 'ident', 'switch1', 'outer'])
            if c == 'seq':
                node = ('Pseq', [node, r.choice([-1, 0.5, 7])], r.choice([2, 2, 3]), 0)
            elif c == 'pn':
                node = ('Pn', node, 2)
            elif c == 'stutter':
                node = ('Pstutter', node, self.count(0, 2, 1))
            elif c == 'len':
                node = ('Plen', node, self.near_len(node, 3))
            elif c == 'drop':
                node = ('Pdrop', node, self.near_len(node, 1))
            elif c == 'add':
                node = ('Pbinop', 'add', 'op', node, r.choice([0, 1, 0.5])) \
                    if r.random() < 0.5 else \
                    ('Pbinop', 'add', 'op', r.choice([0, 1, 0.5]), node)
            elif c == 'clump':
                node = ('Pflatten', ('Pclump', node, self.count(0, 3, 1)), 1)
            elif c == 'diff':
                node = ('Pdiff', node)
            elif c == 'ident':
                node = ('Pcollect', 'ident', node)
            elif c == 'switch1':
                node = ('Pswitch1', [node, 9], ('Pseq', [0, 0, 1], INF, 0))
            else:
                # a constrained sum of constrained sums: the inner sequences
                # add up to their sums, the outer one cuts after some of them
                if node[0] == 'Pconst' and isinstance(node[2], int):
                    node = ('Pconst', ('Pn', node, INF), node[2] * 2 + r.choice([0, 1]))
        return node

    def bkind(self, k):
        """kind of the bounds: mostly the receiver's, sometimes the other
        numeric kind (int receiver with float bounds and vice versa)"""
        if self.r.random() < 0.25:
            return 'flt' if k == 'int' else 'int'
        return k

    def mk_Plazy(self, kind, d):
        return ('Plazy', self.g(self.subkind(kind), d - 1))

    def mk_Pfuncn(self, kind, d):
        return ('Pfuncn', self.lit(self.nk(kind)), self.repeats(0, 5, 0.1))

    def mk_Pfunc(self, kind, d):
        return ('Plen', ('Pfunc', self.lit(self.nk(kind))), self.r.randint(0, 6)) \
            if self.r.random() < 0.7 else ('Pfunc', self.lit(self.nk(kind)))

    def mk_Prout(self, kind, d):
        k = self.nk(kind)
        return ('Prout', [self.lit(k) for _ in range(self.r.randint(0, 5))])

    # values computed from the input value of the pulls -----------------------------
    def icoef(self, k):
        return self.r.choice([1, 2, -1]) if k == 'int' else self.r.choice([0.5, 1.0, -2.0])

    def mk_PfuncnI(self, kind, d):
        k = self.nk(kind)
        return ('PfuncnI', self.icoef(k), self.lit(k), self.repeats(1, 5, 0.1))

    def mk_ProutI(self, kind, d):
        k = self.nk(kind)
        return ('ProutI', self.icoef(k),
                [self.lit(k) for _ in range(self.r.randint(1, 5))])

    def mk_PcollectI(self, kind, d):
        k = self.nk(kind)
        return ('PcollectI', self.icoef(k), self.g(k, d - 1))

    def mk_PlazyI(self, kind, d):
        k = self.nk(kind)
        return ('PlazyI', self.icoef(k),
                [self.lit(k) for _ in range(self.r.randint(1, 4))])

    def mk_Pwrap(self, kind, d):
        k = self.nk(kind)
        lo, hi = self.bounds(self.bkind(k))
        return ('Pwrap', self.gx(k, d - 1), lo, hi)

    def mk_Pcollect(self, kind, d):
        if kind == 'int':
            f = self.r.choice(['dbl', 'inc', 'neg', 'sq', 'ident'])
            return ('Pcollect', f, self.g('int', d - 1))
        if kind == 'flt':
            f = self.r.choice(['dbl', 'inc', 'neg', 'sq', 'half', 'ident'])
            return ('Pcollect', f, self.g('flt', d - 1))
        f = self.r.choice(['dbl', 'inc', 'neg', 'sq', 'half', 'ident'])
        return ('Pcollect', f, self.g(self.subkind('num'), d - 1))

    def mk_Pcollect_box(self, kind, d):
        return ('Pcollect', 'box', self.g('num', d - 1))

    def mk_Pselect_true(self, kind, d):
        return ('Pselect', 'true', self.g(kind, d - 1))

    def mk_Pselect(self, kind, d):
        if kind == 'bool':
            return ('Pselect', self.r.choice(['true', 'nonneg']),
                    self.g('bool', d - 1))
        return ('Pselect', self.r.choice(['gt2', 'even', 'lt5', 'nonneg', 'true',
                                          'false']),
                self.g(self.subkind(kind), d - 1))

    def mk_Preject(self, kind, d):
        return ('Preject', self.r.choice(['gt2', 'even', 'lt5', 'nonneg', 'true',
                                          'false']),
                self.g(self.subkind(kind), d - 1))

    def mk_Pif(self, kind, d):
        return ('Pif', self.g('bool', d - 1), self.g(self.subkind(kind), d - 1),
                self.g(self.subkind(kind), d - 1))

    def operand(self, kind, d, p_lit=0.4):
        if self.r.random() < p_lit:
            return self.lit(kind)
        return self.g(kind, d - 1)

    def mk_Punop(self, kind, d):
        r = self.r
        op = r.choice(['neg', 'abs', 'squared', 'pos'])
        form = {'neg': ['op', 'meth'], 'abs': ['op', 'meth'],
                'squared': ['meth', 'bi'], 'pos': ['op']}[op]
        return ('Punop', op, r.choice(form), self.g(self.subkind(kind), d - 1))

    def mk_Pbinop(self, kind, d):
        r = self.r
        if kind == 'int':
            ka = kb = 'int'
        elif kind == 'flt':
            ka = kb = 'flt'
        else:
            ka, kb = r.choice([('int', 'flt'), ('flt', 'int'), ('num', 'num')])
        op = r.choice(['add', 'sub', 'mul', 'mod', 'min', 'max', 'absdif',
                       'sumsqr'] + (['truediv'] if kind != 'int' else []))
        if op == 'mod':
            a = self.gx(ka, d - 1)
            k = self.nk(kb)
            mods = [2, 3, 5, 7] if k == 'int' else [0.5, 1.25, 2.0, 3.0]
            if r.random() < 0.3:
                b = ('Pseq', [r.choice(mods) for _ in range(r.randint(1, 3))],
                     self.repeats(1, 4, 0.5), 0)
            else:
                b = r.choice(mods)
            return ('Pbinop', 'mod', 'op', a, b)
        if op == 'truediv':
            a = self.g(ka, d - 1)
            b = r.choice([2, 4, 0.5, -2, -0.25])
            return ('Pbinop', 'truediv', 'op', a, b)
        c = r.random()
        if c < 0.3:
            a, b = self.lit(ka), self.g(kb, d - 1)       # number on the left
        elif c < 0.6:
            a, b = self.g(ka, d - 1), self.lit(kb)
        else:
            a, b = self.g(ka, d - 1), self.g(kb, d - 1)
        if op in ('min', 'max', 'absdif', 'sumsqr'):
            form = r.choice(['meth', 'bi']) if isnode(a) else 'bi'
        else:
            form = 'op'
        return ('Pbinop', op, form, a, b)

    def mk_Pbinop_cmp(self, kind, d):
        r = self.r
        op = r.choice(['lt', 'le', 'gt', 'ge', 'eq', 'ne'])
        ka, kb = r.choice([('int', 'int'), ('flt', 'flt'), ('int', 'flt'),
                           ('num', 'num')])
        c = r.random()
        if c < 0.3:
            a, b = self.lit(ka), self.g(kb, d - 1)
        elif c < 0.65:
            a, b = self.g(ka, d - 1), self.lit(kb)
        else:
            a, b = self.g(ka, d - 1), self.g(kb, d - 1)
        return ('Pbinop', op, 'op', a, b)

    def mk_Pnarop(self, kind, d):
        r = self.r
        k = self.nk(kind)
        op = r.choice(['clip', 'blend', 'wrap'])
        a = self.gx(k, d - 1) if op == 'wrap' else self.g(k, d - 1)
        form = r.choice(['meth', 'bi'])
        if op == 'blend':
            b = self.operand(k, d, 0.5)
            f = r.choice([0.0, 0.25, 0.5, 1.0]) if k == 'flt' else r.choice([0, 1, 2])
            if r.random() < 0.25:
                f = ('Pseq', [f, f] if k == 'int' else [0.5, 0.25],
                     self.repeats(1, 4, 0.5), 0)
            return ('Pnarop', 'blend', form, a, b, f)
        lo, hi = self.bounds(self.bkind(k))
        return ('Pnarop', op, form, a, lo, hi)

    def mk_Pflatten(self, kind, d):
        r = self.r
        if r.random() < 0.7:
            src, depth = self.g('list1', d - 1), 1
        else:
            src, depth = self.g('list2', d - 1), 2
        n = r.choice([depth, depth, depth + 1])
        if 'flatten' in LIFT:
            n = r.choice([0, 1, 2])
        if r.random() < 0.25:
            n = ('Pseq', [n, depth + 1], self.repeats(1, 3, 0.6), 0)
        return ('Pflatten', src, n)

    def mk_Pseed(self, kind, d):
        r = self.r
        k = self.nk(kind)
        c = r.random()
        if self.exact and k == 'flt':
            c = 0.4 + c * 0.5       # choose among the list based leaves only
        if r.random() < 0.4:
            spec = self.new_rand_spec(k)
        elif c < 0.4:
            if k == 'int':
                lo = r.randint(-3, 2); hi = lo + r.randint(1, 9)
            else:
                lo = r.choice([-1.0, 0.0, 0.5]); hi = lo + r.choice([0.5, 1.0, 3.0])
            spec = ('Pwhite', lo, hi, r.randint(1, 5))
        elif c < 0.6:
            spec = ('Prand', [self.lit(k) for _ in range(r.randint(1, 4))],
                    r.randint(1, 5))
        elif c < 0.72:
            items = r.sample(INT_LITS if k == 'int' else FLT_LITS, r.randint(1, 4))
            spec = ('Pxrand', items, r.randint(1, 5))
        elif c < 0.8:
            items = r.sample(INT_LITS if k == 'int' else FLT_LITS, r.randint(1, 4))
            w = [r.choice([0, 0, 1, 2, 0.5]) for _ in items]
            if not any(w):
                w[r.randrange(len(w))] = 1
            spec = ('Pwrand', items, w if r.random() < 0.8 else None, r.randint(1, 6))
        elif c < 0.9:
            items = r.sample(INT_LITS if k == 'int' else FLT_LITS, r.randint(1, 4))
            spec = ('Pshuffle', items, r.randint(1, 2))
        else:
            if k == 'int':
                spec = ('Pwhite', 0, r.randint(1, 6), r.randint(1, 4))
            else:
                spec = ('Pbrown', 0.0, r.choice([1.0, 4.0]), 0.125, r.randint(1, 5))
        if r.random() < 0.5:
            seed = r.randint(0, 10 ** 6)          # constant seed: repeats forever
        else:
            seed = ('Pseq', [r.randint(0, 999) for _ in range(r.randint(1, 3))],
                    r.randint(1, 2), 0)
        return ('Pseed', seed, spec)


    # round 7b ---------------------------------------------------------------
    def mk_Pwalk(self, kind, d):
        r = self.r
        items = self.items(kind, d, 1, 5)
        ints = [-2, -1, 0, 1, 1, 2, 2, 3]
        c = r.random()
        if c < 0.4:
            steps = r.choice([1, 2, 3, 1, 2, -1, 1, 2, 3, 4, 1, 2, -1, -2, 0])
        elif c < 0.8:
            steps = ('Pseq', [r.choice(ints) for _ in range(r.randint(1, 4))], INF, 0)
        elif c < 0.9:
            vals = [r.choice(ints) for _ in range(r.randint(1, 4))]
            steps = ('Pser', vals, INF, r.randrange(len(vals)))
        else:
            steps = ('Pn', self.g('int', d - 1), INF)
        c = r.random()
        if c < 0.35:
            dirs = OMIT if r.random() < 0.5 else 1
        elif c < 0.45:
            dirs = -1
        else:
            dirs = ('Pseq', [r.choice([1, -1]) for _ in range(r.randint(1, 4))], INF, 0)
        return ('Pwalk', items, steps, dirs, r.randrange(len(items)))

    def trig(self, d):
        r = self.r
        c = r.random()
        if c < 0.15:
            return r.choice([True, False, 1, 0])
        if c < 0.7:
            return ('Pseq', [r.choice([True, False, False, 1, 0])
                             for _ in range(r.randint(1, 5))],
                    self.repeats(1, 4, 0.4), 0)
        return self.g('bool', d - 1)

    def mk_Platch(self, kind, d):
        return ('Platch', self.g(self.subkind(kind), d - 1), self.trig(d))

    def mk_Pwhile(self, kind, d):
        r = self.r
        op = r.choice(['lt', 'ge', 'lt', 'ge', 'always', 'never'])
        return ('Pwhile', op, r.choice([-3, 0, 1, 4, 6, 8, 2.5]),
                self.g(self.subkind(kind), d - 1))

    def mk_Ptrace(self, kind, d):
        return ('Ptrace', self.r.choice(['ctor', 'meth', 'prefix']),
                self.g(self.subkind(kind), d - 1))

    def mk_Pvalue(self, kind, d):
        return ('Pvalue', self.item(kind, d))

    def mk_Pgate(self, kind, d):
        return ('Pgate', self.g(self.subkind(kind), d - 1), self.repeats(0, 3, 0.2), 'g')

    def mk_Pprorate(self, kind, d):
        r = self.r
        k = self.nk(kind)
        props = [0, 1, 2, -1] if k == 'int' else [0.0, 0.25, 0.5, 0.75, 1.0, 1.5]
        def one():
            if r.random() < 0.35:
                return [r.choice(props) for _ in range(r.randint(0, 3))]
            return r.choice(props)
        if r.random() < 0.5:
            prop = r.choice(props)
        else:
            prop = ('Pseq', [one() for _ in range(r.randint(1, 3))],
                    self.repeats(1, 4, 0.5), 0)
        return ('Pprorate', self.g(k, d - 1), prop)

    def product_items(self, k, d):
        r = self.r
        items = []
        for _ in range(r.randint(1, 3)):
            c = r.random()
            if c < 0.5 or d <= 1:
                items.append(self.base(k))
            elif c < 0.93:
                items.append(self.g(k, d - 1))
            else:
                items.append(self.lit(k))       # a number: an infinite stream
        return items

    def mk_Pproduct(self, kind, d):
        k = self.nk(kind)
        return ('Pproduct', self.r.choice(['sum', 'dot']), self.product_items(k, d))

    def mk_Pproduct_list(self, kind, d):
        return ('Pproduct', self.r.choice([None] + ['list'] * 5),
                self.product_items(self.r.choice(['int', 'flt', 'num']), d))

    def mk_Pgen(self, kind, d):
        k = self.nk(kind)
        self.noinval += 1
        try:
            node = ('Pgen', self.r.choice(['protocol', 'plain', 'kwargs']),
                    self.operand(k, d, 0.3), self.operand(k, d, 0.4),
                    self.r.choice([0, 1, 2, 3, 5, 8, 70]))
        finally:
            self.noinval -= 1
        if self.r.random() < 0.3:
            # followed by a pattern that computes with the input value
            return ('Pseq', [node, self.mk_PfuncnI(k, d)], self.repeats(1, 2, 0.05), 0)
        return node

    def new_rand_spec(self, k):
        """random leaves of round 7b (value patterns with documented ranges,
        Pfsm with one item per state)"""
        r = self.r
        n = r.randint(1, 5)
        if k == 'int':
            lo = r.randint(-3, 2); hi = lo + r.randint(1, 9)
            c = r.choice(['Plprand', 'Phprand', 'Ppoisson', 'Pfsm', 'Pfsm'])
            if c == 'Ppoisson':
                return ('Ppoisson', r.choice([0.5, 1, 2, 4]), n)
            if c == 'Pfsm':
                return self.fsm_spec(INT_LITS)
            return (c, lo, hi, n)
        if self.exact:
            return self.fsm_spec(FLT_LITS)
        lo = r.choice([-1.0, 0.0, 0.5, 2]); hi = lo + r.choice([0.5, 1.0, 3.0, 4])
        c = r.choice(['Plprand', 'Phprand', 'Pmeanrand', 'Pbeta', 'Pcauchy', 'Pgauss',
                      'Pexprand', 'Pgbrown', 'Pprob', 'Pfsm'])
        if c in ('Plprand', 'Phprand', 'Pmeanrand'):
            return (c, lo, hi, n)
        if c == 'Pbeta':
            return ('Pbeta', lo, hi, r.choice([1, 0.5, 2]), r.choice([1, 0.25, 3]), n)
        if c == 'Pcauchy':
            return ('Pcauchy', r.choice([0.0, -2.0, 1]), r.choice([1.0, 0.25]), n)
        if c == 'Pgauss':
            return ('Pgauss', r.choice([0.0, 3.0, -1]), r.choice([1, 0.5, 2.0]), n)
        if c == 'Pexprand':
            return ('Pexprand', r.choice([0.0001, 0.5, 1]), r.choice([1.5, 2.0, 100]), n)
        if c == 'Pgbrown':
            return ('Pgbrown', r.choice([0.5, 1.0]), r.choice([2.0, 8.0]),
                    r.choice([0.125, 0.5]), n)
        if c == 'Pprob':
            return ('Pprob', [r.choice([0, 1, 2, 0.5]) for _ in range(r.randint(2, 6))] + [1],
                    lo, hi, n)
        return self.fsm_spec(FLT_LITS)

    def fsm_spec(self, lits):
        """('Pfsm', [entry states, item, next states, ..., None, None], repeats):
        distinct items; every state can go to the terminal state"""
        r = self.r
        ns = r.randint(1, 4)
        items = r.sample(lits, ns)
        lst = [[r.randrange(ns) for _ in range(r.randint(1, 3))]]
        for i in range(ns):
            nxt = [r.randrange(ns) for _ in range(r.randint(0, 3))] + [ns]
            r.shuffle(nxt)
            lst += [items[i], nxt]
        lst += [None, None]
        return ('Pfsm', lst, r.randint(1, 3))

    # list kinds -----------------------------------------------------------------
    def mk_Pclump(self, kind, d):
        src = self.g('num' if kind == 'list1' else 'list1', d - 1)
        n = self.count(1, 4, d)
        c = self.r.random()
        if c < 0.05:
            n = 0
        elif c < 0.2:
            # pattern-valued sizes with zeros among them (an empty list each)
            n = self.count(0, 3, d)
        elif c < 0.35:
            n = max(1, self.near_len(src, 2))       # the whole source / one short
        return ('Pclump', src, n)

    def mk_Ptuple(self, kind, d):
        r = self.r
        items = self.items('num', d, 1, 3)
        if not any(isnode(i) for i in items) and r.random() < 0.85:
            items[r.randrange(len(items))] = self.g('num', d - 1)
        return ('Ptuple', items, self.repeats(0, 3))


EDGE_SHARE = 0.14      # share of numeric cases built around a numeric edge


def gen_expr(rng, max_depth=5):
    g = Gen(rng, max_depth)
    kind = rng.choices(['int', 'flt', 'num', 'bool', 'list1', 'list2', 'tup', 'evt'],
                       [5, 4, 4, 1.5, 1.5, 0.7, 1.2, 0.8])[0]
    d = rng.choices([1, 2, 3, 4, 5], [1, 3, 4, 3, 2])[0]
    d = min(d, max_depth)
    if kind in ('int', 'flt', 'num') and rng.random() < EDGE_SHARE:
        return 'num', g.edge(d)
    return kind, g.g(kind, d)


def depth(node):
    from vf.model_patterns import subnodes
    subs = subnodes(node)
    return 1 + (max(depth(s) for s in subs) if subs else 0)


def classes(node):
    from vf.model_patterns import walk
    out = []
    for n in walk(node):
        name = n[0]
        if name in ('Punop', 'Pbinop', 'Pnarop'):
            out.append(f'{name}:{n[1]}:{n[2]}')
        else:
            out.append(name)
        if name == 'Pseed':
            out.append('rand:' + n[2][0])
    return out


def _has_dict(x):
    if isinstance(x, dict):
        return True
    if isinstance(x, list):
        return any(_has_dict(i) for i in x)
    return False


def needs(node):
    """(needs an input event with a gate entry, has dict items): decides which
    input values the case may be driven with."""
    from vf.model_patterns import walk
    gate = dicts = False
    for n in walk(node):
        if n[0] == 'Pgate':
            gate = True
        if n[0] != 'Pseed' and any(_has_dict(a) for a in n[1:] if not isnode(a)):
            dicts = True
    return gate, dicts


def show(x):
    """Readable text of an AST (close to the Python expression)."""
    if isnode(x):
        return x[0] + '(' + ', '.join(show(a) for a in x[1:]) + ')'
    if isinstance(x, list):
        return '[' + ', '.join(show(a) for a in x) + ']'
    if x == INF and isinstance(x, float):
        return 'inf'
    return repr(x)
