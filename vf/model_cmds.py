"""Per-method expected server commands (does NOT import sc3).

For every client-object operation the C17 workload can issue, `expect(op, env)`
returns what must appear on the wire, argument by argument, written from the
SuperCollider Server Command Reference (argument order of each command) and
the SuperCollider class documentation of Node / Synth / Group / Buffer / Bus
(which method parameter lands in which command slot):

  Node.free -> /n_free id;  run(flag) -> /n_run id flag;
  set(*pairs) -> /n_set id pairs...  (array values in [ ] brackets, objects by
  their control input: Bus -> index, Buffer -> bufnum, Node -> node id)
  setn(ctl, values, ...) -> /n_setn id ctl len values...
  fill(ctl, n, v, ...) -> /n_fill id ctl n v ...
  map / mapa(ctl, bus, ...) -> /n_map|/n_mapa id ctl busIndex ...
  mapn / mapan(ctl, bus, ...) -> /n_mapn|/n_mapan id ctl busIndex numChannels
  release(t) -> bundle [/n_set id gate g], g = 0 | -1 (t <= 0) | -(t + 1)
  moveBefore/After(n) -> /n_before|/n_after id n;  moveToHead/Tail(g) ->
  /g_head|/g_tail g id;  Group.freeAll -> /g_freeAll id; deepFree ->
  /g_deepFree id; dumpTree(c) -> /g_dumpTree id c
  Synth(def, args, target, addAction) -> /s_new def id action target args...
  newPaused -> bundle [/s_new ..., /n_run id 0]; grain -> id -1;
  replace(target, .., sameID) -> add action 4, id = target id when sameID
  Group/ParGroup(target, addAction) -> /g_new|/p_new id action target
  Buffer.alloc -> /b_alloc bufnum frames channels completion
  Buffer.read(path, fileStart, numFrames, bufStart, leaveOpen) ->
      /b_read bufnum path fileStart numFrames bufStart leaveOpen [/b_query bufnum]
  Buffer.cueSoundFile(path, start) ->
      /b_read bufnum path start <buffer frames | -1> 0 1 completion
  Buffer.write(path, header, sample, numFrames, startFrame, leaveOpen) ->
      /b_write bufnum path header sample numFrames startFrame leaveOpen completion
  free -> /b_free bufnum completion (and nothing for a buffer already freed)
  Buffer.freeAll(server) -> one /b_free for every buffer number in use
  zero, close, set, setn, fill, get, getn, query, gen / sine1-3 / cheby /
  normalize / copyData, Bus set / setn / setAt / setnAt / setPairs / fill /
  get / getn, ...

The result is an `Expect`:
  packets  list of ('msg', M) | ('bundle', [M, ...]);  M = [address, arg, ...]
           args are exact values (int stays int, float compared as float32,
           str, nested lists for [ ] arrays), `Comp(M | None)` for a completion
           message slot (None: absent, or sclang's int 0), `Alt(a, b, ..)` where
           the documents allow more than one spelling.
  raises   name of the documented exception class, or None
  ledger   expected allocator effects: list of (kind, 'alloc', n, result) /
           (kind, 'release', start); kinds node | buffer | control | audio

Use after free (round 7).  A freed Bus / Buffer owns no id any more, so no
command may name one on its behalf:
  * methods the classes guard themselves (BusAlreadyFreed / BufferAlreadyFreed,
    `as_map()` -> BusException 'bus not allocated') must raise - `raises`;
  * every other call with a freed object in an *id* position (the remaining
    Buffer methods, a freed destination of copy_data, a freed bus given to
    map / mapa / mapn / mapan) may raise (`may_raise`) or do nothing, but must
    not send a command: the expectation is "no packet", method name
    '<Class.method>(freed ...)';
  * a freed object in a *value* position (Node.set / Synth args) may raise or
    travel as nil = int 0 (sclang), never as an index - `Freed` marker.
A freed Node keeps its id (the server forgets the node, the client object does
not change): the same commands with the same id are expected.
`returns` is the expected return value of query operations (Bus.as_map).
"""

from vf.osc import f32

ADD_ACTIONS = {
    'addToHead': 0, 'addToTail': 1, 'addBefore': 2, 'addAfter': 3, 'addReplace': 4,
    # sc3's documented short spellings (Node.add_actions)
    'head': 0, 'tail': 1, 'before': 2, 'after': 3, 'replace': 4,
    'h': 0, 't': 1, 'b': 2, 'a': 3, 'r': 4,
    0: 0, 1: 1, 2: 2, 3: 3, 4: 4,
}


class Comp:
    """Completion message slot: msg is an expected message or None."""
    def __init__(self, msg):
        self.msg = msg

    def __repr__(self):
        return f'Comp({self.msg!r})'


class Alt:
    def __init__(self, *options):
        self.options = options

    def __repr__(self):
        return f'Alt{self.options!r}'


class Num:
    """Numeric slot of the reference ("float" / "float or int"): the value may
    travel as OSC int or float as long as it is numerically the same (floats
    compared after float32 rounding)."""
    def __init__(self, v):
        self.v = int(v) if isinstance(v, bool) else v

    def __repr__(self):
        return f'Num({self.v!r})'


def nums(seq):
    return [num(x) for x in seq]


def num(x):
    if isinstance(x, list):
        return [num(y) for y in x]
    if isinstance(x, (int, float)):
        return Num(x)
    return x


NOTHING = object()

BUS_FREED = ('BusException', 'BusAlreadyFreed')
# what a call on / with a freed object may raise when the class documents nothing
UAF_RAISES = ('BusException', 'BusAlreadyFreed', 'BufferException',
              'BufferAlreadyFreed', 'TypeError', 'ValueError')


class Freed:
    """A freed Bus / Buffer object in a value slot: nil (int 0) at most."""
    def __init__(self, kind):
        self.kind = kind

    def __repr__(self):
        return f'Freed({self.kind})'


def has_freed(x):
    if isinstance(x, Freed):
        return True
    if isinstance(x, (list, tuple)):
        return any(has_freed(y) for y in x)
    return False


class Expect:
    def __init__(self, packets=(), raises=None, ledger=(), method='?',
                 unordered=False, may_raise=(), returns=NOTHING):
        self.packets = list(packets)
        self.raises = raises           # class name or tuple of names: must raise
        self.may_raise = tuple(may_raise)   # may raise one of these instead
        self.returns = returns
        self.freed_args = False        # a freed object sits in a value slot
        self.ledger = list(ledger)
        self.method = method
        self.unordered = unordered     # bundle elements may come in any order
        self.optional = False          # the packets may also be absent altogether
        self.alt_messages = None       # accepted alternative spelling (counted)
        self.alt_counter = None

    def messages(self):
        out = []
        for kind, p in self.packets:
            out.extend([p] if kind == 'msg' else p)
        return out

    def raise_ok(self, e):
        """Is exception `e` one this expectation demands or allows?"""
        names = {c.__name__ for c in type(e).__mro__}
        want = (self.raises,) if isinstance(self.raises, str) else (self.raises or ())
        return bool(names & (set(want) | set(self.may_raise)))


# ---------------------------------------------------------------------------
# value resolution

def control_input(v, env):
    """Value as it must appear in a plain (non bracketing) argument slot."""
    if isinstance(v, dict):
        if '$bus' in v:
            if env[v['$bus']]['state'] == 'freed':
                return Freed('bus')
            return env[v['$bus']]['index']
        if '$busindex' in v:
            return env[v['$busindex']]['index']
        if '$map' in v:
            b = env[v['$map']]
            return ('c' if b['rate'] == 'control' else 'a') + str(b['index'])
        if '$buf' in v:
            if env[v['$buf']]['state'] == 'freed':
                return Freed('buffer')
            return env[v['$buf']]['bufnum']
        if '$node' in v:
            return env[v['$node']]['id']
        if '$tuple' in v:
            return [control_input(x, env) for x in v['$tuple']]
        raise ValueError(v)
    if isinstance(v, bool):
        return int(v)                 # sclang: true -> 1, false -> 0
    if v is None:
        return 0                      # sclang: nil -> 0
    if isinstance(v, list):
        return [control_input(x, env) for x in v]
    return v


def osc_arg_list(args, env):
    """Synth args / Node.set args: scalars stay, sequences become [ ] arrays
    (nested sequences nested arrays), dicts flatten to key, value pairs."""
    if args is None:
        return []
    if isinstance(args, dict) and '$dict' in args:
        out = []
        for k, v in args['$dict']:
            out.append(control_input(k, env))
            out.append(num(control_input(v, env)))
        return out
    out = [control_input(x, env) for x in args]
    # control, value, control, value ...: values are numeric slots
    return [x if k % 2 == 0 else num(x) for k, x in enumerate(out)]


def target_id(t, env):
    if t is None or (isinstance(t, dict) and '$server' in t):
        return env['$default_group']
    if '$node' in t:
        return env[t['$node']]['id']
    if '$int' in t:
        return env[t['$int']]['id']
    if '$lit' in t:
        return t['$lit']          # plain int target: exactly that node id
    raise ValueError(t)


def completion(c, env, buf=None, index=None):
    """c: None | {'$msg': [...]} literal list | {'$fn': 'zero'|'query'|'sync'}
    (a function of the buffer, evaluated by the library)."""
    if c is None:
        return Comp(None)
    if '$msg' in c:
        return Comp([control_input(x, env) for x in c['$msg']])
    f = c['$fn']
    if f == 'zero':
        return Comp(['/b_zero', buf['bufnum']])
    if f == 'query':
        return Comp(['/b_query', buf['bufnum']])
    if f == 'index':              # new_consecutive: function(buffer, index)
        return Comp(['/b_set', buf['bufnum'], 0, index])
    if f == 'none':
        return Comp(None)
    raise ValueError(c)


def msg(*a):
    return ('msg', list(a))


# ---------------------------------------------------------------------------

def _hold(op, env):
    # the block is only kept open for a while: nothing is issued
    return Expect([], method='bind-block-held-open')


def stale_map(op, env):
    """Handle of a freed bus whose as_map() the arguments of `op` evaluate
    (`bus.as_map()` written as an argument expression), or None."""
    def scan(x):
        if isinstance(x, dict):
            if '$map' in x:
                return x['$map'] if env[x['$map']]['state'] == 'freed' else None
            for v in x.values():
                r = scan(v)
                if r is not None:
                    return r
        elif isinstance(x, (list, tuple)):
            for v in x:
                r = scan(v)
                if r is not None:
                    return r
        return None
    for f in ('args', 'msg', 'msgs'):
        if f in op:
            r = scan(op[f])
            if r is not None:
                return r
    return None


def _bus_cls(b):
    return 'ControlBus' if b['rate'] == 'control' else 'AudioBus'


def expect_before(op, env):
    """What is known before the call: an argument expression that must raise
    (as_map() of a freed bus: nothing is created, sent or allocated), else the
    full expectation of operations that create no object."""
    h = stale_map(op, env)
    if h is not None:
        return Expect([], raises=BUS_FREED,
                      method=f'{_bus_cls(env[h])}.as_map(freed)')
    if 'out' not in op:
        return expect(op, env)
    return None


def expect_if_raised(op, env):
    """A creating operation raised: allowed when one of its arguments is a
    freed object (value slot), see module doc string."""
    if op['op'] == 'synth':
        probe = dict(env)
        args = osc_arg_list(op.get('args'), probe)
        if has_freed(args):
            e = Expect([], may_raise=UAF_RAISES,
                       method=f"Synth.{op['ctor']}(freed object argument)")
            e.freed_args = True
            return e
    return None


def expect(op, env):
    k = op['op']
    return _OPS[k](op, env)


def _mark(e, args):
    """A freed object in a value slot: the call may raise instead."""
    if has_freed(args):
        e.freed_args = True
        e.may_raise = UAF_RAISES
    return e


def _synth(op, env):
    ctor = op['ctor']
    args = osc_arg_list(op.get('args'), env)
    name = f'Synth.{ctor}'
    if has_freed(args):
        name += '(freed object argument)'
    if ctor == 'grain':
        m = ['/s_new', op['def'], -1, ADD_ACTIONS[op['action']],
             target_id(op['target'], env)] + args
        return _mark(Expect([('msg', m)], method=name), args)
    new = env[op['out']]['id']
    if ctor in ('init', 'new_paused'):
        action = ADD_ACTIONS[op['action']]
    else:
        action = {'after': 3, 'before': 2, 'head': 0, 'tail': 1, 'replace': 4}[ctor]
    m = ['/s_new', op['def'], new, action, target_id(op['target'], env)] + args
    led = [('node', 'alloc', 1, new)]
    if ctor == 'replace' and op.get('same_id'):
        led = []
    if ctor == 'new_paused':
        return _mark(Expect([('bundle', [m, ['/n_run', new, 0]])], ledger=led,
                            method=name), args)
    return _mark(Expect([('msg', m)], ledger=led, method=name), args)


def _group(op, env):
    ctor = op['ctor']
    new = env[op['out']]['id']
    cmd = '/g_new' if op['cls'] == 'Group' else '/p_new'
    if ctor == 'init':
        action = ADD_ACTIONS[op['action']]
    else:
        action = {'after': 3, 'before': 2, 'head': 0, 'tail': 1, 'replace': 4}[ctor]
    return Expect([msg(cmd, new, action, target_id(op['target'], env))],
                  ledger=[('node', 'alloc', 1, new)],
                  method=f"{op['cls']}.{ctor}")


def _basic_new(op, env):
    if 'node_id' in op:
        # explicit id: kept as is, nothing drawn from the allocator
        return Expect([], method=f"{op['cls']}.basic_new(node_id)")
    return Expect([], ledger=[('node', 'alloc', 1, env[op['out']]['id'])],
                  method=f"{op['cls']}.basic_new")


def _pairs(seq, n):
    return [seq[i:i + n] for i in range(0, len(seq), n)]


def _node(op, env):
    nid = env[op['h']]['id']
    m = op['m']
    name = f'Node.{m}'
    if m == 'free':
        if op.get('send', True):
            return Expect([msg('/n_free', nid)], method=name)
        return Expect([], method='Node.free(send_flag=False)')
    if m == 'run':
        return Expect([msg('/n_run', nid, int(bool(op['flag'])))], method=name)
    if m == 'set':
        a = osc_arg_list(op['args'], env)
        if has_freed(a):
            name += '(freed object argument)'
        return _mark(Expect([msg('/n_set', nid, *a)], method=name), a)
    if m == 'setn':
        out = []
        for ctl, vals in _pairs(op['args'], 2):
            ctl = control_input(ctl, env)
            vals = control_input(vals, env)
            if isinstance(vals, list):
                out += [ctl, len(vals)] + nums(vals)
            else:
                out += [ctl, 1, num(vals)]
        return Expect([msg('/n_setn', nid, *out)], method=name)
    if m == 'fill':
        out = [control_input(x, env) for x in op['args']]
        out = [num(x) if k % 3 == 2 else x for k, x in enumerate(out)]
        return Expect([msg('/n_fill', nid, *out)], method=name)
    if m in ('map', 'mapa', 'mapn', 'mapan') and any(
            isinstance(b, dict) and '$bus' in b and env[b['$bus']]['state'] == 'freed'
            for _c, b in _pairs(op['args'], 2)):
        # a freed bus in a bus-index slot: no index may be named for it
        return Expect([], may_raise=UAF_RAISES, method=f'{name}(freed bus)')
    if m in ('map', 'mapa'):
        out = [control_input(x, env) for x in op['args']]
        return Expect([msg('/n_' + m, nid, *out)], method=name)
    if m in ('mapn', 'mapan'):
        out = []
        for ctl, bus in _pairs(op['args'], 2):
            out.append(control_input(ctl, env))
            if isinstance(bus, dict) and '$bus' in bus:
                b = env[bus['$bus']]
                out += [b['index'], b['channels']]
            else:
                out += [control_input(bus, env), 1]
        return Expect([msg('/n_' + m, nid, *out)], method=name)
    if m == 'release':
        t = op['time']
        if t is None:
            g = 0
        elif t <= 0:
            g = -1
        else:
            g = -(t + 1)
        return Expect([('bundle', [['/n_set', nid, 'gate', Num(g)]])], method=name)
    if m == 'trace':
        return Expect([msg('/n_trace', nid)], method=name)
    if m == 'query':
        return Expect([msg('/n_query', nid)], method=name)
    if m == 'move_before':
        return Expect([msg('/n_before', nid, env[op['t']]['id'])], method=name)
    if m == 'move_after':
        return Expect([msg('/n_after', nid, env[op['t']]['id'])], method=name)
    if m in ('move_to_head', 'move_to_tail'):
        g = env['$default_group'] if op['t'] is None else env[op['t']]['id']
        return Expect([msg('/g_head' if m == 'move_to_head' else '/g_tail', g, nid)],
                      method=name)
    if m == 'free_all':
        return Expect([msg('/g_freeAll', nid)], method='Group.free_all')
    if m == 'deep_free':
        return Expect([msg('/g_deepFree', nid)], method='Group.deep_free')
    if m == 'dump_tree':
        return Expect([msg('/g_dumpTree', nid, int(bool(op['controls'])))],
                      method='Group.dump_tree')
    if m == 'seti':
        # Synth.seti(name, index, value, ...): sets part of an arrayed control.
        # Only the controls of that array may be addressed: triples with an
        # unknown name or an index outside 0 .. size-1 are skipped, list
        # values are truncated at the end of the array.
        layout = op['layout']
        pos = {}
        k = 0
        for pname, chans in layout:
            pos[pname] = (k, chans)
            k += chans
        out = []
        asis = []          # the same, negative indices treated the way sclang does
        negative = False
        for name, off, val in _pairs(op['args'], 3):
            if name not in pos:
                continue
            idx, chans = pos[name]
            if off < 0:
                # OBSERVATION, outside the property: a negative index is not an
                # element of the array, but the library (like sclang) only
                # tests the upper end and addresses the preceding control(s).
                # Both spellings are accepted; the second one is counted.
                negative = True
                asis.append(idx + off)
                asis.append(nums(val[:chans - off]) if isinstance(val, list) else num(val))
                continue
            if not off < chans:
                continue
            pair = [idx + off,
                    nums(val[:chans - off]) if isinstance(val, list) else num(val)]
            out += pair
            asis += pair
        e = Expect([msg('/n_set', nid, *out)], method='Synth.seti')
        e.optional = not out          # nothing to set: an empty /n_set or nothing
        if negative:
            e.alt_messages = [['/n_set', nid, *asis]]
            e.alt_counter = 'observed_seti_negative_offset_addresses_neighbour'
        return e
    if m == 'get':
        return Expect([msg('/s_get', nid, op['index'])], method='Synth.get')
    if m == 'getn':
        return Expect([msg('/s_getn', nid, op['index'], op['count'])],
                      method='Synth.getn')
    raise ValueError(m)


def _server(op, env):
    m = op['m']
    if m == 'reorder':
        ids = [env[h]['id'] for h in op['nodes']]
        return Expect([msg('/n_order', ADD_ACTIONS[op['action']],
                           target_id(op['target'], env), *ids)],
                      method='Server.reorder')
    if m == 'dump_osc':
        return Expect([msg('/dumpOSC', op['code'])], method='Server.dump_osc')
    if m == 'free_default_group':
        return Expect([msg('/g_freeAll', env['$default_group'])],
                      method='Server.free_default_group')
    if m == 'send_msg':
        return Expect([('msg', [control_input(x, env) for x in op['msg']])],
                      method='NetAddr.send_msg')
    if m == 'send_bundle':
        return Expect([('bundle', [[control_input(x, env) for x in mm]
                                   for mm in op['msgs']])],
                      method='NetAddr.send_bundle')
    raise ValueError(m)


def _buffer(op, env):
    ctor = op['ctor']
    name = f'Buffer.{ctor}'
    if ctor == 'consecutive':
        bufs = [env[h] for h in op['out']]
        base = bufs[0]['bufnum']
        pk = []
        for i, b in enumerate(bufs):
            pk.append(msg('/b_alloc', base + i, op['frames'], op['channels'],
                          completion(op.get('completion'), env, b, i)))
        return Expect(pk, ledger=[('buffer', 'alloc', len(bufs), base)], method=name)
    b = env[op['out']]
    n = b['bufnum']
    led = [('buffer', 'alloc', 1, n)]
    if ctor == 'init':
        return Expect([msg('/b_alloc', n, op['frames'], op['channels'],
                           completion(op.get('completion'), env, b))],
                      ledger=led, method=name)
    if ctor == 'noalloc':
        return Expect([], ledger=led, method='Buffer(alloc=False)')
    if ctor == 'read':
        return Expect([msg('/b_allocRead', n, op['path'], op['start'], op['frames'],
                           Comp(['/b_query', n]))], ledger=led, method='Buffer.new_read')
    if ctor == 'read_channel':
        return Expect([msg('/b_allocReadChannel', n, op['path'], op['start'],
                           op['frames'], *op['chans'], Comp(['/b_query', n]))],
                      ledger=led, method='Buffer.new_read_channel')
    if ctor == 'cue':
        inner = ['/b_read', n, op['path'], op['start'], op['frames'], 0, 1,
                 completion(op.get('completion'), env, b)]
        return Expect([msg('/b_alloc', n, op['frames'], op['channels'], Comp(inner))],
                      ledger=led, method='Buffer.new_cue')
    raise ValueError(ctor)


def _buf(op, env):
    b = env[op['h']]
    n = b['bufnum']
    m = op['m']
    name = f'Buffer.{m}'
    comp = lambda: completion(op.get('completion'), env, b)
    if b['state'] == 'freed' and m != 'free':
        if m in BUFFER_GUARDED:
            return Expect([], raises='BufferAlreadyFreed', method=f'Buffer.{m}(freed)')
        return Expect([], may_raise=UAF_RAISES, method=f'Buffer.{m}(freed)')
    if m == 'copy_data' and env[op['dst']]['state'] == 'freed':
        return Expect([], may_raise=UAF_RAISES,
                      method='Buffer.copy_data(freed destination)')
    if m == 'free':
        if b['state'] == 'freed':
            # a freed buffer owns no number: nothing to send, nothing to return
            return Expect([], method='Buffer.free(already freed)')
        if (op.get('completion') or {}).get('$fn') == 'raise':
            # the completion function raises before a message exists: nothing
            # is sent, so nothing may be returned to the allocator either
            return Expect([], raises='Boom', method='Buffer.free(completion raises)')
        led = [('buffer', 'release', n)] if b.get('owns_block', True) else []
        return Expect([msg('/b_free', n, comp())], ledger=led, method=name)
    if m == 'alloc':
        return Expect([msg('/b_alloc', n, b['frames'], b['channels'], comp())],
                      method=name)
    if m == 'alloc_read':
        return Expect([msg('/b_allocRead', n, op['path'], op['start'], op['frames'],
                           comp())], method=name)
    if m == 'read':
        return Expect([msg('/b_read', n, op['path'], op['file_start'], op['frames'],
                           op['buf_start'], int(bool(op['leave_open'])),
                           Comp(['/b_query', n]))], method=name)
    if m == 'read_channel':
        return Expect([msg('/b_readChannel', n, op['path'], op['file_start'],
                           op['frames'], op['buf_start'], int(bool(op['leave_open'])),
                           *op['chans'], Comp(['/b_query', n]))], method=name)
    if m == 'cue':
        return Expect([msg('/b_read', n, op['path'], op['start'],
                           Alt(b['frames'], -1), 0, 1, comp())], method=name)
    if m == 'write':
        return Expect([msg('/b_write', n, op['path'], op['header'], op['sample'],
                           op['frames'], op['start'], int(bool(op['leave_open'])),
                           comp())], method=name)
    if m == 'close':
        return Expect([msg('/b_close', n, comp())], method=name)
    if m == 'zero':
        return Expect([msg('/b_zero', n, comp())], method=name)
    if m == 'set':
        pr = [num(x) if k % 2 else x for k, x in enumerate(op['pairs'])]
        return Expect([msg('/b_set', n, *pr)], method=name)
    if m == 'setn':
        out = []
        for idx, vals in _pairs(op['args'], 2):
            if isinstance(vals, list):
                out += [idx, len(vals)] + nums(vals)
            else:
                out += [idx, 1, num(vals)]
        return Expect([msg('/b_setn', n, *out)], method=name)
    if m == 'fill':
        vals = [num(x) if k % 3 == 0 else x for k, x in enumerate(op['values'])]
        return Expect([msg('/b_fill', n, op['start'], op['frames'], *vals)],
                      method=name)
    if m == 'get':
        return Expect([msg('/b_get', n, op['index'])], method=name)
    if m == 'getn':
        return Expect([msg('/b_getn', n, op['index'], op['count'])], method=name)
    if m in ('query', 'update_info'):
        return Expect([msg('/b_query', n)], method=name)
    if m in ('sine1', 'cheby'):
        return Expect([msg('/b_gen', n, m, _genflags(op), *nums(op['amps']))],
                      method=name)
    if m == 'sine2':
        inter = [x for pair in zip(op['freqs'], op['amps']) for x in pair]
        return Expect([msg('/b_gen', n, 'sine2', _genflags(op), *nums(inter))],
                      method=name)
    if m == 'sine3':
        inter = [x for tr in zip(op['freqs'], op['amps'], op['phases']) for x in tr]
        return Expect([msg('/b_gen', n, 'sine3', _genflags(op), *nums(inter))],
                      method=name)
    if m == 'gen':
        return Expect([msg('/b_gen', n, op['cmd'], _genflags(op), *nums(op['args']))],
                      method=name)
    if m == 'normalize':
        return Expect([msg('/b_gen', n, 'wnormalize' if op['as_wavetable']
                           else 'normalize', Num(op['new_max']))], method=name)
    if m == 'copy_data':
        return Expect([msg('/b_gen', env[op['dst']]['bufnum'], 'copy',
                           op['dst_start'], n, op['start'], op['num'])], method=name)
    raise ValueError(m)


# methods of Buffer that announce BufferAlreadyFreed themselves
BUFFER_GUARDED = {'write', 'close', 'zero', 'fill', 'query', 'set', 'setn', 'get',
                  'getn', 'gen', 'normalize', 'sine1', 'sine2', 'sine3', 'cheby',
                  'copy_data'}


def _bufgroup_free(op, env):
    bufs = [env[h] for h in op['hs']]
    pk = [msg('/b_free', b['bufnum'], completion(op.get('completion'), env, b))
          for b in bufs]
    return Expect(pk, ledger=[('buffer', 'release', bufs[0]['bufnum'])],
                  method='Buffer.free(consecutive group)')


def _genflags(op):
    return (1 if op['normalize'] else 0) + (2 if op['as_wavetable'] else 0) \
        + (4 if op['clear_first'] else 0)


def _free_all(op, env):
    numbers = sorted(env['$live_buffer_numbers'])
    led = [('buffer', 'release-all')]
    if not numbers:
        # nothing to free; an empty bundle (or nothing at all) is acceptable
        return Expect([('bundle', [])], ledger=led, method='Buffer.free_all',
                      unordered=True)
    return Expect([('bundle', [['/b_free', k, Comp(None)] for k in numbers])], ledger=led,
                  method='Buffer.free_all', unordered=True)


def _bus(op, env):
    b = env[op['out']]
    return Expect([], ledger=[(b['rate'], 'alloc', b['channels'], b['index'])],
                  method=('ControlBus' if b['rate'] == 'control' else 'AudioBus'))


def _subbus(op, env):
    return Expect([], method='Bus.sub_bus')


def _busm(op, env):
    b = env[op['h']]
    m = op['m']
    cls = 'ControlBus' if b['rate'] == 'control' else 'AudioBus'
    name = f'{cls}.{m}'
    if m == 'free':
        if b['state'] == 'freed':
            return Expect([], method=f'{cls}.free(already freed)')
        led = [(b['rate'], 'release', b['index'])] if b.get('owns', True) else []
        return Expect([], ledger=led, method=name)
    if b['state'] == 'freed':
        return Expect([], raises='BusAlreadyFreed', method=f'{cls}.{m}(freed)')
    i = b['index']
    if m == 'set':
        out = []
        for k, v in enumerate(op['values']):
            out += [i + k, Num(v)]
        return Expect([msg('/c_set', *out)], method=name)
    if m == 'setn':
        return Expect([msg('/c_setn', i, len(op['values']), *nums(op['values']))],
                      method=name)
    if m == 'set_at':
        out = []
        for k, v in enumerate(op['values']):
            out += [i + op['offset'] + k, Num(v)]
        return Expect([msg('/c_set', *out)], method=name)
    if m == 'setn_at':
        return Expect([msg('/c_setn', i + op['offset'], len(op['values']),
                           *nums(op['values']))], method=name)
    if m == 'set_pairs':
        out = []
        for off, v in _pairs(op['pairs'], 2):
            out += [i + off, Num(v)]
        return Expect([msg('/c_set', *out)], method=name)
    if m == 'fill':
        return Expect([msg('/c_fill', i, op['channels'], Num(op['value']))], method=name)
    if m == 'clear':
        return Expect([msg('/c_fill', i, b['channels'], Num(0))], method=name)
    if m == 'get':
        if b['channels'] == 1:
            return Expect([msg('/c_get', i)], method=name)
        return Expect([msg('/c_getn', i, b['channels'])], method=name)
    if m == 'getn':
        cnt = b['channels'] if op['count'] is None else op['count']
        return Expect([msg('/c_getn', i, cnt)], method=name)
    raise ValueError(m)


def _busq(op, env):
    b = env[op['h']]
    cls = _bus_cls(b)
    if op['m'] == 'as_map':
        if b['state'] == 'freed':
            return Expect([], raises=BUS_FREED, method=f'{cls}.as_map(freed)')
        return Expect([], method=f'{cls}.as_map',
                      returns=('c' if b['rate'] == 'control' else 'a') + str(b['index']))
    raise ValueError(op['m'])


_OPS = {'hold': _hold, 'busq': _busq, 'synth': _synth, 'group': _group, 'basic_new': _basic_new, 'node': _node,
        'server': _server, 'buffer': _buffer, 'buf': _buf, 'free_all': _free_all,
        'bufgroup_free': _bufgroup_free,
        'bus': _bus, 'subbus': _subbus, 'busm': _busm}


# ---------------------------------------------------------------------------
# matching decoded messages against expectations

def match_value(exp, got, decode_blob):
    """Returns None when `got` (decoded OSC argument) is what `exp` demands,
    else a short mechanism string."""
    if isinstance(exp, Alt):
        for o in exp.options:
            if match_value(o, got, decode_blob) is None:
                return None
        return 'arg-mismatch'
    if isinstance(exp, Comp):
        if exp.msg is None:
            if isinstance(got, int) and not isinstance(got, bool) and got == 0:
                return None
            return 'unexpected-completion-message'
        if not isinstance(got, bytes):
            return 'completion-message-missing'
        try:
            inner = decode_blob(got)
        except Exception:
            return 'completion-blob-not-osc'
        if not hasattr(inner, 'addr'):
            return 'completion-is-a-bundle'
        return match_message(exp.msg, inner, decode_blob)
    if isinstance(exp, Freed):
        if isinstance(got, int) and not isinstance(got, bool) and got == 0:
            return None
        return f'freed-{exp.kind}-argument-sent-as-an-index'
    if isinstance(exp, Num):
        v = exp.v
        if isinstance(got, bool) or not isinstance(got, (int, float)):
            return 'arg-mismatch'
        if isinstance(got, int):
            return None if got == v else 'arg-mismatch'
        if got == v or got == f32(v) or (got != got and v != v):
            return None
        return 'arg-mismatch'
    if isinstance(exp, bool):
        exp = int(exp)
    if isinstance(exp, int):
        if isinstance(got, int) and not isinstance(got, bool) and got == exp:
            return None
        if isinstance(got, float) and got == exp:
            return 'arg-type/int-sent-as-float'
        return 'arg-mismatch'
    if isinstance(exp, float):
        if isinstance(got, float) and (got == f32(exp) or
                                       (got != got and exp != exp)):
            return None
        if isinstance(got, int) and got == exp:
            return 'arg-type/float-sent-as-int'
        return 'arg-mismatch'
    if isinstance(exp, str):
        return None if isinstance(got, str) and got == exp else 'arg-mismatch'
    if isinstance(exp, list):
        if not isinstance(got, list):
            return ('arg-type/array-sent-as-blob' if isinstance(got, bytes)
                    else 'arg-type/array-not-bracketed')
        if len(exp) != len(got):
            return 'array-length-differs'
        for e, g in zip(exp, got):
            r = match_value(e, g, decode_blob)
            if r:
                return r
        return None
    raise ValueError(exp)


def match_message(exp, got, decode_blob):
    """exp: [addr, args...]; got: vf.osc.Msg."""
    if got.addr != exp[0]:
        return 'wrong-command'
    eargs = exp[1:]
    gargs = list(got.args)
    # an absent completion message may be omitted altogether
    if len(gargs) == len(eargs) - 1 and eargs and isinstance(eargs[-1], Comp) \
            and eargs[-1].msg is None:
        eargs = eargs[:-1]
    if len(gargs) != len(eargs):
        return 'arg-count-differs'
    for k, (e, g) in enumerate(zip(eargs, gargs)):
        r = match_value(e, g, decode_blob)
        if r:
            return r
    return None


def plain(exp):
    """Expectation as JSON-able data (for witnesses)."""
    if isinstance(exp, Comp):
        return {'completion': plain(exp.msg)}
    if isinstance(exp, Alt):
        return {'one_of': [plain(o) for o in exp.options]}
    if isinstance(exp, Num):
        return exp.v
    if isinstance(exp, Freed):
        return {'freed': exp.kind}
    if isinstance(exp, (list, tuple)):
        return [plain(x) for x in exp]
    return exp
