"""Applies the k-th ```diff block of a proposed_fixes/*.md file to /repo and
commits it as one `fix:` commit.  python -m vf.applyfix <md> <k> "<subject>" ["body"]"""
import re, subprocess, sys, tempfile, os

def main(argv):
    md, k, subject = argv[0], int(argv[1]), argv[2]
    body = argv[3] if len(argv) > 3 else ''
    text = open(md).read()
    blocks = re.findall(r'```diff\n(.*?)```', text, re.S)
    diff = blocks[k]
    with tempfile.NamedTemporaryFile('w', suffix='.diff', delete=False) as f:
        f.write(diff)
    st = subprocess.run(['git', '-C', '/repo', 'status', '--porcelain'], capture_output=True, text=True).stdout
    assert not st.strip(), 'repo not clean: ' + st
    p = subprocess.run(['patch', '-p1', '--no-backup-if-mismatch', '-i', f.name], cwd='/repo', capture_output=True, text=True)
    os.unlink(f.name)
    print(p.stdout.strip())
    if p.returncode != 0:
        print('PATCH FAILED', p.stderr)
        subprocess.run(['git', '-C', '/repo', 'checkout', '--', '.'])
        return 1
    files = [l.split()[-1] for l in p.stdout.splitlines() if l.startswith('patching file')]
    for fn in files:
        c = subprocess.run(['/venv/bin/python', '-m', 'py_compile', fn], cwd='/repo', capture_output=True, text=True)
        if c.returncode:
            print('COMPILE FAILED', c.stderr); subprocess.run(['git', '-C', '/repo', 'checkout', '--', '.']); return 1
    subprocess.run(['find', '/repo', '-name', '__pycache__', '-path', '*/sc3/*', '-prune', '-exec', 'rm', '-rf', '{}', '+'])
    msg = 'fix: ' + subject + ('\n\n' + body if body else '')
    subprocess.run(['git', '-C', '/repo', 'commit', '-qam', msg], check=True)
    sha = subprocess.run(['git', '-C', '/repo', 'rev-parse', '--short', 'HEAD'], capture_output=True, text=True).stdout.strip()
    print('committed', sha, subject)
    return 0

if __name__ == '__main__':
    sys.exit(main(sys.argv[1:]))
