"""Prepares the working directories of one round of independently seeded changes.

python -m vf.seedsetup <round dir, e.g. /tmp/seed7> [ids...]

For every property: <round dir>/<Cxx>/property.txt (the property record as given
in properties.jsonl plus one line per change seeded in earlier rounds, so that
the author does not repeat them), an empty <round dir>/<Cxx>/out/ and a scratch
git worktree <round dir>/wt-<Cxx> of /repo's HEAD.  Nothing of /verif's checks
is copied.  Remove a worktree with `git -C /repo worktree remove --force <dir>`.
"""

import glob
import json
import os
import subprocess
import sys

from .common import VERIF_DIR


def main(argv):
    root = argv[0]
    want = set(argv[1:])
    os.makedirs(root, exist_ok=True)
    props = [json.loads(l) for l in open(os.path.join(VERIF_DIR, 'properties.jsonl'))]
    for p in props:
        pid = p['id']
        if want and pid not in want:
            continue
        d = os.path.join(root, pid)
        os.makedirs(os.path.join(d, 'out'), exist_ok=True)
        lines = [f"PROPERTY {pid}: {p['title']}", '', 'STATEMENT', p['statement'], '',
                 'QUANTIFIER', p['quantifier']['text'], '',
                 'WHY THE TEST SUITE CANNOT SETTLE IT', p['why_tests_cant'], '',
                 'ANCHORS (files / state / mechanisms)',
                 json.dumps(p['anchors'], indent=1), '',
                 'CHANGES SEEDED IN EARLIER ROUNDS (do not repeat these, stay away from their '
                 'sites and mechanisms)']
        for m in sorted(glob.glob(os.path.join(VERIF_DIR, 'seeded', pid + '-*', 'meta.json'))):
            meta = json.load(open(m))
            what = ' '.join(str(meta.get('what', '')).split())
            files = ','.join(meta.get('files', []) or [])
            lines.append(f"- [{files}] {what[:420]}")
        open(os.path.join(d, 'property.txt'), 'w').write('\n'.join(lines) + '\n')
        wt = os.path.join(root, 'wt-' + pid)
        if not os.path.isdir(wt):
            subprocess.run(['git', '-C', '/repo', 'worktree', 'add', '--detach', wt, 'HEAD'],
                           check=True, capture_output=True)
        print(pid, d, wt)


if __name__ == '__main__':
    main(sys.argv[1:])
