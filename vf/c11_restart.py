"""C11 (also C05 / C12 through the same histories): routines that restart their
function while they stay scheduled - `raise YieldAndReset(delta)` - and are
reset / paused / resumed / stopped / played again from outside.

NRT mode, exact logical times.  A target routine T plays on a clock C (a
TempoClock with tempo 0.5 / 2 / 4, or SystemClock); its body is a list of steps

    ['y', d]      yield d
    ['yr', d]     raise YieldAndReset(d): wake again after d, from the beginning
    ['bpb', n]    C.beats_per_bar = n (TempoClock; legal inside a routine of C)

and records at every (re)start and resumption the beat of C, whether the
library's current thread is T, which clock woke it (the `(routine, clock)` pair
it is given), and whether the function started from its beginning.  A controller
routine on SystemClock performs reset / pause / resume([quant]) / stop /
play(C[, quant]) at times that never coincide with a wake-up of T.

Reference model (this file, `expect`): T is a tuple (state, fresh, pending beat,
step index, meter base beat).  Every wake-up T is expected to make - and no
other - with its exact beat, restart flag and clock; every control call must
leave `state` as the documented transitions say.  The model is written from the
documentation of Routine (pause / resume use "the clock previously passed to the
play function"; reset from outside makes the next wake-up start over;
YieldAndReset keeps the routine scheduled), not from the code.

Not generated: reset() of a paused routine (whether that also un-pauses is not
documented), controls at the instant of a wake-up.
"""
import math

U = 1 / 8          # beat unit of T's deltas


def gen_case(rng):
    tempo = rng.choice([None, 0.5, 2, 2, 4, 4])      # None: SystemClock
    steps = []
    for _ in range(rng.randint(1, 4)):
        r = rng.random()
        if r < 0.55:
            steps.append(['y', U * rng.choice([1, 2, 3, 4, 8])])
        elif r < 0.7 and tempo is not None:
            steps.append(['bpb', rng.choice([2, 3, 4, 5])])
        else:
            steps.append(['y', U * rng.choice([2, 4])])
    kind = rng.random()
    if kind < 0.75:
        steps.append(['yr', U * rng.choice([2, 4, 8, 16])])     # loops for ever
    elif kind < 0.9:
        steps.append(['y', U * 4])      # then ends
    # else: ends after the steps
    nops = rng.randint(1, 6)
    ops = []
    m = 0
    for k in range(nops):
        m += rng.choice([1, 1, 2, 3, 5, 9])
        # op times in seconds: multiples of 1/32 plus an offset of its own, so
        # that no control ever falls on a wake-up of T (whose later wake-ups lie
        # a multiple of 1/32 s after a grid point or after an earlier control)
        t = m / 32 + 2.0 ** -(8 + k)
        r = rng.random()
        if r < 0.25:
            op = ['reset']
        elif r < 0.5:
            op = ['pause']
        elif r < 0.8:
            op = ['resume', rng.choice([None, None, 0, 0, 1, 2, 4])]
        elif r < 0.9:
            op = ['stop']
        else:
            op = ['play', rng.choice([None, 0, 1, 2])]
        ops.append([t] + op)
    # the frequent idiom: reset, pause, resume without a clock before the
    # pending wake-up
    if rng.random() < 0.35:
        base = rng.choice([1, 2, 3, 5]) / 32
        ops = [[base + 2.0 ** -11, 'reset'], [base + 2.0 ** -10, 'pause'],
               [base + 2.0 ** -9 + 1 / 64, 'resume', rng.choice([None, None, 0, 0, 1, 2])]]
        ops.sort()
    horizon = max(o[0] for o in ops) + rng.choice([0.5, 1.0, 2.0]) + 2.0 ** -20
    return {'tempo': tempo, 'steps': steps, 'ops': ops, 'horizon': horizon}


def expect(case):
    """-> (wakes [(beat, restart)], states after each op, skipped: bool)"""
    tempo = case['tempo'] or 1
    steps = case['steps']
    st, fresh, pend, idx, base = 'susp', True, 0.0, 0, 0.0
    own_clock = True      # T is (to be) found on C
    wakes, states = [], []
    events = sorted(case['ops'])
    end_beat = case['horizon'] * tempo
    oi = 0

    def grid(b, q):
        if case['tempo'] is None or q == 0:
            return b
        if q is None:
            q = 1           # Quant(): the next whole beat
        return math.ceil((b - base) / q) * q + base

    guard = 0
    while guard < 10000:
        guard += 1
        t_op = events[oi][0] * tempo if oi < len(events) else None
        nxt_wake = pend if pend is not None and pend <= end_beat else None
        if t_op is not None and (nxt_wake is None or t_op < nxt_wake):
            op = events[oi]
            oi += 1
            b = t_op
            what = op[1]
            if what == 'reset':
                if st == 'paused':
                    return None
                if st == 'done':
                    if pend is not None:
                        # stopped, its entry still in the clock's queue, and reset
                        # before that entry comes up: whether the stale entry may
                        # start it again is not documented - not judged
                        return None
                    own_clock = False
                st, fresh = 'init', True
            elif what == 'pause':
                if st in ('init', 'susp'):
                    st = 'paused'
            elif what == 'resume':
                if st == 'paused':
                    if not own_clock:
                        return None      # default clock: not modelled
                    st = 'susp'
                    pend = grid(b, op[2])
            elif what == 'stop':
                st, fresh, own_clock = 'done', True, False
            elif what == 'play':
                if st in ('init', 'paused'):
                    st = 'susp'
                    own_clock = True
                    pend = grid(b, op[2])
            states.append(st)
            continue
        if nxt_wake is None:
            break
        b = pend
        pend = None
        if st in ('paused', 'done'):
            continue              # dropped by the clock
        if fresh:
            idx = 0
        wakes.append((b, fresh))
        fresh = False
        st = 'running'
        while True:
            if idx >= len(steps):
                st, fresh, own_clock = 'done', True, False
                break
            s = steps[idx]
            idx += 1
            if s[0] == 'y':
                st, pend = 'susp', b + s[1]
                break
            if s[0] == 'yr':
                st, pend, fresh = 'init', b + s[1], True
                break
            if s[0] == 'bpb':
                base = b
    return wakes, states


def touches_grid(case):
    """Histories on a TempoClock with a meter change inside the routine or a
    resume / play that is placed on the grid (default Quant or an explicit one)."""
    return case['tempo'] is not None and (
        any(s[0] == 'bpb' for s in case['steps'])
        or any(o[1] in ('resume', 'play') and o[2] != 0 for o in case['ops']))


STATE_NAMES = {'Init': 'init', 'Suspended': 'susp', 'Paused': 'paused', 'Done': 'done',
               'Running': 'running'}


def run_case(case):
    """Runs the case on the library (NRT) -> dict(got wakes, states, errors)."""
    from sc3.base.main import main
    from sc3.base import clock as clk, stream as stm
    sysc = case['tempo'] is None
    main.reset()
    out = {'wakes': [], 'states': [], 'errors': [], 'notes': []}
    steps = case['steps']
    box = {}

    def note(inval, restart):
        T, C = box['T'], box['C']
        b = C.seconds if sysc else C.beats
        woke_by = inval[1] if isinstance(inval, tuple) and len(inval) == 2 else None
        out['wakes'].append((b, restart))
        out['notes'].append({
            'current_is_T': main.current_tt is T,
            'woken_by_C': woke_by is C,
            'woken_by': type(woke_by).__name__ if not isinstance(woke_by, type)
            else woke_by.__name__})

    def body(inval):
        note(inval, True)
        for s in steps:
            if s[0] == 'y':
                inval = yield s[1]
                note(inval, False)
            elif s[0] == 'yr':
                raise stm.YieldAndReset(s[1])
            else:
                try:
                    box['C'].beats_per_bar = s[1]
                except Exception as e:
                    out['errors'].append(f'beats_per_bar inside T: {type(e).__name__}: {e}')

    T = stm.Routine(body)
    box['T'] = T

    def ctl():
        C = box['C']
        now = 0.0
        for op in sorted(case['ops']):
            yield op[0] - now
            now = op[0]
            try:
                if op[1] == 'reset':
                    T.reset()
                elif op[1] == 'pause':
                    T.pause()
                elif op[1] == 'resume':
                    T.resume() if op[2] is None else T.resume(quant=op[2])
                elif op[1] == 'stop':
                    T.stop()
                else:
                    T.play(C) if op[2] is None else T.play(C, op[2])
            except Exception as e:
                out['errors'].append(f'{op[1]} raised {type(e).__name__}: {e}')
            out['states'].append(STATE_NAMES.get(T.state.name, T.state.name))
        yield case['horizon'] - now
        # the end of the observation: whatever T still has pending is dropped
        T.stop()

    def setup():
        C = box['C'] = clk.SystemClock if sysc else clk.TempoClock(case['tempo'])
        T.play(C)
        stm.Routine(ctl).play(clk.SystemClock)
    clk.SystemClock.sched(0, stm.Routine(setup))
    main.process()
    if not sysc:
        box['C'].stop()
    return out


def run_restart(spec, acc, prop='C11', judged=None, only=None):
    """Routines that restart their function while they stay scheduled
    (YieldAndReset) under reset / pause / resume / stop / play from another
    routine: vf/c11_restart.py (generator, reference model, runner)."""
    import sys
    R = sys.modules[__name__]
    from vf.common import iter_cases, case_rng, h64, short_tb
    import json
    for i in iter_cases(spec):
        rng = case_rng(spec['seed'], 'C11', 'restart', i)      # the same histories for every property
        case = R.gen_case(rng)
        if only is not None and not only(case):
            continue
        exp = R.expect(case)
        if exp is None:
            acc.count('restart_histories_outside_the_documented_transitions')
            continue
        try:
            got = R.run_case(case)
        except Exception as e:
            acc.violation(f'{prop}/restart/run-raises/{type(e).__name__}',
                          {'case': i, 'history': case, 'tb': short_tb(e)})
            continue
        acc.count('restart_histories')
        acc.count('restart_wakeups_compared', len(exp[0]))
        acc.count('restart_control_calls_compared', len(exp[1]))
        acc.count('restart_function_restarts_compared', sum(1 for _, f in exp[0][1:] if f))
        kinds = [o[1] for o in sorted(case['ops'])]
        if case['tempo'] is not None:
            acc.count('restart_histories_on_tempo_clock')
        for a, b, c in zip(kinds, kinds[1:], kinds[2:]):
            if (a, b, c) == ('reset', 'pause', 'resume'):
                acc.count('restart_histories_reset_pause_resume')
                break
        if any(s[0] == 'bpb' for s in case['steps']):
            acc.count('restart_histories_meter_change_inside')
        acc.case(h64(json.dumps(case, sort_keys=True)), nontrivial=len(exp[0]) > 2)
        bad = None
        if got['errors']:
            bad = 'call-refused/' + got['errors'][0].split(':')[0].replace(' ', '-')
        elif got['states'] != exp[1]:
            bad = 'state-after-control-call-differs'
        elif [w[0] for w in got['wakes']] != [w[0] for w in exp[0]]:
            gw, ew = [w[0] for w in got['wakes']], [w[0] for w in exp[0]]
            bad = ('wake-up-missing' if len(gw) < len(ew) else
                   'wake-up-extra' if len(gw) > len(ew) else 'wake-up-at-wrong-time')
        elif got['wakes'] != exp[0]:
            bad = 'function-restart-differs'
        elif not all(x['current_is_T'] for x in got['notes']):
            bad = 'current-thread-is-not-the-routine'
        elif not all(x['woken_by_C'] for x in got['notes']):
            bad = 'woken-by-another-clock'
        if bad and judged is not None and not bad.startswith(judged):
            acc.count('restart_differences_left_to_C11')
            bad = None
        if bad:
            acc.violation(f'{prop}/restart/{bad}',
                          {'case': i, 'history': case,
                           'expected': {'wakes': exp[0], 'states': exp[1]},
                           'got': {'wakes': got['wakes'], 'states': got['states'],
                                   'errors': got['errors'][:3],
                                   'notes': [x for x in got['notes']
                                             if not (x['current_is_T'] and x['woken_by_C'])][:3]}})
        elif acc.want_sample():
            acc.sample({'case': i, 'history': case, 'wakes': exp[0]})
