"""C04 - function parameters become correctly laid-out, correctly wired controls.

Reference-model monitor.  vf/c04_gen.py draws a program (1-4 graph functions
connected by SynthDef.wrap, 0-40 parameters with annotations, rates entries,
scalar / tuple / None / missing defaults, prepend counts, metadata specs,
variants), vf/model_controls.py computes the expected control layout from
that description alone.  The functions are real python functions (exec of
generated source); every body routes each parameter it received into its own
tagged sink  Out.kr/ar(tag_p, p)  and checks its prepended parameters by
identity.  The definition bytes are decoded with the independent parser
vf/scgf.py and compared with the model: parameter array, name table, the
wire feeding every sink (control unit class/rate, special index + output ==
slot + channel, LagControl lag inputs), control units partition the slot
range, variant blocks.  SynthDef.__call__ is observed in NRT mode: the
/s_new argument pairs in main.process().list are compared with the model's
name mapping.

Recovered failing wrap (25 % of the programs): a graph function calls
SynthDef.wrap on a helper whose k-th (k >= 0 valid parameters first)
parameter has an invalid rate annotation (float, 'krr', 1, ...), catches the
ValueError and carries on, optionally wrapping a fallback helper with the
same or other parameter names.  The model ignores the rejected helper, so
ghost / duplicate / out-of-range name-table entries are refuted by the
ordinary checks; additionally the definition bytes must equal those of the
same program with the rejected helper removed.  A violation that the program
without the helper does not show is keyed C04/failed-wrap-leaves-trace/<what>.

Recovered failing body (18 % of the programs) - the class "a fault at a
point where the definition under construction has already been changed,
handled by the graph function, followed by continued construction": a
wrapped helper with a VALID signature (own rates / prepend / array / lag
parameters, sometimes named like other parameters) whose BODY raises after
SynthDef.wrap made its parameters controls - after using j of them and
completing m of its own 0-2 wraps; the exception is user code's (8 classes)
or raised by the library for a nested SynthDef.wrap call (not a function,
invalid annotation, *args signature); it is handled by the function that
called wrap or by one 1-3 wrap levels further up (the wrapped functions in
between are abandoned half way); the handler wraps a fallback (other names,
the same names, the very same function once more) or nothing and carries on
with its remaining wraps, and up to two such failures occur per program.
The oracle accepts the two consistent outcomes for what the handled call
created - all of it is part of the definition (slots, control units, name
entries: what the unchanged library does) or none of it - and refutes
everything in between: name-table indices lagging behind the slots, names
without slots, slots without names, control units not partitioning the
array, bodies wired to other slots than the names announce, variants
computed on a shifted array.  Keys: C04/recovered-body-failure/<what>.

Repeated control names (30 % of the programs): the same helper function is
wrapped 2-3 times (own rates / prepend values each time) and/or a helper
declares parameters named like those of the enclosing / top / another
function.  Every declared occurrence is a control of its own: its own slots,
its own sink wiring and its own name-table entry pointing at its own slot
(multiset comparison; variants only address names declared once).

Shared argument objects (shards 'shared', vf/c04_gen.gen_session) - the class
"the ARGUMENTS of a build are objects of the caller that outlive the build":
a session is 2-4 plain programs of DIFFERENT signatures built one after the
other in one process, by the constructor with keyword arguments, the
constructor with positional arguments or the synthdef decorator, and ONE
rates list object is handed to 2-5 function entries (top functions and / or
SynthDef.wrap calls, of one build or of several builds) whose functions have
different numbers of parameters - the list shorter than, as long as or
longer than each of them, the shorter function first or the longer one
first; likewise one prepend list, one variants dict (inner dicts and value
lists included), one metadata dict with its spec objects, and one tuple that
is the default of parameters of several functions.  The expectation of every
build is the model's layout for the program DESCRIPTION, i.e. for the value
every object had before its first use (the run-time objects are created once
from deep copies of the descriptions); so a build that silently depends on
what an earlier build did to an argument object - entries cut, consumed,
renamed, normalised away - is refuted by the ordinary monitors.  After every
build (construction, as_bytes, call) every object is compared with the
snapshot taken before its first use:
  C04/argument-object-changed/<rates-list|prepend-list|variants-dict|
      metadata-dict>/<how>   the object no longer MEANS what it meant (for a
      rates list None, 0, 0.0 and a missing trailing entry mean the same:
      the unchanged library pads the caller's list with zeros, which no later
      build can observe - counted, not reported; same for a variant value
      turned into a one element list or further metadata keys); the later
      builds of the session that came out wrong are listed in the witness
  C04/shared-argument-objects/<damage>   a build is wrong after earlier
      builds used the same objects, right when repeated alone with fresh
      equal objects, and no object changed (state kept elsewhere, e.g. per
      list object)
A violation that the repeated, history-free build shows too keeps its key.

Default VALUES at the edges of a slot and hostile parameter NAMES (all
shards) - the class "the statement quantifies over signatures, and a
signature is also WHICH numbers and WHICH identifiers": the generator used to
draw defaults from two dozen tame numbers and to call every parameter p<k>,
so a build that looks at the value or at the spelling of a name was never
contradicted.
  values   14 % of all scalar defaults, tuple items, shared tuples, variant
           values (and some spec defaults) are +-inf, -0.0, +-FLT_MAX, huge
           and tiny floats, float32 denormals, numbers that round to a signed
           zero, ints beyond 2**24 .. 2**127, float32-inexact floats, bools
           inside tuples, rarely NaN.  A slot is a float32: it must hold the
           float32 nearest to the declared number BIT FOR BIT (sign of zero
           included) in the parameter array and in every variant block.  NaN:
           the documentation is silent, three fates are accepted (held,
           replaced like an invalid default, signature refused; see
           vf/model_controls.py).  When every wrong slot of a definition
           belongs to one of these value classes the key says which:
           C04/default-value/<rate>/<class>-default-not-held,
           C04/variants/values/<class>-not-held.
  names    45 % of the programs (and 30 % of the sessions, whose programs
           then give their k-th parameter the same name) draw 50-100 % of
           their parameter names - prepended parameters too - from a hostile
           pool: sclang's rate
           prefixes a_ i_ t_ (and k_), near misses (a, _a_x, A_x, ar_in, x_tr),
           the rate names themselves (ar kr ir tr audio control ...), names of
           library attributes / arguments / builtins (name, rates, index,
           _controls, self, target, len ...), dunder-like names, names
           differing only in case, names of 100-255 characters (255 = the
           longest a definition file can hold), names whose sorted order is
           not their declaration order, and (3 %, 'sig' shards) non-ASCII
           identifiers.  The model never reads a name, so any influence of a
           name on rate, lag, slot, order or value is refuted by the ordinary
           monitors; a failing case (program or session, whatever its other
           features) is then decided once more with neutral names (q0, q1,
           ...; equal names stay equal), and of the violations the renamed
           case does not show the most telling one is reported as
           C04/parameter-name-influences-layout/<what> (name_context()).
           Controls named self / target / add_action / register are only set
           positionally (keywords of SynthDef.__call__ itself).  Non-ASCII
           names cannot be written into a definition file (ASCII pstrings):
           when the writer refuses them the python-side state
           (_all_control_names, _controls) is compared with the model instead.

WHAT KIND OF OBJECT the body receives, and bodies that COMPUTE with it (all
shards, every function entry - top and wrapped -, every rate group) - the
class "the signal the body receives is more than something a unit accepts as
an input": every body used to pass its parameters straight into Out, and a
unit input multichannel-expands a plain python list, a ChannelList and a bare
output alike, so the object handed over was never contradicted as long as
its elements were the right outputs.
  kind     a scalar parameter is ONE control output (a UGen, not a list), a
           tuple default of ANY length - one element included - is a
           ChannelList of control outputs (repair c99b84c):
           C04/body-signal/object-kind/<array-parameter-is-a-plain-list |
           array-parameter-is-not-a-channel-list |
           scalar-parameter-is-not-a-single-output>.
  operator every parameter is also used the way graph functions use signals:
           ONE operator / signal method drawn per parameter (probe_op: hash of
           case, entry, position - the program description and the generator's
           random stream are untouched) is applied DIRECTLY to it - -v, v.neg(),
           abs(v), v.squared(), v + c, c + v, v - c, c - v, v * c, c * v,
           v / c, c / v, v.madd(m, c), v.madd(m), v.madd(add=c), v.min(c),
           v.max(c), v * v, v + v, (v - c) * m with int and float constants
           (1 and -1, which the library folds away, included) - and the result
           goes to a second tagged sink Out(tag + 20000, result).  Decoded
           bytes: the sink has one wire per slot of the parameter, and each
           wire, evaluated by value through the BinaryOpUGen / UnaryOpUGen /
           MulAdd / Sum3 / Sum4 units in front of it (whatever the graph
           optimiser made of them) at four points, computes the operator of
           exactly ONE control output, which must be the output at slot + channel
           (check_wire: class, rate, lag input, special index).  Keys
           C04/body-signal/operator-on-parameter/<raises | result-is-not-a-signal
           | sink-missing | channel-count (list repetition / concatenation) |
           wrong-value | unexpected-unit | not-one-control-output |
           <rate>/<wire mismatch>>.
"""

from vf.common import iter_cases, case_rng, h64, split, short_tb, tb_sites
from vf import model_controls as MC
from vf import c04_gen as G

LEVEL = 'exploration'
RULE = ("seeded random programs: 0-40 parameters over 1-4 functions (wrap "
        "tree), annotations None/kr/ir/tr/ar, rates lists shorter/equal/longer "
        "than the parameters with None / lag numbers / rate names / lag lists, "
        "number / tuple (1-5, sometimes 17-21 values) / None / missing "
        "defaults, prepend 0-2 per function, metadata specs, 0-3 variants, one "
        "call with 0-6 positional and 0-4 keyword arguments; 14 % of the "
        "default / variant values at the edges of a float32 slot (+-inf, "
        "-0.0, FLT_MAX, denormals, ints > 2**24, inexact floats, rarely NaN), "
        "45 % of the programs with parameter names from a hostile pool "
        "(sclang prefixes a_ i_ t_ k_, rate names, library attributes, "
        "dunder-like, case variants, 100-255 characters, non-ASCII); 20 % "
        "with a wrap "
        "rejected for its signature and recovered, 18 % with 1-2 wrapped "
        "functions whose body raises after their controls exist (user / "
        "library exception, handled 0-3 wrap levels up, fallback or retry, "
        "further wraps); every body routes each parameter into a tagged "
        "sink AND applies one of 20 operators / signal methods (-v, v*c, "
        "c-v, v.madd(m, c), v*v ...) directly to it, routed into a second "
        "sink; shards 'shared': sessions of 2-4 such programs "
        "(without the failure features) of different signatures built in "
        "one process by constructor (keyword / positional) or decorator and "
        "handed the same rates list / prepend list / variants dict / "
        "metadata dict / default tuple objects, in random order of shorter "
        "and longer functions.  Non-trivial: at "
        "least two rate groups plus an array control, a lag, a wrap or a "
        "prepend; distinct = hash of the program description")
ASSUMPTIONS = [
    "reference layout vf/model_controls.py (written from the SynthDef "
    "documentation, the definition file format and the statement)",
    "independent SCgf-2 parser vf/scgf.py",
    "rates entries are aligned with the parameters that become controls "
    "(after prepended ones), as in sclang; variants addressing a control name "
    "that is declared more than once, lag lists "
    "for scalar parameters, complex/invalid defaults and empty tuples are "
    "outside the domain",
    "a wrap call whose exception a graph function handles leaves either "
    "all or none of the controls it created in the definition (both "
    "accepted; the unchanged library keeps all); programs in which such an "
    "exception leaves the top function are outside the domain (no "
    "definition results)",
    "argument objects (rates / prepend lists, variants / metadata dicts) "
    "are values: a build may be handed an object that earlier builds were "
    "handed and must treat it like a fresh equal one; a change of such an "
    "object that no build can observe (zero padding of a rates list, number "
    "-> one element list in a variant, extra metadata keys) is allowed",
    "the synthdef decorator = constructor + add(): only used for programs "
    "without repeated control names (the description library refuses those "
    "with SynthDescError); its boot action is removed again by the harness",
    "positional arguments of SynthDef.__call__ name the controls of the "
    "definition's own function in declaration order (prepended parameters "
    "are not controls)",
    "a control slot holds the float32 nearest to the declared number, bit "
    "for bit; numbers beyond the float32 range are outside the domain; a "
    "NaN default may be held, replaced like an invalid default or refused "
    "(documentation silent); every other float, +-inf included, is a valid "
    "default",
    "parameter names are arbitrary python identifiers of at most 255 ASCII "
    "characters (definition file pstrings); non-ASCII identifiers may be "
    "refused by the writer (then only the python-side state is compared); "
    "names never carry rate information in this port",
    "a parameter with a tuple default of any length (one element included) "
    "reaches the body as a sc3 ChannelList, a scalar parameter as a single "
    "UGen output (repair c99b84c); arithmetic operators with numbers on "
    "either side, abs(), neg / squared / min / max / madd are defined on "
    "both and expand per channel; operator units are identified by the "
    "server's special indices (+ 0, - 1, * 2, / 4, min 12, max 13; neg 0, "
    "abs 5, squared 12), MulAdd = in * mul + add, Sum3 / Sum4 = sum of "
    "inputs",
]
MIN_COUNTERS = {
    'quick': {'programs_decoded': 1200, 'sinks_checked': 5000,
              'name_entries_checked': 5000, 'lag_inputs_checked': 500,
              'variant_blocks_checked': 200, 'calls_checked': 1000,
              'prepended_values_checked': 150, 'wrapped_functions': 300,
              'lagcontrol_chunked_groups': 5,
              'failed_wraps_recovered': 300,
              'repeated_name_declarations': 1000,
              'failed_wrap_bytes_compared': 250,
              'failed_bodies_recovered': 1500,
              'programs_wrapping_after_a_failed_body': 800,
              'controls_declared_after_a_failed_body': 3000,
              'controls_of_failed_bodies': 3000,
              'failed_bodies_passing_through_a_wrapped_function': 100,
              'failed_bodies_raised_by_library_call': 300,
              'sessions': 500, 'session_builds': 1400,
              'session_builds/decorator': 300,
              'session_builds/positional': 300,
              'argument_objects_audited': 4000,
              'shared_rates_lists': 500,
              'shared_rates_entries_first_read_by_a_later_longer_function': 200,
              'shared_rates_longer_function_before_shorter': 350,
              'shared_rates_lists_used_by_several_builds': 400,
              'shared_rates_lists_used_several_times_in_one_build': 300,
              'shared_rates_lists_used_by_constructor_and_wrap': 350,
              'shared_prepend_lists': 120, 'shared_variants_dicts': 250,
              'shared_metadata_dicts': 250, 'shared_default_tuples': 250,
              'edge_default_slots_checked': 4000,
              'edge_defaults/infinity': 600,
              'edge_defaults/infinity/in-tuple': 200,
              'edge_defaults/negative-zero': 250,
              'edge_defaults/int-beyond-2^24': 500,
              'edge_defaults/huge': 300, 'edge_defaults/tiny': 400,
              'edge_defaults/bool': 300, 'edge_defaults/nan': 20,
              'edge_variant_values_checked': 150,
              'programs_with_hostile_names': 1500,
              'controls_named/sclang-prefix': 5000,
              'controls_named/near-prefix': 2000,
              'controls_named/rate-name': 2000,
              'controls_named/library-attribute': 3000,
              'controls_named/dunder-like': 1200,
              'controls_named/case-variant': 1000,
              'controls_named/very-long': 800,
              'controls_named/order-confusing': 1000,
              'prefix_named_controls_without_annotation_or_rate': 2500,
              'prefix_named_controls_with_lag': 300,
              'prefix_named_controls_in_wrapped_functions': 500,
              'definitions_with_names_differing_only_in_case': 100,
              'unicode_named_programs': 30,
              'parameter_object_kinds_checked': 30000,
              'operator_probes_checked': 30000,
              'operator_probes_on_array_parameters': 8000,
              'operator_probes_on_one_element_arrays': 1000,
              'operator_probes_on_one_element_arrays/ir': 150,
              'operator_probes_on_one_element_arrays/tr': 150,
              'operator_probes_on_one_element_arrays/ar': 150,
              'operator_probes_on_one_element_arrays/kr': 600,
              'operator_probes_in_wrapped_functions': 8000,
              'operator_probes_on_lagged_parameters': 3500,
              'operator_probes/neg': 1200,
              'operator_probes/abs': 1200,
              'operator_probes/mul-number': 2400,
              'operator_probes/number-mul': 1200,
              'operator_probes/add-number': 1200,
              'operator_probes/number-sub': 1200,
              'operator_probes/madd': 2400,
              'operator_probes/add-self': 1200},
    'thorough': {'programs_decoded': 60000, 'sinks_checked': 300000,
                 'name_entries_checked': 300000, 'lag_inputs_checked': 30000,
                 'variant_blocks_checked': 10000, 'calls_checked': 50000,
                 'prepended_values_checked': 8000, 'wrapped_functions': 15000,
                 'lagcontrol_chunked_groups': 300,
                 'failed_wraps_recovered': 10000,
                 'repeated_name_declarations': 30000,
                 'failed_wrap_bytes_compared': 8000,
                 'failed_bodies_recovered': 20000,
                 'programs_wrapping_after_a_failed_body': 15000,
                 'controls_declared_after_a_failed_body': 70000,
                 'controls_of_failed_bodies': 50000,
                 'failed_bodies_passing_through_a_wrapped_function': 2500,
                 'failed_bodies_raised_by_library_call': 5000,
                 'sessions': 10000, 'session_builds': 28000,
                 'session_builds/decorator': 6000,
                 'session_builds/positional': 6000,
                 'argument_objects_audited': 80000,
                 'shared_rates_lists': 10000,
                 'shared_rates_entries_first_read_by_a_later_longer_function':
                     4000,
                 'shared_rates_longer_function_before_shorter': 7000,
                 'shared_rates_lists_used_by_several_builds': 8000,
                 'shared_rates_lists_used_several_times_in_one_build': 6000,
                 'shared_rates_lists_used_by_constructor_and_wrap': 7000,
                 'shared_prepend_lists': 2500, 'shared_variants_dicts': 5000,
                 'shared_metadata_dicts': 5000, 'shared_default_tuples': 5000,
                 'edge_default_slots_checked': 80000,
                 'edge_defaults/infinity': 12000,
                 'edge_defaults/infinity/in-tuple': 4000,
                 'edge_defaults/negative-zero': 5000,
                 'edge_defaults/int-beyond-2^24': 10000,
                 'edge_defaults/huge': 6000, 'edge_defaults/tiny': 8000,
                 'edge_defaults/bool': 6000, 'edge_defaults/nan': 400,
                 'edge_variant_values_checked': 3000,
                 'programs_with_hostile_names': 30000,
                 'controls_named/sclang-prefix': 60000,
                 'controls_named/near-prefix': 25000,
                 'controls_named/rate-name': 25000,
                 'controls_named/library-attribute': 40000,
                 'controls_named/dunder-like': 15000,
                 'controls_named/case-variant': 12000,
                 'controls_named/very-long': 10000,
                 'controls_named/order-confusing': 12000,
                 'prefix_named_controls_without_annotation_or_rate': 30000,
                 'prefix_named_controls_with_lag': 6000,
                 'prefix_named_controls_in_wrapped_functions': 10000,
                 'definitions_with_names_differing_only_in_case': 2000,
                 'unicode_named_programs': 400,
                 'parameter_object_kinds_checked': 300000,
                 'operator_probes_checked': 300000,
                 'operator_probes_on_array_parameters': 80000,
                 'operator_probes_on_one_element_arrays': 10000,
                 'operator_probes_on_one_element_arrays/ir': 1500,
                 'operator_probes_on_one_element_arrays/tr': 1500,
                 'operator_probes_on_one_element_arrays/ar': 1500,
                 'operator_probes_on_one_element_arrays/kr': 6000,
                 'operator_probes_in_wrapped_functions': 80000,
                 'operator_probes_on_lagged_parameters': 35000,
                 'operator_probes/neg': 12000,
                 'operator_probes/abs': 12000,
                 'operator_probes/mul-number': 24000,
                 'operator_probes/number-mul': 12000,
                 'operator_probes/add-number': 12000,
                 'operator_probes/number-sub': 12000,
                 'operator_probes/madd': 24000,
                 'operator_probes/add-self': 12000},
}


def plan(tier, seed):
    total, parts, secs = (40000, 12, 35) if tier == 'quick' else (3000000, 13, 540)
    shards = [{'name': f'sig{p}', 'mode': 'nrt', 'kind': 'sig', 'first_case': f,
               'n': n, 'secs': secs, 'hard_timeout': secs + 150}
              for p, (f, n) in enumerate(split(total, parts))]
    # sessions: several builds sharing their argument objects
    total, parts, secs = (12000, 4, 30) if tier == 'quick' else (600000, 3, 540)
    shards += [{'name': f'shared{p}', 'mode': 'nrt', 'kind': 'shared',
                'first_case': f, 'n': n, 'secs': secs,
                'hard_timeout': secs + 150}
               for p, (f, n) in enumerate(split(total, parts))]
    return shards


class UserError(Exception):
    """an error of the user's graph function code"""


USER_EXCEPTIONS = {'UserError': UserError, 'TypeError': TypeError,
                   'ZeroDivisionError': ZeroDivisionError,
                   'KeyError': KeyError, 'RuntimeError': RuntimeError,
                   'ValueError': ValueError, 'IndexError': IndexError,
                   'StopIteration': StopIteration}


def exc_site(e):
    sites = tb_sites(e)
    return f'{type(e).__name__}@{sites[-1][0]}:{sites[-1][1]}' if sites \
        else type(e).__name__


class Harness:
    def __init__(self):
        from sc3.synth.synthdef import SynthDef, synthdef
        from sc3.base import systemactions as sac
        from sc3.synth.ugens import inout as iou, oscillators as ocl
        from sc3.synth import ugen as ugn
        from sc3.synth.spec import ControlSpec
        from sc3.base.main import main
        from vf import scgf
        self.SynthDef, self.iou, self.ocl, self.ugn = SynthDef, iou, ocl, ugn
        self.ControlSpec, self.main, self.scgf = ControlSpec, main, scgf
        self.synthdef, self.sac = synthdef, sac


def run_shard(spec, acc):
    import logging
    logging.disable(logging.CRITICAL)
    H = Harness()
    kind = spec['shard'].get('kind', 'sig')
    for i in iter_cases(spec):
        rng = case_rng(spec['seed'], 'C04', kind, i)
        if kind == 'shared':
            run_session(acc, H, i, G.gen_session(rng, i))
        else:
            run_case(acc, H, i, G.gen_program(rng, i))


class Collector:
    """accumulator proxy: violations are collected (the caller decides the
    final mechanism key); counters / cases / samples go to the real
    accumulator unless quiet."""

    def __init__(self, acc, quiet):
        self.acc, self.quiet, self.viols = acc, quiet, []

    def count(self, *a):
        if not self.quiet:
            self.acc.count(*a)

    def case(self, *a, **k):
        if not self.quiet:
            self.acc.case(*a, **k)

    def want_sample(self):
        return not self.quiet and self.acc.want_sample()

    def sample(self, *a, **k):
        if not self.quiet:
            self.acc.sample(*a, **k)

    def violation(self, key, wit):
        self.viols.append((key, wit))


def trace_class(key, wit):
    """one key for every name-table manifestation of a rejected helper that
    left entries behind (ghost name, duplicate name, index outside the control
    array = strict parser refuses the bytes); the manifestation goes into the
    witness."""
    tail = key[len('C04/'):]
    if tail.startswith('name-table/') or (
            tail == 'bytes-not-parseable'
            and 'parameter name' in str(wit.get('error', ''))):
        wit['manifestation'] = tail
        return 'name-table'
    return tail.replace('/', '-')


FB_ORDER = ('name-table/index', 'body-signal', 'control-units',
            'default-value', 'variants', 'name-table', 'param-count')


def fb_rank(key):
    tail = key[len('C04/'):]
    for k, pre in enumerate(FB_ORDER):
        if tail.startswith(pre):
            return k
    return len(FB_ORDER)


def fb_class(key):
    """mechanism class of a violation that only the program with the handled
    body failure shows (rate / repeated-name details go into the witness)"""
    tail = key[len('C04/'):]
    if tail.startswith('name-table/index'):
        return 'name-table-index-not-at-own-slots'
    if tail.startswith('body-signal/'):
        return 'body-signal-' + tail.split('/')[-1]
    if tail.startswith('default-value'):
        return 'default-value'
    if tail in ('name-table/missing', 'name-table/entry-of-repeated-name-lost'):
        return 'name-table-entries-missing'
    return tail.replace('/', '-')


ARGS_SITES = ('synthdef.py:_args_to_controls',
              'synthdef.py:_get_valid_arg_values')


def cleanly_rejected(viols):
    """the build refused the signature with a ValueError/TypeError raised
    while the parameters were being examined"""
    return len(viols) == 1 and any(
        viols[0][0] == f'C04/build-raises/{t}@{site}'
        for t in ('ValueError', 'TypeError') for site in ARGS_SITES)


def has_nan(prog):
    """a NaN default (scalar or tuple item): the build may refuse it"""
    return any(p['default'][0] in ('num', 'tuple') and any(
        G.is_nan(v) for v in (p['default'][1] if p['default'][0] == 'tuple'
                              else [p['default'][1]]))
        for f in prog['funcs'].values() for p in f['params'])


def name_context(acc, viols, hostile, rerun_neutral):
    """Does the SPELLING of the parameter names matter?  A case with hostile
    names that shows violations is decided once more with neutral names (q0,
    q1, ...; equal names stay equal): a key the renamed case shows too is
    reported as it is, of the others the most telling one is reported as
    C04/parameter-name-influences-layout/<what>."""
    if not viols:
        return
    if not hostile:
        for key, wit in viols:
            acc.violation(key, wit)
        return
    c2 = Collector(acc, True)
    rerun_neutral(c2)
    plain = {k for k, _ in c2.viols}
    traced = False
    for key, wit in sorted(viols, key=lambda kw: fb_rank(kw[0])):
        if key in plain:
            acc.violation(key, wit)          # wrong with neutral names too
        elif not traced:
            traced = True
            wit = dict(wit)
            wit['key_without_context'] = key
            wit['all_keys'] = sorted({k for k, _ in viols})
            wit['keys_with_neutral_names'] = sorted(plain)
            acc.violation('C04/parameter-name-influences-layout/'
                          + fb_class(key), wit)


def run_case(acc, H, i, prog):
    c = Collector(acc, False)
    decide_case(c, H, i, prog)
    name_context(acc, c.viols, prog.get('hostile_names'),
                 lambda c2: decide_case(c2, H, i, G.with_neutral_names(prog)))


def run_session(acc, H, i, sess):
    c = Collector(acc, False)
    decide_session(c, H, i, sess)
    name_context(acc, c.viols,
                 any(p.get('hostile_names') for p in sess['programs']),
                 lambda c2: decide_session(
                     c2, H, i, G.session_with_neutral_names(sess)))


def decide_case(acc, H, i, prog):
    """Programs with a 'special' feature are decided twice: by the model and
    differentially against a variant of the program without the feature; a
    violation the variant does not show gets the feature's mechanism key.
      fw     recovered failing wrap: the model ignores the rejected helper and
             the definition bytes must equal those of the program without it
      fb     recovered failing body: decided by the model (two consistent
             outcomes accepted, see vf/model_controls.py); a violation that
             the same program with non-failing bodies does not show is keyed
             C04/recovered-body-failure/<what>
      empty  an empty tuple default: either the build rejects the signature
             or the parameter (no values, no slots) has no name entry
      slag   a list of lags for a scalar parameter = its first element"""
    special = prog.get('special')
    c = Collector(acc, False)
    b = eval_prog(c, H, i, prog)
    has_invalid = any(p['default'][0] == 'invalid'
                      for f in prog['funcs'].values() for p in f['params'])
    if (special == 'empty' or has_invalid or has_nan(prog)) \
            and cleanly_rejected(c.viols):
        acc.count('odd_default_rejected_no_verdict')
        return
    if has_invalid:
        acc.count('programs_with_invalid_default_replaced')
    if not special or (special != 'fw' and not c.viols):
        if special:
            acc.count('special_programs/' + special)
        for key, wit in c.viols:
            acc.violation(key, wit)
        return
    acc.count('special_programs/' + special)
    if special == 'fw':
        acc.count('failed_wrap_programs')
        prog2 = G.without_failed_wraps(prog)
        prefix = 'C04/failed-wrap-leaves-trace/'
    elif special == 'fb':
        prog2 = G.without_body_failures(prog)
        prefix = 'C04/recovered-body-failure/'
    else:
        prog2 = G.without_odd_parameters(prog)
        prefix = {'empty': 'C04/empty-tuple-default/',
                  'slag': 'C04/lag-list-for-scalar-parameter/'}[special]
    c2 = Collector(acc, True)
    b2 = eval_prog(c2, H, i, prog2)
    plain = {k for k, _ in c2.viols}
    traced = False
    viols = c.viols
    if special == 'fb':
        # one key per defect: the most telling manifestation first
        viols = sorted(c.viols, key=lambda kw: fb_rank(kw[0]))
    for key, wit in viols:
        if key in plain:
            acc.violation(key, wit)          # present without the feature too
        elif not traced:
            traced = True
            wit = dict(wit)
            wit['key_without_context'] = key
            wit['all_keys'] = sorted({k for k, _ in c.viols})
            what = trace_class(key, wit) if special == 'fw' else \
                fb_class(key) if special == 'fb' else \
                'corrupts-definition'
            acc.violation(prefix + what, wit)
    if special == 'fw' and not traced and b is not None and b2 is not None:
        acc.count('failed_wrap_bytes_compared')
        if b != b2:
            acc.violation('C04/failed-wrap-leaves-trace/bytes-differ',
                          {'case': i, 'program': G.describe(prog),
                           'len_with': len(b), 'len_without': len(b2)})


# ---------------------------------------------------------------------------
# sessions: builds that share their argument objects

KIND_NAMES = {'R': 'rates-list', 'P': 'prepend-list', 'V': 'variants-dict',
              'M': 'metadata-dict', 'T': 'default-tuple'}


def _num(x):
    """numbers by value (2 and 2.0 say the same)"""
    if isinstance(x, (int, float)) and not isinstance(x, bool):
        return float(x)
    if isinstance(x, (list, tuple)):
        return [_num(y) for y in x]
    return x


def rates_meaning(rates):
    """what a rates list says, entry by entry: None, 0 and 0.0 all mean
    "no rate name, no lag", and so does a missing entry at the end"""
    out = [None if e is None or (isinstance(e, (int, float))
                                 and not isinstance(e, bool) and e == 0)
           else _num(e) for e in rates]
    while out and out[-1] is None:
        out.pop()
    return out


class Pool:
    """the run-time argument objects of one session, each created ONCE from a
    deep copy of its description, together with a snapshot taken before the
    first use"""

    def __init__(self, H, shared):
        import copy
        self.objs, self.kind, self.before = {}, {}, {}
        for sid, sh in shared.items():
            kind, val = sh['kind'], copy.deepcopy(sh['value'])
            if kind == 'P':
                val = [pv[1] for pv in val]
            elif kind == 'M':
                val = {'specs': {n: H.ControlSpec(-30000, 30000, default=v)
                                 for n, v in val.items()}}
            elif kind == 'T':
                val = tuple(val)
            self.objs[sid], self.kind[sid] = val, kind
            self.before[sid] = self.snapshot(sid)
        self.reported = set()

    def snapshot(self, sid):
        """(state, meaning): the exact state of the object and what it says
        as an argument of a build"""
        import copy
        obj, kind = self.objs[sid], self.kind[sid]
        if kind == 'M':
            # metadata is the user's dictionary: what a build reads from it
            # are the defaults of the specs
            specs = obj.get('specs') if isinstance(obj, dict) else None
            if not isinstance(specs, dict):
                return (repr(obj)[:200], None)
            names = list(specs)
            defaults = [getattr(o, 'default', None) for o in specs.values()]
            return ((list(obj), names, [id(o) for o in specs.values()],
                     defaults), sorted(zip(names, map(repr, defaults))))
        if kind == 'P':
            st = [(id(x), repr(x)) for x in obj]
            return (st, st)
        if kind == 'R':
            return (copy.deepcopy(obj), rates_meaning(obj))
        if kind == 'V':
            # a number and a one element list say the same
            try:
                m = [(vn, [(cn, _num(v) if isinstance(v, (list, tuple))
                            else [_num(v)]) for cn, v in pairs.items()])
                     for vn, pairs in obj.items()]
            except Exception:
                m = None
            return (repr(obj), m)
        return (repr(obj), repr(obj))

    def spec_defaults(self, sid):
        b = self.before[sid][0]
        return dict(zip(b[1], b[3]))

    def tuples(self):
        return {sid: o for sid, o in self.objs.items() if self.kind[sid] == 'T'}

    def audit(self, acc):
        """-> [(object id, kind, how, before, after)] for every object whose
        MEANING as an argument is no longer what it was before the first use
        (each object once).  A change of the object that leaves its meaning
        alone is counted, not reported - no later build can tell the
        difference: a rates list that gained entries meaning "nothing" (the
        unchanged library pads the caller's list with 0 up to the number of
        parameters), a variant value turned into a one element list, further
        keys in the metadata dictionary."""
        out = []
        for sid, obj in self.objs.items():
            if sid in self.reported:
                continue
            acc.count('argument_objects_audited')
            kind = self.kind[sid]
            before, meant = self.before[sid]
            now, means = self.snapshot(sid)
            if repr(now) == repr(before):
                continue
            if repr(means) == repr(meant):
                acc.count('argument_objects_changed_in_place_same_meaning/'
                          + KIND_NAMES[kind])
                continue
            how = 'changed'
            if kind == 'R':
                a, b = meant, means
                how = 'entries-lost' if repr(a[:len(b)]) == repr(b) else \
                    'entries-added' if repr(b[:len(a)]) == repr(a) else \
                    'entries-changed'
            self.reported.add(sid)
            out.append((sid, kind, how, repr(before)[:300], repr(now)[:300]))
        return out


def session_use_counters(acc, progs, shared):
    """which histories of a shared rates list the session contains"""
    uses = {}
    for k, prog in enumerate(progs):
        for fname in MC.invocation_order(prog):
            f = prog['funcs'][fname]
            if 'rates_obj' in f:
                uses.setdefault(f['rates_obj'], []).append(
                    (k, fname == prog['top'], len(f['params']) - f['prepend']))
    for sid, us in uses.items():
        if len(us) < 2:
            continue
        acc.count('shared_rates_lists')
        acc.count('shared_rates_list_uses', len(us))
        if len({k for k, _, _ in us}) > 1:
            acc.count('shared_rates_lists_used_by_several_builds')
        if len({k for k, _, _ in us}) < len(us):
            acc.count('shared_rates_lists_used_several_times_in_one_build')
        if len({top for _, top, _ in us}) > 1:
            acc.count('shared_rates_lists_used_by_constructor_and_wrap')
        m = rates_meaning(shared[sid]['value'])
        ln = len(shared[sid]['value'])
        seen = None
        for _, _, n in us:
            if seen is not None and n > seen and any(
                    e is not None for e in m[seen:n]):
                acc.count('shared_rates_entries_first_read_by_a_later_'
                          'longer_function')
                break
            seen = n if seen is None else max(seen, n)
        if any(a[2] > b[2] for a, b in zip(us, us[1:])):
            acc.count('shared_rates_longer_function_before_shorter')
        if any(n < ln for _, _, n in us[:-1]):
            acc.count('shared_rates_list_longer_than_an_earlier_function')
        if any(n > ln for _, _, n in us[:-1]):
            acc.count('shared_rates_list_shorter_than_an_earlier_function')
    other = {}
    for prog in progs:
        for key in ('variants_obj', 'metadata_obj'):
            if key in prog:
                other.setdefault(prog[key], []).append(1)
        for f in prog['funcs'].values():
            if 'prepend_obj' in f:
                other.setdefault(f['prepend_obj'], []).append(1)
            if 'alias_of' in f:
                continue
            for p in f['params']:
                if p.get('default_obj'):
                    other.setdefault(p['default_obj'], []).append(1)
    for sid, us in other.items():
        if len(us) >= 2:
            acc.count({'P': 'shared_prepend_lists', 'V': 'shared_variants_dicts',
                       'M': 'shared_metadata_dicts',
                       'T': 'shared_default_tuples'}[shared[sid]['kind']])
            acc.count('shared_object_uses/' + KIND_NAMES[shared[sid]['kind']],
                      len(us))


def decide_session(acc, H, i, sess):
    """Builds of DIFFERENT signatures that are handed the SAME argument
    objects.  Every build is decided by the model from the program
    description (= the value every object had before its first use).  After
    every build every object is compared with its snapshot.
      C04/argument-object-changed/<kind>/<how>   a build changed what an
            argument object of the caller says (witness: the later builds of
            the session that came out wrong because of it)
      C04/shared-argument-objects/<what>   a build is wrong after earlier
            builds used the same objects, right when built alone from fresh
            equal objects, and no object changed (state kept elsewhere)
    A violation that the build from fresh objects shows too keeps its key."""
    progs, shared = sess['programs'], sess['shared']
    pool = Pool(H, shared)
    acc.count('sessions')
    session_use_counters(acc, progs, shared)
    mutations, late = [], []
    for k, prog in enumerate(progs):
        c = Collector(acc, False)
        try:
            eval_prog(c, H, i, prog, pool)
        except Exception:
            if not mutations:
                raise
            break       # the harness stumbled over an object already reported
        acc.count('session_builds')
        acc.count('session_builds/' + prog['entry'])
        viols = c.viols
        if cleanly_rejected(viols) and (has_nan(prog) or any(
                p['default'][0] == 'invalid'
                for f in prog['funcs'].values() for p in f['params'])):
            acc.count('odd_default_rejected_no_verdict')
            viols = []
        mutations += [(k, m) for m in pool.audit(acc)]
        if viols:
            late.append((k, prog, viols))
    if not mutations and not late:
        acc.count('sessions_without_finding')
        return
    context = {'case': i,
               'session': [G.describe(p) for p in progs],
               'shared_objects': {sid: (KIND_NAMES[sh['kind']], sh['value'])
                                  for sid, sh in shared.items()}}
    own = []
    for k, prog, viols in late:
        c2 = Collector(acc, True)
        eval_prog(c2, H, i, prog, None)
        plain = {key for key, _ in c2.viols}
        rest = []
        for key, wit in viols:
            if key in plain:
                acc.violation(key, wit)     # wrong without any history too
            else:
                rest.append((key, wit))
        if rest:
            own.append((k, sorted(rest, key=lambda kw: fb_rank(kw[0]))))
    consequences = [(k, sorted({key for key, _ in rest})) for k, rest in own]
    seen = set()
    for k, (sid, kind, how, before, now) in mutations:
        key = f'C04/argument-object-changed/{KIND_NAMES[kind]}/{how}'
        if key in seen:
            continue
        seen.add(key)
        w = dict(context)
        w.update(object=sid, changed_by_build=k, before=before, after=now,
                 later_builds_wrong=consequences)
        acc.violation(key, w)
    if not mutations and own:
        k, rest = own[0]
        key, wit = rest[0]
        w = dict(wit)
        w.update(context)
        w.update(build_in_session=k, key_without_context=key,
                 all_keys=consequences)
        # one key per kind of damage (the details are in the witness)
        acc.violation('C04/shared-argument-objects/' + key.split('/')[1], w)


def eval_prog(acc, H, i, prog, pool=None):
    """build, decode and check one program; -> definition bytes or None.
    pool: the argument objects of a session (class Pool); entries of the
    program that name one of them hand THAT object to the library, everything
    else (and everything when pool is None) is a fresh copy of the
    description.  The model only ever reads the description."""
    import copy

    def shared(owner, key):
        sid = owner.get(key) if pool is not None else None
        return None if sid is None else pool.objs[sid]

    # metadata specs are real ControlSpec objects; the model uses the default
    # read back from the object (for a shared metadata dict: read back when
    # the object was created)
    prog_m = dict(prog)
    metadata = shared(prog, 'metadata_obj')
    if metadata is not None:
        prog_m['specs'] = pool.spec_defaults(prog['metadata_obj'])
    else:
        specs_obj = {n: H.ControlSpec(-30000, 30000, default=v)
                     for n, v in prog['specs'].items()}
        prog_m['specs'] = {n: o.default for n, o in specs_obj.items()}
        if specs_obj:
            metadata = {'specs': specs_obj}
    lay = MC.layout(prog_m)
    slots = lay['slots']
    tags = {n: 50000 + k for k, n in enumerate(lay['order'])}
    funcs = prog['funcs']
    ns = {}
    st = {'order': [], 'prepend_bad': [], 'prepend_checked': 0,
          'received': {}, 'shape_bad': [], 'rejected': [], 'not_rejected': [],
          'routed': set(), 'raised': [], 'handled': [], 'lib_accepted': [],
          'kinds_checked': 0, 'kind_bad': [], 'op_raised': [], 'op_unusable': [],
          'probed': {}}
    pending_prepend = {}

    def body(fname, loc):
        # identity of this invocation: the entry announced by the caller (the
        # same python function may be wrapped several times)
        fname = st.pop('next_fn', fname)
        f = funcs[fname]
        if f.get('fails'):
            # the library accepted the invalid annotation: no verdict
            st['not_rejected'].append(fname)
            return None
        st['order'].append(fname)
        # prepended parameters must be exactly the objects passed
        exp = pending_prepend.pop(fname, None)
        if exp is not None:
            for p, want in zip(f['params'][:f['prepend']], exp):
                st['prepend_checked'] += 1
                got = loc[p['name']]
                same = got is want or (isinstance(want, (int, float, str))
                                       and type(got) is type(want)
                                       and got == want)
                if not same:
                    st['prepend_bad'].append(
                        (fname, p['name'], repr(want)[:80], repr(got)[:80]))
        bf = f.get('body_fails')
        for k, p in enumerate(f['params'][f['prepend']:]):
            if bf and k == bf['route']:
                break               # the rest is never used: the body fails
            v = loc[p['name']]
            key = (fname, p['name'])
            st['routed'].add(key)
            s = slots[key]
            n = len(v) if isinstance(v, list) else 1
            if (isinstance(v, list) and not s.is_array and s.size == 1) or \
                    n != s.size:
                st['shape_bad'].append((p['name'], s.size, repr(v)[:120]))
            if s.size == 0:
                continue            # no values, nothing to route
            if s.rate == 'ar':
                H.iou.Out.ar(tags[key], v)
            else:
                H.iou.Out.kr(tags[key], v)
            # WHAT KIND OF OBJECT is the parameter?  A scalar parameter is
            # one control output, a tuple default of any length (1 included)
            # is a ChannelList of control outputs - a signal either way
            st['kinds_checked'] += 1
            if s.is_array:
                ok = isinstance(v, H.ugn.ChannelList)
            else:
                ok = isinstance(v, H.ugn.UGen) and not isinstance(v, list)
            if not ok:
                st['kind_bad'].append(
                    (p['name'], s.rate, s.size, s.is_array,
                     type(v).__name__, repr(v)[:120]))
            # ... and the body applies an operator / signal method DIRECTLY
            # to it; the result goes to a second tagged sink
            op = probe_op(i, fname, k, s)
            if op is not None:
                try:
                    res = op[1](v, op[3], op[4])
                except Exception as e:
                    st['op_raised'].append(
                        (p['name'], s.rate, s.size, s.is_array, op[0],
                         op[3], op[4], f'{type(e).__name__}: {e}'[:160]))
                else:
                    try:
                        flat = res if isinstance(res, list) else [res]
                        if not flat or not all(
                                isinstance(e, (H.ugn.UGen, int, float))
                                for e in flat):
                            raise TypeError('operator result is not a '
                                            'signal / list of signals')
                        if s.rate == 'ar':
                            H.iou.Out.ar(tags[key] + OP_TAG, res)
                        else:
                            H.iou.Out.kr(tags[key] + OP_TAG, res)
                        st['probed'][key] = op
                    except Exception as e:
                        # (v * -3 of a plain list is [], not a signal)
                        st['op_unusable'].append(
                            (p['name'], s.rate, s.size, s.is_array, op[0],
                             op[3], op[4], repr(res)[:120],
                             f'{type(e).__name__}: {e}'[:160]))
        def do_wrap(child):
            c = funcs[child]
            vals = []
            for pv in c['prepend_values']:
                if pv[0] == 'num' or pv[0] == 'str':
                    vals.append(pv[1])
                elif pv[0] == 'parent':
                    vals.append(loc[pv[1]])
                else:
                    vals.append(H.ocl.SinOsc.ar(333))
            pending_prepend[child] = vals
            rates = shared(c, 'rates_obj')
            if rates is None and c['rates'] is not None:
                rates = copy.deepcopy(c['rates'])
            plist = shared(c, 'prepend_obj')
            if plist is None:
                plist = list(vals)
            fn = ns[c.get('alias_of', child)]
            st['next_fn'] = child
            try:
                if vals or c['prepend']:
                    H.SynthDef.wrap(fn, rates, plist)
                elif rates is None:
                    H.SynthDef.wrap(fn)
                else:
                    H.SynthDef.wrap(fn, rates)
            finally:
                st.pop('next_fn', None)

        def fail():
            # the body of a wrapped function fails after its parameters
            # were made controls
            st['failing_now'] = fname
            st['raised'].append(fname)
            if bf['kind'] == 'user':
                raise USER_EXCEPTIONS[bf['exc']](f'body of {fname} fails')
            if bf['kind'] == 'wrap-not-a-function':
                H.SynthDef.wrap(42)
            elif bf['kind'] == 'wrap-bad-annotation':
                H.SynthDef.wrap(ns['__bad_annotation__'])
            else:
                H.SynthDef.wrap(ns['__star_args__'])
            st['lib_accepted'].append((fname, bf['kind']))
            raise USER_EXCEPTIONS[bf['exc']]('not raised by the library')

        def guarded(child):
            # this function handles the exception of a failing body below
            # the call and carries on
            try:
                do_wrap(child)
            except Exception as e:
                who = st.get('failing_now')
                if who is None or catch_points.get(who) != (fname, child) \
                        or type(e).__name__ != funcs[who]['body_fails']['exc']:
                    raise
                del st['failing_now']
                st['handled'].append((who, fname, child))
                st.setdefault('mark', len(st['order']))
                pending_prepend.clear()
                if funcs[who].get('fallback'):
                    do_wrap(funcs[who]['fallback'])

        for idx, child in enumerate(f['wraps']):
            if bf and idx == bf['wraps']:
                fail()
            if (fname, child) in guards:
                guarded(child)
            elif funcs[child].get('fails'):
                # recovered failing wrap: catch the rejection, carry on
                try:
                    do_wrap(child)
                except ValueError as e:
                    st['rejected'].append((child, str(e)[:80]))
                pending_prepend.pop(child, None)
                if funcs[child].get('fallback'):
                    do_wrap(funcs[child]['fallback'])
            else:
                do_wrap(child)
        if bf:
            fail()
        return None

    ns['__body__'] = body
    if pool is not None:
        ns.update(pool.tuples())
    src = G.source(prog, define_shared=pool is None)
    exec(compile(src, f'<c04 case {i}>', 'exec'), ns)
    has_fb = any(f.get('body_fails') for f in funcs.values())
    catch_points, guards = {}, set()
    if has_fb:
        exec("def __bad_annotation__(x=1, y: 'krr' = 2, z=3):\n    pass\n"
             "def __star_args__(x=1, *more):\n    pass\n", ns)
        parent = {w: f['name'] for f in funcs.values() for w in f['wraps']}
        for f in funcs.values():
            if f.get('body_fails'):
                child = f['name']
                for _ in range(f['body_fails']['catch_up']):
                    child = parent[child]
                catch_points[f['name']] = (parent[child], child)
                guards.add((parent[child], child))
    top = funcs[prog['top']]
    top_prepend = [pv[1] for pv in top['prepend_values']]
    pending_prepend[prog['top']] = top_prepend
    kwargs = {}
    if top['rates'] is not None:
        kwargs['rates'] = shared(top, 'rates_obj')
        if kwargs['rates'] is None:
            kwargs['rates'] = copy.deepcopy(top['rates'])
    if top_prepend:
        kwargs['prepend'] = shared(top, 'prepend_obj')
        if kwargs['prepend'] is None:
            kwargs['prepend'] = list(top_prepend)
    if prog['variants']:
        kwargs['variants'] = shared(prog, 'variants_obj')
        if kwargs['variants'] is None:
            kwargs['variants'] = copy.deepcopy(prog['variants'])
    if metadata is not None:
        kwargs['metadata'] = metadata

    desc = G.describe(prog)
    nontriv = G.nontrivial(prog, lay)
    acc.case(h64(repr(desc)), nontrivial=nontriv)
    acc.count('programs')
    wit = {'case': i, 'program': desc}

    def viol(key, **kw):
        w = dict(wit)
        w.update(kw)
        acc.violation(key, w)

    entry = prog.get('entry', 'keywords')
    try:
        if entry == 'positional':
            args = [kwargs.get(k) for k in
                    ('rates', 'prepend', 'variants', 'metadata')]
            while args and args[-1] is None:
                args.pop()
            sd = H.SynthDef(prog['name'], ns[prog['top']], *args)
        elif entry == 'decorator':
            # the definition is named after the function; the decorator also
            # adds it to the description library and registers a boot action
            # (removed again: it would keep every definition alive)
            H.main.reset()      # add() writes /d_recv into the NRT score
            had = set(H.sac.ServerBoot._servers.get('all', ()))
            try:
                sd = H.synthdef(**kwargs)(ns[prog['top']]) if kwargs \
                    else H.synthdef(ns[prog['top']])
            finally:
                for a in set(H.sac.ServerBoot._servers.get('all', ())) - had:
                    H.sac.ServerBoot.remove('all', a)
        else:
            sd = H.SynthDef(prog['name'], ns[prog['top']], **kwargs)
    except Exception as e:
        H.main._current_synthdef = None
        viol(f'C04/build-raises/{exc_site(e)}', exception=short_tb(e))
        return None
    if st['not_rejected']:
        acc.count('failed_wrap_not_rejected_no_verdict')
        return None
    if st['lib_accepted']:
        acc.count('failing_body_library_call_accepted_no_verdict')
        return None
    acc.count('failed_wraps_recovered', len(st['rejected']))
    if has_fb:
        acc.count('failed_bodies_recovered', len(st['handled']))
        acc.count('failed_bodies_passing_through_a_wrapped_function',
                  sum(1 for who, _, _ in st['handled']
                      if funcs[who]['body_fails']['catch_up']))
        acc.count('failed_bodies_raised_by_library_call',
                  sum(1 for who, _, _ in st['handled']
                      if funcs[who]['body_fails']['kind'] != 'user'))
        if st['handled']:
            later = st['order'][st['mark']:]
            acc.count('functions_wrapped_after_a_failed_body', len(later))
            if later:
                acc.count('programs_wrapping_after_a_failed_body')
            acc.count('controls_declared_after_a_failed_body',
                      sum(1 for k in lay['order'] if k[0] in later))
        acc.count('controls_of_failed_bodies',
                  sum(1 for k in lay['order']
                      if funcs[k[0]].get('body_fails')))
    name_counters(acc, prog, lay)
    try:
        raw = bytes(sd.as_bytes())
    except Exception as e:
        cause = e.__cause__ or e
        if isinstance(cause, UnicodeEncodeError) and not all(
                p['name'].isascii() for f in funcs.values()
                for p in f['params']):
            # a definition file holds ASCII names: no bytes, the python-side
            # state (anchors of the property) is compared instead
            acc.count('unicode_named_programs_refused_by_writer')
            check_python_state(acc, viol, sd, lay)
            return None
        viol(f'C04/as-bytes-raises/{exc_site(e)}', exception=short_tb(e))
        return None
    try:
        d = H.scgf.parse(raw)
    except Exception as e:
        viol('C04/bytes-not-parseable', error=str(e)[:300])
        return raw
    acc.count('programs_decoded')
    acc.count('wrapped_functions', len(MC.invocation_order(prog)) - 1)
    acc.count('parameters', len(lay['order']))
    layout_desc = {f'{k[0]}.{k[1]}': (s.index, s.size, s.rate,
                                      s.lags if any(s.lags) else None)
                   for k, s in slots.items()}
    ndup = sum(c for c in lay['name_count'].values() if c > 1)
    acc.count('repeated_name_declarations', ndup)
    if ndup:
        acc.count('programs_with_repeated_names')
    wit['expected_layout'] = layout_desc

    # -- build-time observations ----------------------------------------
    if st['order'] != MC.invocation_order(prog):
        viol('C04/wrap-order', order=st['order'])
    acc.count('prepended_values_checked', st['prepend_checked'])
    for bad in st['prepend_bad'][:1]:
        viol('C04/prepend/' + ('top' if bad[0] == prog['top'] else 'wrap'),
             detail=bad)
    for bad in st['shape_bad'][:1]:
        viol('C04/body-signal/channel-count', detail=bad)
    acc.count('parameter_object_kinds_checked', st['kinds_checked'])
    for bad in st['kind_bad'][:1]:
        what = ('array-parameter-is-a-plain-list' if bad[4] == 'list'
                else 'array-parameter-is-not-a-channel-list') if bad[3] \
            else 'scalar-parameter-is-not-a-single-output'
        viol('C04/body-signal/object-kind/' + what, name=bad[0], rate=bad[1],
             size=bad[2], received_type=bad[4], received=bad[5],
             all=st['kind_bad'][:6])
    for bad in st['op_raised'][:1]:
        viol('C04/body-signal/operator-on-parameter/raises', name=bad[0],
             rate=bad[1], size=bad[2], array=bad[3], operator=bad[4],
             constants=bad[5:7], exception=bad[7], all=st['op_raised'][:6])
    for bad in st['op_unusable'][:1]:
        viol('C04/body-signal/operator-on-parameter/result-is-not-a-signal',
             name=bad[0], rate=bad[1], size=bad[2], array=bad[3],
             operator=bad[4], constants=bad[5:7], result=bad[7],
             exception=bad[8])

    k0 = len(acc.viols)
    go_on = check_decoded(acc, viol, H, d, prog_m, lay, tags, st)
    if has_fb and len(acc.viols) > k0:
        # the other consistent outcome: everything created inside the
        # handled call was taken back
        alt = Collector(acc, True)
        lay2 = MC.layout(prog_m, 'dropped')

        def viol2(key, **kw):
            alt.violation(key, kw)
        go_on = check_decoded(alt, viol2, H, d, prog_m, lay2, tags, st)
        if not alt.viols:
            del acc.viols[k0:]
            acc.count('failed_body_rolled_back_completely_accepted')
        else:
            acc.viols[k0][1]['keys_if_failed_call_were_rolled_back'] = \
                sorted({k for k, _ in alt.viols})
            go_on = False
    if not go_on:
        return raw
    return check_call(acc, viol, H, sd, prog, st, raw, d, src, desc,
                      layout_desc, nontriv, i)


def name_counters(acc, prog, lay):
    """which hostile name classes the built definition declares"""
    funcs = prog['funcs']
    if prog.get('hostile_names'):
        acc.count('programs_with_hostile_names')
    names = set()
    for (fname, pname), s in lay['slots'].items():
        names.add(pname)
        nc = G.name_class(pname)
        if not nc:
            continue
        acc.count('controls_named/' + nc)
        if pname[:2] in ('a_', 'i_', 't_', 'k_'):
            f = funcs[fname]
            p = f['params'][f['prepend'] + s.decl]
            rates = f['rates'] or []
            e = rates[s.decl] if s.decl < len(rates) else None
            if p['annot'] is None and not isinstance(e, str):
                acc.count('prefix_named_controls_without_annotation_or_rate')
                acc.count('prefix_named_controls_without_annotation_or_rate/'
                          + pname[:2])
                if any(s.lags):
                    acc.count('prefix_named_controls_with_lag')
                if fname != prog['top']:
                    acc.count('prefix_named_controls_in_wrapped_functions')
    if len({n.lower() for n in names}) < len(names):
        acc.count('definitions_with_names_differing_only_in_case')
    if not all(n.isascii() for n in names):
        acc.count('unicode_named_programs')
    for f in funcs.values():
        for p in f['params'][:f['prepend']]:
            if G.name_class(p['name']):
                acc.count('prepended_parameters_with_hostile_names')


def check_python_state(acc, viol, sd, lay):
    """fallback for definitions the writer refuses for their non-ASCII
    names: name table and default array as the SynthDef object holds them"""
    try:
        got = sorted((cn.name, cn.index) for cn in sd._all_control_names
                     if cn.rate != 'noncontrol')
        ctl = list(sd._controls)
    except AttributeError:
        acc.count('unicode_named_programs_state_not_readable_no_verdict')
        return
    slots = lay['slots']
    exp = sorted((s.name, s.index) for s in slots.values() if s.size)
    acc.count('python_state_name_entries_checked', len(exp))
    if got != exp:
        viol('C04/name-table/python-state-of-unicode-named-definition',
             got=got, expected=exp)
    if len(ctl) != lay['P']:
        viol('C04/param-count', decoded=len(ctl), expected=lay['P'],
             python_state=True)
        return
    try:
        ctl = [MC.f32(v) for v in ctl]
    except Exception:
        viol('C04/default-value/not-a-number', python_state=repr(ctl)[:300])
        return
    check_defaults(acc, viol, slots, ctl, python_state=True)


def check_decoded(acc, viol, H, d, prog_m, lay, tags, st):
    """decoded definition against one layout; -> False: give up the case"""
    slots = lay['slots']
    funcs = prog_m['funcs']
    # -- parameter array -------------------------------------------------
    if len(d.params) != lay['P']:
        viol('C04/param-count', decoded=len(d.params), expected=lay['P'])
        return False
    check_defaults(acc, viol, slots, d.params)
    acc.count('default_slots_checked', lay['P'])
    return check_decoded_rest(acc, viol, H, d, prog_m, lay, tags, st)


def check_defaults(acc, viol, slots, params, **kw):
    """a slot holds the float32 nearest to the declared number, bit for bit.
    When every wrong slot of the definition was declared with a value of an
    edge class (vf/c04_gen.value_class) the key names the class."""
    wrong = []
    for key, s in slots.items():
        first = True
        for ch in range(s.size):
            v = s.defaults[ch]
            vc = G.value_class(v)
            got = params[s.index + ch]
            if vc:
                acc.count('edge_default_slots_checked')
                acc.count('edge_defaults/' + vc)
                if s.is_array:
                    acc.count(f'edge_defaults/{vc}/in-tuple')
                if vc == 'nan':
                    acc.count('nan_default_held' if got != got
                              else 'nan_default_replaced')
            if not MC.slot_holds(got, v, s.nan_fallback):
                wrong.append((s, ch, vc, first))
                first = False
    edge_only = all(vc for _, _, vc, _ in wrong)
    for s, ch, vc, first in wrong:
        if first:           # one report per parameter
            viol(f'C04/default-value/{s.rate}'
                 + (f'/{vc}-default-not-held' if edge_only else ''),
                 name=s.name, channel=ch, declared=repr(s.defaults[ch]),
                 decoded=params[s.index:s.index + s.size],
                 expected=s.defaults, **kw)


def check_decoded_rest(acc, viol, H, d, prog_m, lay, tags, st):
    slots = lay['slots']
    funcs = prog_m['funcs']

    # -- name table ------------------------------------------------------
    # one entry per declared parameter occurrence, each pointing at its own
    # slot (a name may be declared several times); compared as multisets
    import collections
    names = [nm for nm, _ in d.param_names]
    acc.count('name_entries_checked', len(names))
    got_cnt = collections.Counter(names)
    exp_cnt = collections.Counter(lay['name_count'])
    exp_pairs = sorted((s.name, s.index) for s in slots.values() if s.size)
    if got_cnt != exp_cnt:
        lost = {n: (exp_cnt[n], got_cnt.get(n, 0)) for n in exp_cnt
                if got_cnt.get(n, 0) < exp_cnt[n]}
        if lost and all(e > 1 for e, _ in lost.values()):
            what = 'entry-of-repeated-name-lost'
        elif lost:
            what = 'missing'
        else:
            what = 'extra'
        viol(f'C04/name-table/{what}', decoded=d.param_names,
             expected=exp_pairs, lost=lost)
    # names present as often as declared must point at their own slots (also
    # when other names are missing / extra)
    agree = {n for n in exp_cnt if got_cnt.get(n, 0) == exp_cnt[n]}
    got_a = sorted(p for p in d.param_names if p[0] in agree)
    exp_a = [p for p in exp_pairs if p[0] in agree]
    if got_a != exp_a:
        bad = sorted((collections.Counter(exp_a)
                      - collections.Counter(got_a)).elements())
        s0 = next(s for s in slots.values()
                  if s.size and (s.name, s.index) == bad[0])
        rep_ = '/repeated-name' if lay['name_count'][s0.name] > 1 else ''
        viol(f'C04/name-table/index/{s0.rate}{rep_}', name=s0.name,
             expected_index=s0.index, decoded=d.param_names,
             expected=exp_pairs)

    # -- control units partition the slots --------------------------------
    CTL = ('Control', 'TrigControl', 'AudioControl', 'LagControl')
    cover = [0] * lay['P']
    for u in d.units:
        if u.cls in CTL:
            for o in range(len(u.out_rates)):
                if 0 <= u.special + o < lay['P']:
                    cover[u.special + o] += 1
                else:
                    cover.append(99)
    acc.count('control_units_checked', sum(1 for u in d.units if u.cls in CTL))
    if any(c != 1 for c in cover):
        viol('C04/control-units/not-a-partition', cover=cover[:80],
             units=[repr(u) for u in d.units if u.cls in CTL][:12])
    for g in lay['groups']:
        if g[4] and g[3] > 16:
            acc.count('lagcontrol_chunked_groups')

    # -- sinks: what the body received ----------------------------------
    sinks = {}
    for u in d.units:
        if u.cls == 'Out' and u.inputs and u.inputs[0][0] == 'c':
            sinks.setdefault(d.constants[u.inputs[0][1]], []).append(u)
    for key, s in slots.items():
        n = s.name
        if s.size == 0:
            continue
        if key not in st['routed'] and funcs[key[0]].get('body_fails'):
            acc.count('controls_not_used_by_failed_body')
            continue            # the body failed before it used the parameter
        us = sinks.get(float(tags[key]), [])
        if len(us) != 1:
            viol('C04/body-signal/sink-missing', name=n, found=len(us))
            continue
        wires = us[0].inputs[1:]
        acc.count('sinks_checked')
        if len(wires) != s.size:
            viol('C04/body-signal/channel-count', name=n,
                 decoded_wires=len(wires), expected=s.size)
            continue
        for ch, w in enumerate(wires):
            bad = check_wire(d, s, ch, w, acc)
            if bad:
                viol(f'C04/body-signal/{s.rate}/{bad}', name=n, channel=ch,
                     wire=repr(w), unit=repr(d.units[w[1]]) if w[0] == 'u'
                     else None)
                break

    # -- operator sinks: the units between parameter and sink compute the
    # operator applied to exactly the control output of the slot -----------
    for key, op in st['probed'].items():
        s = slots.get(key)
        if s is None or s.size == 0:
            continue
        us = sinks.get(float(tags[key] + OP_TAG), [])
        if len(us) != 1:
            viol('C04/body-signal/operator-on-parameter/sink-missing',
                 name=s.name, operator=op[0], found=len(us))
            continue
        wires = us[0].inputs[1:]
        acc.count('operator_probes_checked')
        acc.count('operator_probes/' + op[0])
        acc.count('operator_probes/rate/' + s.rate)
        if key[0] != prog_m['top']:
            acc.count('operator_probes_in_wrapped_functions')
        if s.is_array:
            acc.count('operator_probes_on_array_parameters')
            if s.size == 1:
                acc.count('operator_probes_on_one_element_arrays')
                acc.count('operator_probes_on_one_element_arrays/' + s.rate)
        if any(s.lags):
            acc.count('operator_probes_on_lagged_parameters')
        if len(wires) != s.size:
            viol('C04/body-signal/operator-on-parameter/channel-count',
                 name=s.name, rate=s.rate, array=s.is_array,
                 operator=op[0], constants=op[3:5],
                 decoded_wires=len(wires), expected=s.size,
                 units=[repr(d.units[w[1]]) if w[0] == 'u' else repr(w)
                        for w in wires][:6])
            continue
        for ch, w in enumerate(wires):
            bad = check_operator_wire(d, s, ch, w, op, acc)
            if bad:
                viol(f'C04/body-signal/operator-on-parameter/{bad}',
                     name=s.name, rate=s.rate, array=s.is_array, channel=ch,
                     operator=op[0], constants=op[3:5], wire=repr(w),
                     unit=repr(d.units[w[1]]) if w[0] == 'u' else None)
                break

    # -- variants --------------------------------------------------------
    exp_var = MC.variants(prog_m, lay)
    got_var = dict(d.variants)
    if len(d.variants) != len(exp_var) or set(got_var) != set(exp_var):
        viol('C04/variants/names', decoded=[v[0] for v in d.variants],
             expected=list(exp_var))
    else:
        given = {vn: {(lay['by_name'][pn].index + k): x
                      for pn, v in pairs.items()
                      for k, x in enumerate(v if isinstance(v, (list, tuple))
                                            else [v])}
                 for vn, pairs in (prog_m.get('variants') or {}).items()}
        for vn, vals in exp_var.items():
            acc.count('variant_blocks_checked')
            mine = given.get(vn.split('.', 1)[1], {})
            acc.count('edge_variant_values_checked',
                      sum(1 for x in mine.values() if G.value_class(x)))
            got = got_var[vn]
            # a slot the variant does not override holds what the parameter
            # array holds (a NaN default may have been replaced there)
            bad = [k for k, x in enumerate(vals)
                   if k >= len(got) or not (
                       MC.same_f32(got[k], MC.f32(x)) or
                       (k not in mine and MC.same_f32(got[k], d.params[k])))]
            if bad or len(got) != len(vals):
                cls = {G.value_class(vals[k]) if k in mine else None
                       for k in bad}
                what = f'/{sorted(cls)[0]}-not-held' \
                    if bad and None not in cls else ''
                viol('C04/variants/values' + what, variant=vn, decoded=got,
                     expected=vals, wrong_slots=bad[:8])
                break

    return True


def check_call(acc, viol, H, sd, prog, st, raw, d, src, desc, layout_desc,
               nontriv, i):
    funcs = prog['funcs']
    top = funcs[prog['top']]
    CTL = ('Control', 'TrigControl', 'AudioControl', 'LagControl')
    # -- SynthDef.__call__ ------------------------------------------------
    call = prog['call']
    try:
        H.main.reset()
        sd(*call['positional'], **call['keywords'])
        score = H.main.process().list
    except Exception as e:
        viol(f'C04/call-raises/{exc_site(e)}', exception=short_tb(e))
        return raw
    snew = [m for b in score for m in b[1:]
            if isinstance(m, (list, tuple)) and m and m[0] == '/s_new'
            and m[1] == prog['name']]
    if len(snew) != 1:
        viol('C04/call/no-s_new', score=repr(score)[:400])
        return raw
    pairs = list(snew[0][5:])
    got, k, ok_shape = [], 0, True
    while k < len(pairs):           # name, value | name, '[', values..., ']'
        if k + 1 >= len(pairs):
            ok_shape = False
            break
        nm, v = pairs[k], pairs[k + 1]
        k += 2
        if v == '[':
            try:
                e = pairs.index(']', k)
            except ValueError:
                ok_shape = False
                break
            v = list(pairs[k:e])
            k = e + 1
        got.append((nm, v))
    exp = MC.call_mapping(prog, call['positional'], call['keywords'])
    acc.count('calls_checked')
    acc.count('call_pairs_checked', len(exp))
    if call['positional']:
        acc.count('calls_with_positional')
    if sorted(map(repr, got)) != sorted(map(repr, exp)) or not ok_shape:
        # classify by mechanism: which name list would explain the pairs?
        kw = list(call['keywords'].items())
        pos = call['positional']
        last = funcs[st['order'][-1]]
        last_all = [p['name'] for p in last['params']]
        top_all = [p['name'] for p in top['params']]
        npos_got = len(got) - len(kw)
        if got[max(npos_got, 0):] != kw:
            key = 'C04/call-keyword'
        elif len(funcs) > 1 and got == list(zip(last_all, pos)) + kw:
            key = 'C04/call-positional/names-of-last-wrapped-function'
        elif top['prepend'] and got == list(zip(top_all, pos)) + kw:
            key = 'C04/call-positional/prepended-parameter-counted'
        else:
            key = 'C04/call-positional/other'
        viol(key, s_new=repr(snew[0])[:400], expected_pairs=exp)
    if acc.want_sample() and nontriv and len(src) < 700:
        acc.sample({'case': i, 'program': desc, 'expected_layout': layout_desc,
                    'decoded_param_names': d.param_names,
                    'decoded_controls': [repr(u) for u in d.units
                                         if u.cls in CTL],
                    's_new': repr(snew[0])[:300]})
    return raw


# -- operators applied directly to a parameter ------------------------------
OP_TAG = 20000          # bus tag of the operator sink = tag of the sink + this
OP_CONSTS = [2, 3, 7, 10, -3, 2.5, 0.5, 0.25, -0.5, 1, -1, 1.0, -1.0, 4, 100.0]
# (label, what the body does to the parameter v, the same on a number x)
OPS = [
    ('neg', lambda v, c, m: -v, lambda x, c, m: -x),
    ('neg-method', lambda v, c, m: v.neg(), lambda x, c, m: -x),
    ('abs', lambda v, c, m: abs(v), lambda x, c, m: abs(x)),
    ('squared', lambda v, c, m: v.squared(), lambda x, c, m: x * x),
    ('add-number', lambda v, c, m: v + c, lambda x, c, m: x + c),
    ('number-add', lambda v, c, m: c + v, lambda x, c, m: c + x),
    ('sub-number', lambda v, c, m: v - c, lambda x, c, m: x - c),
    ('number-sub', lambda v, c, m: c - v, lambda x, c, m: c - x),
    ('mul-number', lambda v, c, m: v * c, lambda x, c, m: x * c),
    ('mul-number', lambda v, c, m: v * c, lambda x, c, m: x * c),
    ('number-mul', lambda v, c, m: c * v, lambda x, c, m: c * x),
    ('div-number', lambda v, c, m: v / c, lambda x, c, m: x / c),
    ('number-div', lambda v, c, m: c / v, lambda x, c, m: c / x),
    ('madd', lambda v, c, m: v.madd(m, c), lambda x, c, m: x * m + c),
    ('madd', lambda v, c, m: v.madd(m, c), lambda x, c, m: x * m + c),
    ('madd-mul-only', lambda v, c, m: v.madd(m), lambda x, c, m: x * m),
    ('madd-add-only', lambda v, c, m: v.madd(add=c), lambda x, c, m: x + c),
    ('min-number', lambda v, c, m: v.min(c), lambda x, c, m: min(x, c)),
    ('max-number', lambda v, c, m: v.max(c), lambda x, c, m: max(x, c)),
    ('mul-self', lambda v, c, m: v * v, lambda x, c, m: x * x),
    ('add-self', lambda v, c, m: v + v, lambda x, c, m: x + x),
    ('sub-then-mul', lambda v, c, m: (v - c) * m, lambda x, c, m: (x - c) * m),
]
# operator units by special index (server's operator numbering)
BIN_OPS = {0: lambda a, b: a + b, 1: lambda a, b: a - b,
           2: lambda a, b: a * b, 4: lambda a, b: a / b,
           12: min, 13: max}
UN_OPS = {0: lambda a: -a, 5: abs, 12: lambda a: a * a}
PROBE_XS = (1.75, -2.375, 5.125, -0.3125)


def probe_op(case, fname, k, s):
    """the operator the body applies to the k-th control parameter of
    function entry fname: (label, on signal, on number, c, m) or None.
    Drawn from a hash of (case, entry, position): the description of the
    program (and the generator's random stream) is left alone, the same
    entry of the same case gets the same operator in every variant of the
    program (neutral names, without the failure feature, fresh objects)."""
    if s.size == 0:
        return None
    h = h64(('C04-op', case, fname, k))
    if not s.is_array and h % 100 >= PROBE_SCALAR_PERCENT:
        return None
    h //= 100
    label, on_sig, on_num = OPS[h % len(OPS)]
    h //= len(OPS)
    c = OP_CONSTS[h % len(OP_CONSTS)]
    h //= len(OP_CONSTS)
    m = OP_CONSTS[h % len(OP_CONSTS)]
    return (label, on_sig, on_num, c, m)


PROBE_SCALAR_PERCENT = 100


class _Unexpected(Exception):
    pass


def eval_wire(d, w, x, leaves):
    """value of a wire when every control output it depends on carries x"""
    if w[0] == 'c':
        return d.constants[w[1]]
    u = d.units[w[1]]
    if u.cls in ('Control', 'TrigControl', 'AudioControl', 'LagControl'):
        leaves.add(tuple(w))
        return x
    ins = [eval_wire(d, iw, x, leaves) for iw in u.inputs]
    if u.cls == 'BinaryOpUGen' and u.special in BIN_OPS and len(ins) == 2:
        return BIN_OPS[u.special](*ins)
    if u.cls == 'UnaryOpUGen' and u.special in UN_OPS and len(ins) == 1:
        return UN_OPS[u.special](*ins)
    if u.cls == 'MulAdd' and len(ins) == 3:
        return ins[0] * ins[1] + ins[2]
    if u.cls in ('Sum3', 'Sum4') and len(ins) == int(u.cls[3]):
        return sum(ins)
    raise _Unexpected(f'{u.cls}/{u.special}')


def check_operator_wire(d, s, ch, w, op, acc):
    """None or the kind of mismatch: channel ch of the operator sink of
    parameter slot s must compute op of exactly the control output at slot
    s.index + ch (the graph optimiser may have rewritten the units: the
    expression is compared by value at several points, constants as the
    float32 the file holds)."""
    label, _, on_num, c, m = op
    c, m = MC.f32(c), MC.f32(m)
    leaves = None
    for x in PROBE_XS:
        leaves = set()
        try:
            got = eval_wire(d, w, x, leaves)
        except _Unexpected:
            return 'unexpected-unit'
        except ZeroDivisionError:
            return 'wrong-value'
        exp = on_num(x, c, m)
        if abs(got - exp) > 1e-5 * max(1.0, abs(exp)):
            return 'wrong-value'
    if len(leaves) != 1:
        return 'not-one-control-output'
    bad = check_wire(d, s, ch, list(leaves)[0], acc)
    return f'{s.rate}/{bad}' if bad else None


def check_wire(d, s, ch, w, acc):
    """None or the kind of mismatch for channel ch of parameter slot s."""
    if w[0] != 'u':
        return 'not-a-control-output'
    u = d.units[w[1]]
    o = w[2]
    lag = s.lags[ch]
    cls, rate = MC.UNIT_OF[s.rate]
    if s.rate == 'kr' and u.cls == 'LagControl':
        # lagged, or unlagged member of a lagged group (lag input 0)
        if u.rate != 1:
            return 'wrong-unit-rate'
        if len(u.inputs) != len(u.out_rates) or len(u.out_rates) > 16:
            return 'lagcontrol-shape'
        lw = u.inputs[o]
        acc.count('lag_inputs_checked')
        if lw[0] != 'c' or d.constants[lw[1]] != MC.f32(lag):
            return 'wrong-lag'
    else:
        if s.rate == 'kr' and lag != 0:
            return 'lag-missing'
        if u.cls != cls:
            return 'wrong-unit-class'
        if u.rate != rate:
            return 'wrong-unit-rate'
        if u.inputs:
            return 'control-has-inputs'
    if u.out_rates[o] != {'ir': 0, 'tr': 1, 'ar': 2, 'kr': 1}[s.rate]:
        return 'wrong-output-rate'
    if u.special + o != s.index + ch:
        return 'wrong-slot'
    return None
