"""Mutation sanity helper (documentation tool, not a registered check).

python -m vf.mutate <mutations.json> [--tier quick]
mutations.json: [{"name":..., "prop": "C08", "file": "sc3/base/clock.py",
                  "old": "...", "new": "...", "count": 1}, ...]
Each mutation is applied to a scratch copy of /repo (outside /repo and /verif),
`./check <prop> <tier>` is run with VERIF_REPO pointing at the copy, and the
exit code + VIOLATION keys are reported.  The copy is removed afterwards.
"""

import json
import os
import shutil
import subprocess
import sys
import tempfile

from .common import VERIF_DIR


def main(argv):
    muts = json.load(open(argv[0]))
    tier = 'quick'
    if '--tier' in argv:
        tier = argv[argv.index('--tier') + 1]
    only = None
    if '--only' in argv:
        only = argv[argv.index('--only') + 1]
    rows = []
    for m in muts:
        if only and only not in m['name']:
            continue
        scratch = tempfile.mkdtemp(prefix='vf-mut-')
        try:
            dst = os.path.join(scratch, 'repo')
            subprocess.run(['rsync', '-a', '--exclude', '.git', '--exclude',
                            '__pycache__', '/repo/', dst + '/'], check=True)
            p = os.path.join(dst, m['file'])
            s = open(p).read()
            n = s.count(m['old'])
            if n < 1 or (m.get('count') and n != m['count']):
                rows.append((m['name'], m['prop'], 'NOT-APPLIED', f'{n} matches'))
                print(rows[-1], flush=True)
                continue
            s = s.replace(m['old'], m['new'])
            open(p, 'w').write(s)
            env = dict(os.environ, VERIF_REPO=dst)
            if m.get('seed') is not None:
                env['VERIF_SEED'] = str(m['seed'])
            r = subprocess.run(['./check', m['prop'], tier], cwd=VERIF_DIR, env=env,
                               capture_output=True, text=True)
            keys = [l.strip() for l in r.stdout.splitlines() if l.strip().startswith('key=')]
            inc = [l for l in r.stdout.splitlines() if l.startswith('INCONCLUSIVE')]
            rows.append((m['name'], m['prop'], r.returncode, '; '.join(keys + inc)[:400]))
            print(rows[-1], flush=True)
        finally:
            shutil.rmtree(scratch, ignore_errors=True)
    print('\n| mutation | property | exit | keys |\n|---|---|---|---|')
    for r in rows:
        print('| ' + ' | '.join(str(x) for x in r) + ' |')


if __name__ == '__main__':
    main(sys.argv[1:])
