"""Reference model of SuperCollider event semantics (does NOT import sc3).

Written from the SuperCollider documentation (Event help file, "Pattern Guide
07: Value Conversions", Scale/Tuning help, Pbind / Pmono / Ppar / Pchain /
Pfindur help, Server Command Reference), not from sc3/seq/event.py.

Pitch (Pattern Guide 07):
    note          = (degree + mtranspose).degreeToKey(scale)      [Scale help:
                    stepsPerOctave * (degree div size)
                    + tuning[degrees[degree mod size]],
                    stepsPerOctave = 12 * log2(octaveRatio), tuning values are
                    semitones above the scale root]
    midinote      = ((note + gtranspose + root) / stepsPerOctave + octave - 5)
                    * (12 * log2(octaveRatio)) + 60
    freq          = midicps(midinote + ctranspose) * harmonic
    detunedFreq   = freq + detune                     (the value that is played)
    an explicitly given key replaces its computed value.
Amplitude: amp = dbamp(db); the port adds amp = velocity / 127 (MIDI scaling,
    stated in the property).  Duration: delta = dur * stretch,
    sustain = dur * legato * stretch.
A value wrapped in Rest makes the event a rest; the number inside still counts
for timing.

Inputs the generators keep out (audit table in vf/props/C14.py): harmonic != 1
together with an explicit freq (SuperCollider applies harmonic inside the
default of freq, the port documents it as a modifier of the freq key: the
statement does not decide), db together with velocity without amp, arrayed
values, negative durations, keys that override the statement's rules
(send_gate, has_gate, msg_params, gate) and keys the port notes as missing
(latency, lag, timing_offset, strum).

Specs are plain json-able data:
  value    := number | {'rest': number}
            | {'fn': 'item' | 'call', 'key': name, 'mul': a, 'add': b}
              (fault histories: a function of the event, e[name] * a + b or
               e(name) * a + b; raises KeyError while `name` is not defined)
            | {'bad': kind ...}   (fault histories: a value play() fails on -
               a raising function, an object the encoder refuses ...; never
               part of an expectation)
  scale    := None | {'degrees': [...], 'tuning': None | [...], 'ratio': float,
                      'kind': str}
  event    := {key: value, 'scale': scale}
  valspec  := value | ['seq', [valspec...], repeats, offset]
                    | ['ser', [valspec...], n, offset]
                    | ['series', start, step, n]
                    | ['key', name, length | None, mul, add]   (Pbind columns
                      only: Pkey(name, length) * mul + add - the value the
                      same Pbind gave key `name` in this row; the column ends
                      after `length` rows or when the row has no such key)
  keyset   := 'name,name[,name]' | 'name,'   (a mapping key of a Pbind / Pmono
              that stands for the TUPLE of these names - Pbind help: "the key
              can be an array of keys, the value stream then returns an array
              of values" - its column yields one row per event)
  row      := {'row': [value...], 'as': 'list' | 'tuple'}   (the value of a
              keyset: value j goes to name j; values beyond the names are
              ignored; FEWER values than names: not decided, never part of an
              expectation - SuperCollider ends the stream there)
  pattern  := ['pbind', {key | keyset: valspec}]
            | ['pmono', instrument, {key: valspec}]
            | ['pmono_artic', instrument, {key: valspec}]
            | ['ppar', [pattern...]] | ['pchain', pbind, pattern]
            | ['pchain', pbind, pattern, how]   (how the Pchain object is
              built: 'ctor' | 'chain' | 'flat' | 'flat-chain', same meaning)
            | ['pevent', {key: value}, pattern, 'dict' | 'event']
            | ['pdur', dur, pattern] | ['pdelta', time, pattern]
            | ['pseq', [pattern...]] | ['pn', n, pattern]
            | ['use', name]      (the same pattern object, defined in the
                                  case's `shared` table; see expand())
"""

import math

DEFAULTS = {
    'degree': 0, 'mtranspose': 0, 'gtranspose': 0.0, 'octave': 5.0, 'root': 0.0,
    'ctranspose': 0.0, 'harmonic': 1.0, 'detune': 0.0,
    'amp': 0.1, 'pan': 0.0, 'out': 0,
    'dur': 1.0, 'stretch': 1.0, 'legato': 0.8,
}
ADD_ACTIONS = {     # Server Command Reference, /s_new
    'addToHead': 0, 'addToTail': 1, 'addBefore': 2, 'addAfter': 3,
    'addReplace': 4, 'h': 0, 't': 1, 'b': 2, 'a': 3, 'r': 4,
    0: 0, 1: 1, 2: 2, 3: 3, 4: 4,
}
ET12 = [float(i) for i in range(12)]


def midicps(m):
    return 440.0 * 2.0 ** ((m - 69.0) / 12.0)


def dbamp(db):
    return 10.0 ** (db / 20.0)


def is_rest_value(v):
    return isinstance(v, dict) and 'rest' in v


def is_fn_value(v):
    return isinstance(v, dict) and 'fn' in v


def is_bad_value(v):
    return isinstance(v, dict) and 'bad' in v


def broken_keys(ev):
    """Keys of an event spec whose value makes play() fail (fault histories):
    bad values, and function values whose source key is not a number of the
    event."""
    out = []
    for k, v in ev.items():
        if is_bad_value(v):
            out.append(k)
        elif is_fn_value(v):
            src = ev.get(v['key'])
            if isinstance(src, bool) or not isinstance(src, (int, float)):
                out.append(k)
    return out


def effective(ev):
    """The event spec with function values replaced by what they return
    (Event help: a function as the value of a key is called with the event).
    Only for specs without broken keys."""
    if not any(isinstance(v, dict) and ('fn' in v or 'bad' in v)
               for k, v in ev.items() if k != 'scale'):
        return ev
    out = {}
    for k, v in ev.items():
        if is_fn_value(v):
            out[k] = ev[v['key']] * v['mul'] + v['add']
        elif is_bad_value(v):
            raise ValueError(f'no expectation for a broken event: {k}')
        else:
            out[k] = v
    return out


INF = float('inf')


def num(v):
    """Number inside a value; 'inf' stands for float('inf') (json-able)."""
    v = v['rest'] if is_rest_value(v) else v
    return INF if isinstance(v, str) and v == 'inf' else v


def event_is_rest(ev):
    """Rest forms: a Rest object as the value of any key, or the event type
    'rest' (Rest help file; both are the forms the port's is_rest names)."""
    return ev.get('type') == 'rest' or any(
        is_rest_value(v) for k, v in ev.items() if k != 'scale')


# where a Rest object sits (evidence / mechanism keys): the keys every reader
# thinks of first (the duration and the pitch source keys) and all the others
REST_KEY_CLASSES = {
    'dur': 'dur-or-pitch-source', 'delta': 'dur-or-pitch-source',
    'degree': 'dur-or-pitch-source', 'note': 'dur-or-pitch-source',
    'midinote': 'dur-or-pitch-source', 'freq': 'dur-or-pitch-source',
    'stretch': 'timing-modifier', 'legato': 'timing-modifier',
    'sustain': 'timing-modifier',
    'mtranspose': 'pitch-modifier', 'gtranspose': 'pitch-modifier',
    'root': 'pitch-modifier', 'octave': 'pitch-modifier',
    'ctranspose': 'pitch-modifier', 'harmonic': 'pitch-modifier',
    'detune': 'pitch-modifier',
    'amp': 'amplitude', 'db': 'amplitude', 'velocity': 'amplitude',
}


def rest_key_classes(ev):
    """Classes of the keys of `ev` that hold a Rest value ('control': any key
    that takes no part in a chain, e.g. pan or an instrument control)."""
    return sorted({REST_KEY_CLASSES.get(k, 'control') for k, v in ev.items()
                   if k != 'scale' and is_rest_value(v)})


# ---------------------------------------------------------------- histories

def apply_mutation(ev, op):
    """State of the explicit keys of an event after one edit, whatever dict
    method performs it (an event IS a dict: Python's mapping semantics are the
    specification).  op: {'m': mutator name, 'del': [keys], 'set': {key:
    value}, 'n': number of popitem calls}; order: clear, popitem, deletions,
    assignments.  `setdefault` keeps the value of a key that is present."""
    m = op['m']
    out = {} if m in ('clear', 'clear-update') else dict(ev)
    if m == 'popitem':
        for _ in range(op.get('n', 1)):
            if out:
                out.pop(list(out)[-1])      # LIFO (Python >= 3.7)
    for k in op.get('del') or []:
        out.pop(k, None)
    for k, v in (op.get('set') or {}).items():
        if m == 'setdefault' and k in out:
            continue
        out[k] = v
    return out


# ---------------------------------------------------------------- scales

def scale_parts(scale):
    if scale is None:
        return [0, 2, 4, 5, 7, 9, 11], ET12, 2.0
    tuning = scale.get('tuning')
    return (list(scale['degrees']), ET12 if tuning is None else list(tuning),
            float(scale.get('ratio', 2.0)))


def degree_to_semitones(scale, degree):
    """Semitones above the root of scale degree `degree`.  Pattern Guide 07 /
    SimpleNumber:degreeToKey: the degree is rounded to the nearest integer
    (halves up) and ten times the remainder is the accidental - 2.1 is degree
    2 raised by one step of stepsPerOctave / 12 (a semitone for octave ratio
    2), 1.9 is degree 2 lowered by one."""
    degrees, tuning, ratio = scale_parts(scale)
    size = len(degrees)
    d = int(math.floor(degree + 0.5))
    acc = (degree - d) * 10.0
    octv, idx = d // size, d % size         # floor division / modulo
    spo = 12.0 * math.log2(ratio)
    return spo * octv + tuning[degrees[idx]] + acc * (spo / 12.0)


def steps_per_octave(scale):
    return 12.0 * math.log2(scale_parts(scale)[2])


# ---------------------------------------------------------------- key chains

class Resolved:
    __slots__ = ('note', 'midinote', 'freq', 'detuned', 'amp', 'delta',
                 'sustain', 'rest', 'pitch_source', 'amp_source')

    def as_dict(self):
        return {k: getattr(self, k) for k in self.__slots__}


def resolve(ev):
    """ev: event spec (explicit keys only) -> Resolved (floats)."""
    g = lambda k: num(ev[k]) if k in ev else DEFAULTS[k]
    r = Resolved()
    scale = ev.get('scale')
    ratio = scale_parts(scale)[2]
    spo = steps_per_octave(scale)
    # note
    if 'note' in ev:
        r.note = num(ev['note'])
    else:
        r.note = degree_to_semitones(scale, g('degree') + g('mtranspose'))
    # midinote
    if 'midinote' in ev:
        r.midinote = num(ev['midinote'])
    else:
        r.midinote = (((r.note + g('gtranspose') + g('root')) / spo
                       + g('octave') - 5.0) * (12.0 * math.log2(ratio)) + 60.0)
    # freq (un-detuned, harmonic applied), detuned freq
    if 'freq' in ev:
        r.freq = num(ev['freq'])
        r.pitch_source = 'freq'
    else:
        r.freq = midicps(r.midinote + g('ctranspose')) * g('harmonic')
        r.pitch_source = ('midinote' if 'midinote' in ev else 'note'
                          if 'note' in ev else 'degree' if 'degree' in ev
                          else 'default')
    r.detuned = r.freq + g('detune')
    # amp
    if 'amp' in ev:
        r.amp, r.amp_source = num(ev['amp']), 'amp'
    elif 'db' in ev:
        r.amp, r.amp_source = dbamp(num(ev['db'])), 'db'
    elif 'velocity' in ev:
        r.amp, r.amp_source = num(ev['velocity']) / 127.0, 'velocity'
    else:
        r.amp, r.amp_source = DEFAULTS['amp'], 'default'
    # duration
    r.delta = num(ev['delta']) if 'delta' in ev else g('dur') * g('stretch')
    # (delta None / inf: the stream is not resumed after this event)
    r.sustain = (num(ev['sustain']) if 'sustain' in ev
                 else g('dur') * g('legato') * g('stretch'))
    r.rest = event_is_rest(ev)
    return r


def control_value(ev, res, name):
    """The event's value for control `name`: ('explicit'|'chain'|None, value).
    'explicit': the event defines it (must be sent); 'chain': the event does
    not define the key but the documented defaults/chains give it a value (may
    be sent); None: the event has no value for it (must not be sent)."""
    if name == 'freq':
        # what a synth gets as freq is the detuned frequency; the pitch chain
        # gives every note event one
        return 'chain' if 'freq' not in ev and res.pitch_source == 'default' \
            and 'detune' not in ev and 'harmonic' not in ev else 'explicit', \
            res.detuned
    if name in ev and name != 'scale':
        return 'explicit', num(ev[name])
    if name == 'amp':
        return 'chain', res.amp
    if name == 'sustain':
        return 'chain', res.sustain
    if name == 'delta':
        return 'chain', res.delta
    if name == 'midinote':
        return 'chain', res.midinote
    if name == 'note':
        return 'chain', res.note
    if name in DEFAULTS:
        return 'chain', DEFAULTS[name]
    return None, None


# ---------------------------------------------------------------- value patterns

def values(vs):
    """valspec -> list of values, or None for an endless constant."""
    if not isinstance(vs, (list, tuple)):
        return None             # number, string, Rest value: endless constant
    kind = vs[0]
    if kind == 'seq':
        _, items, repeats, offset = vs
        order = items[offset:] + items[:offset]
        out = []
        for _ in range(repeats):
            for it in order:
                out.extend(_embed(it))
        return out
    if kind == 'ser':
        _, items, n, offset = vs
        out = []
        for i in range(n):
            out.extend(_embed(items[(i + offset) % len(items)]))
        return out
    if kind == 'series':
        _, start, step, n = vs
        out, cur = [], start
        for _ in range(n):
            out.append(cur)
            cur = cur + step
        return out
    raise ValueError(vs)


def _embed(item):
    v = values(item)
    return [item] if v is None else v


# ---------------------------------------------------------------- timelines

class Ev:
    """One event of a stream: explicit keys, kind and (for mono) node slot."""
    __slots__ = ('keys', 'kind', 'mono', 'delta', 'based', 'sched')

    def __init__(self, keys, kind='note', mono=None, delta=None, based=False,
                 sched=None):
        self.keys, self.kind, self.mono = keys, kind, mono
        self.based = based      # its input event came from a Pevent
        self.delta = resolve(keys).delta if delta is None else delta
        # articulated mono lines: the note that ends a slur sends the release
        # of its node `sched` seconds after it is played (whatever happens to
        # the stream afterwards: a Pdur cut, a stop)
        self.sched = sched

    @property
    def rest(self):
        return self.kind == 'silent' or event_is_rest(self.keys)


class Timeline:
    """items: [(onset, Ev)] ; total duration; releases: [(time, mono id, exact)]
    (exact False: the release has to happen at or after `time`); sequential:
    items are in stream order and contain every stream element."""

    def __init__(self, items, total, releases=(), sequential=True, flags=()):
        self.items, self.total = list(items), total
        self.releases, self.sequential = list(releases), sequential
        self.flags = set(flags)


def delta_is_rest(keys):
    if 'delta' in keys:
        return is_rest_value(keys['delta'])
    return is_rest_value(keys.get('dur')) or is_rest_value(keys.get('stretch'))


def delta_is_int(keys):
    """The delta the documented chain computes is an integer-typed number
    (explicit int delta, or int dur times int stretch)."""
    isint = lambda v: isinstance(num(v), int) and not isinstance(num(v), bool)
    if 'delta' in keys:
        return isint(keys['delta'])
    return 'dur' in keys and 'stretch' in keys and isint(keys['dur']) \
        and isint(keys['stretch'])


def _is_key_column(v):
    return isinstance(v, (list, tuple)) and len(v) > 0 and v[0] == 'key'


def is_keyset(k):
    """A mapping key that stands for a tuple of keys ('degree,dur', 'amp,')."""
    return isinstance(k, str) and ',' in k


def keyset_names(k):
    return [n for n in k.split(',') if n]


def keyset_key(names):
    return ','.join(names) + (',' if len(names) == 1 else '')


def is_row_value(v):
    return isinstance(v, dict) and 'row' in v


def mapping_names(mapping):
    """The event keys a Pbind mapping assigns (key sets written out)."""
    out = []
    for k in mapping:
        out += keyset_names(k) if is_keyset(k) else [k]
    return out


def _bind_events(mapping, limit=None):
    """Rows of a Pbind.  Columns are asked in the order of the mapping (Pbind
    help: 'the keys are processed in order, so that a later key can use the
    value of an earlier one' - Pkey); the first column that ends ends the
    pattern.  A key set spreads the row its column yields over its names, the
    values beyond the names are dropped.  limit: at most so many rows (needed
    for a mapping of constants, which is endless)."""
    cols = {k: (None if _is_key_column(v) else values(v))
            for k, v in mapping.items()}
    finite = [len(v) for v in cols.values() if v is not None]
    keycols = {k: v for k, v in mapping.items() if _is_key_column(v)}
    finite += [v[2] for v in keycols.values() if v[2] is not None]
    if limit is not None:
        finite.append(limit)
    if not finite:
        raise ValueError('endless Pbind')
    n = min(finite)
    out = []
    for i in range(n):
        row = {}
        for k, v in cols.items():
            if k in keycols:
                _, name, _length, mul, add = keycols[k]
                if name not in row:
                    return out      # Pkey of a key the row does not have: ends
                src = row[name]
                if mul == 1 and add == 0:
                    row[k] = src    # the value itself (a Rest stays a Rest)
                elif is_rest_value(src):
                    row[k] = {'rest': src['rest'] * mul + add}
                else:
                    row[k] = src * mul + add
                continue
            val = mapping[k] if v is None else v[i]
            if is_keyset(k):
                names = keyset_names(k)
                if not is_row_value(val) or len(val['row']) < len(names):
                    raise ValueError('key set with fewer values than keys: '
                                     'not decided')
                for name, x in zip(names, val['row']):
                    row[name] = x
            else:
                row[k] = val
        out.append(row)
    return out


_mono_counter = [0]


def _mono_line(events, instrument):
    """[(onset, Ev)] of a Pmono line, end time, voice id (None: no synth was
    created) and flags.  PmonoStream: the synth is created by the first event
    that is played; rests before it send nothing and create nothing."""
    _mono_counter[0] += 1
    mid = _mono_counter[0]
    t, items, created, flags = 0.0, [], False, set()
    for keys in events:
        e = Ev(keys, 'mono_set' if created else 'mono_on', (mid, instrument))
        if not created and e.rest:
            flags.add('pmono-leading-rest')
        elif not created:
            created = True
        items.append((t, e))
        t += e.delta
    return items, t, (mid if created else None), flags


def timeline(p):
    kind = p[0]
    if kind == 'pbind':
        t, items = 0.0, []
        for keys in _bind_events(p[1]):
            e = Ev(keys)
            items.append((t, e))
            if e.delta is None or e.delta == INF:
                # Event help: a nil delta ends the player; an infinite one is
                # never due.  Either way this is the last element and the last
                # wake-up of the player
                return Timeline(items, t, flags={'ends-without-resuming'})
            t += e.delta
        return Timeline(items, t)
    if kind == 'pmono':
        items, t, voice, flags = _mono_line(
            [dict(k) for k in _bind_events(p[2])], p[1])
        return Timeline(items, t, [(t, voice, True)] if voice else [],
                        flags=flags)
    if kind == 'pmono_artic':
        # PmonoArtic help (the port: "support for PmonoArtic integrated through
        # the articulate argument"): notes are slurred on one synth while
        # sustain >= delta; a note with sustain < delta ends the slur - the
        # synth is released `sustain` after that note's onset and the next
        # note starts a new synth.  A note with sustain < delta outside a slur
        # is an ordinary note.  (No rests: the help file does not define them.)
        t, items, rel, voice = 0.0, [], [], None
        for keys in _bind_events(p[2]):
            keys = dict(keys)
            r = resolve(keys)
            slur = r.sustain >= r.delta
            if voice is None and not slur:
                keys['instrument'] = p[1]
                e = Ev(keys, 'note')
            elif voice is None:
                _mono_counter[0] += 1
                voice = _mono_counter[0]
                e = Ev(keys, 'mono_on', (voice, p[1]))
            else:
                e = Ev(keys, 'mono_set', (voice, p[1]))
                if not slur:
                    rel.append((t + r.sustain, voice, True))
                    e.sched = r.sustain
                    voice = None
            items.append((t, e))
            t += e.delta
        if voice is not None:
            rel.append((t, voice, True))
        return Timeline(items, t, rel)
    if kind == 'pdelta':
        tl = timeline(p[2])
        d = p[1]
        if not d > 0:
            return tl
        items = [(0.0, Ev({'dur': {'rest': d}}, 'silent', delta=d))]
        items += [(t + d, e) for t, e in tl.items]
        return Timeline(items, tl.total + d,
                        [(t + d, m, x) for t, m, x in tl.releases],
                        tl.sequential, tl.flags)
    if kind == 'pdur':
        tl = timeline(p[2])
        d = p[1]
        if tl.total < d:
            return tl
        items = [(t, e) for k, (t, e) in enumerate(tl.items) if t < d or k == 0]
        flags = set(tl.flags)
        if tl.sequential and items:
            # the last element gets the remaining time as its (explicit) delta
            t, e = items[-1]
            remaining = d - t
            if delta_is_int(e.keys) and remaining != int(remaining):
                flags.add('clipped-delta-was-int')
            keys = dict(e.keys)
            if delta_is_int(e.keys) and remaining == int(remaining):
                remaining = int(remaining)      # same number, type kept for
                #                                 the 'clipped-delta-was-int' flag
            keys['delta'] = ({'rest': remaining}
                             if delta_is_rest(e.keys) else remaining)
            items[-1] = (t, Ev(keys, e.kind, e.mono, delta=remaining,
                                based=e.based, sched=e.sched))
        alive = {e.mono[0] for t, e in items if e.mono}
        rel = []
        for t, m, x in tl.releases:
            if m in alive:
                rel.append((t, m, x) if t <= d and x and _ended_before(tl, m, d)
                           else (d, m, False))
        return Timeline(items, d, rel, tl.sequential, flags)
    if kind == 'ppar':
        items, rel, total, flags = [], [], 0.0, set()
        for c in p[1]:
            tl = timeline(c)
            items += tl.items
            rel += tl.releases
            flags |= tl.flags
            total = max(total, tl.total)
        items.sort(key=lambda x: x[0])
        return Timeline(items, total, rel, False, flags)
    if kind == 'pchain' and p[1][0] == 'pmono':
        # Pchain(Pmono, right): the mono line takes the events of the right
        # operand as input, its own keys override them; it stays a mono line
        a, b = p[1], p[2]
        tb = timeline(b)
        if not tb.sequential:
            raise ValueError('Pchain(Pmono, parallel stream) is not modelled')
        mine = _bind_events(a[2])
        n = min(len(mine), len(tb.items))
        merged = []
        for i in range(n):
            keys = dict(tb.items[i][1].keys)
            keys.pop('instrument', None)
            keys.update(mine[i])
            merged.append(keys)
        items, t, voice, flags = _mono_line(merged, a[1])
        # the mono stream ends by itself (release at once) only when it is the
        # shorter operand; otherwise the player's clean-up releases the node
        rel = [(t, voice, len(mine) < len(tb.items))] if voice else []
        return Timeline(items, t, rel, True, flags | tb.flags)
    if kind == 'pchain':
        a, b = p[1], p[2]
        tb = timeline(b)
        constant = all(values(v) is None for v in a[1].values())
        if not constant and not tb.sequential:
            raise ValueError('Pchain over a parallel stream needs a constant '
                             'left operand (stream order is not modelled)')
        # rows of the left operand (key sets written out); None: constants
        rows = None if constant else _bind_events(a[1])
        const = _bind_events(a[1], limit=1)[0] if constant else None
        n = len(tb.items) if rows is None else min(len(rows), len(tb.items))
        items, t = [], None
        if tb.sequential:
            t = 0.0
            for i in range(n):
                _, e = tb.items[i]
                keys = dict(e.keys)
                keys.update(const if rows is None else rows[i])
                if e.kind == 'silent':
                    ne = Ev(keys, 'silent', delta=e.delta, based=e.based)
                else:
                    ne = Ev(keys, e.kind, e.mono, based=e.based,
                            sched=e.sched)
                items.append((t, ne))
                t += ne.delta
            rel = tb.releases
            if b[0] == 'pmono':
                # the chained line is still a mono line (event types are kept);
                # its end-of-stream release happens where the chain ends: at
                # once when the Pmono is exhausted first, else by the player
                exact = rows is None or len(tb.items) <= len(rows)
                rel = [(t, m, exact) for _, m, _x in tb.releases]
            return Timeline(items, t, rel, True, tb.flags)
        for t0, e in tb.items:
            keys = dict(e.keys)
            keys.update(const)
            items.append((t0, Ev(keys, e.kind, e.mono, delta=e.delta,
                                 based=e.based, sched=e.sched)))
        return Timeline(items, tb.total, tb.releases, False, tb.flags)
    if kind == 'pevent':
        # Pevent(pattern, event): the pattern is asked with `event` as its
        # input event (instead of the player's prototype): every event of the
        # pattern has the keys of `event` below its own - unless a Pevent
        # further down gave it another input event
        tl = timeline(p[2])
        items = []
        for t0, e in tl.items:
            if e.based:
                items.append((t0, e))
                continue
            keys = dict(p[1])
            keys.update(e.keys)
            items.append((t0, Ev(keys, e.kind, e.mono, delta=e.delta,
                                 based=True, sched=e.sched)))
        return Timeline(items, tl.total, tl.releases, tl.sequential, tl.flags)
    if kind in ('pseq', 'pn'):
        # embedding in place: the parts one after the other, each one a fresh
        # embedding of its pattern (Pseq / Pn help)
        parts = p[1] if kind == 'pseq' else [p[2]] * p[1]
        items, rel, flags, t, seq = [], [], set(), 0.0, True
        for c in parts:
            tl = timeline(c)
            items += [(t + o, e) for o, e in tl.items]
            rel += [(t + r, m, x) for r, m, x in tl.releases]
            flags |= tl.flags
            seq = seq and tl.sequential
            t += tl.total
        return Timeline(items, t, rel, seq, flags)
    raise ValueError(p)


def expand(p, shared):
    """Replace ['use', name] (the same pattern OBJECT used at several places)
    by its definition: every embedding of an object denotes what a fresh equal
    pattern denotes."""
    kind = p[0]
    if kind == 'use':
        return expand(shared[p[1]], shared)
    if kind in ('pbind', 'pmono', 'pmono_artic'):
        return p
    if kind in ('ppar', 'pseq'):
        return [kind, [expand(c, shared) for c in p[1]]]
    if kind in ('pchain', 'pevent'):
        return [kind, p[1], expand(p[2], shared)] + list(p[3:])
    if kind in ('pdur', 'pdelta', 'pn'):
        return [kind, p[1], expand(p[2], shared)]
    raise ValueError(p)


def stopped(tl, stop):
    """The part of a timeline a player produces when it is stopped `stop`
    after its start (stop is never an onset): elements before the stop; voices
    of Pmono that are sounding are released at the stop."""
    items = [(t, e) for t, e in tl.items if t < stop]
    later = [t for t, e in tl.items if t >= stop]
    alive = {e.mono[0] for t, e in items if e.mono and not e.rest}
    rel = []
    for t, m, x in tl.releases:
        if m not in alive:
            continue
        if t > stop:
            rel.append((stop, m, True))
        else:
            rel.append((t, m, x))
    out = Timeline(items, min(tl.total, stop), rel, tl.sequential, tl.flags)
    # the wake-up that was pending when the player was stopped still happens
    # (and does nothing): not later than its next element / its end
    out.pending_wake = min(later + [tl.total]) if tl.total > stop else None
    return out


def _ended_before(tl, mono_id, d):
    """True when the mono voice produced its last element strictly before the
    cut (so its own end-of-stream release was reached inside the window)."""
    for t, m, x in tl.releases:
        if m == mono_id:
            return t < d
    return False


# ---------------------------------------------------------------- player control

class Controlled:
    """What a player produces under a history of control calls: plays
    [(absolute time, Ev, muted)], the time the stream ended (None: it did
    not), the last wake-up / action time."""

    def __init__(self):
        self.plays, self.ended, self.last = [], None, 0.0
        self.runs = 1           # times the stream was (re)started
        self.effect = {}        # action name -> times it changed something
        # sequential timelines only (mono voices need them):
        self.marks = []         # (run, index of the element) of each play
        self.wakes = {}         # (run, index) -> time the player asked its
        #                         stream for this element (index n: the end)
        self.cuts = {}          # run -> (time, call) that ended the run
        self.deaths = {}        # run -> time its failing element was played
        self.repair_before = None   # index of the call before which the
        #                             failing element is repaired


def controlled(tl, at, actions, probe=None, dies=None):
    """Player started at `at` over timeline `tl`, then `actions`
    [{'at': absolute time, 'do': name}] in time order:

      mute / unmute   events are not played / played again; time is kept
      pause           the player does not wake up any more (its pending
                      wake-up is void)
      resume / play   of a paused player: it continues NOW with its next
                      element, later elements follow by their deltas; of a
                      player that is not paused: nothing
      reset           of a playing player: its stream starts again at the
                      player's next wake-up
      reset-play      reset() immediately followed by play() (also:
                      play(reset=True)): the stream starts again NOW -
                      whatever the player was doing (playing, paused, stopped,
                      ended, dead)
      stop            the player ends (only followed by reset-play)

    dies: {'idx': k, 'repair': bool} - element k of the stream FAILS when it
    is played (round 9): the player is dead from then on (state 'dead': no
    further wake-up is decided; only stop / reset-play / play-reset follow);
    with `repair` the pattern is repaired just before the first restart that
    follows the first death (Controlled.repair_before), later runs play it.

    Pause / resume / reset need the wake-up times of the stream: sequential
    timelines only (every stream element is an item).  Mute / unmute alone
    work on any timeline.  None when an action coincides with a wake-up (the
    order of the two is not decided; the generators avoid it).
    probe: only the state ('playing' | 'paused' | 'stopped' | 'ended' |
    'dead') of the player at time `probe` (after all actions) is wanted."""
    out = Controlled()
    only_mute = all(a['do'] in ('mute', 'unmute') for a in actions)
    if not tl.sequential and not only_mute:
        raise ValueError('control histories other than mute need a '
                         'sequential timeline')
    if not tl.sequential:
        muted_at = []
        for t0, e in tl.items:
            t = at + t0
            m = False
            for a in actions:
                if a['at'] == t:
                    return None
                if a['at'] < t:
                    m = a['do'] == 'mute'
            out.plays.append((t, e, m))
        for a in actions:
            out.effect[a['do']] = out.effect.get(a['do'], 0) + 1
        out.ended = at + tl.total
        out.last = max([out.ended] + [a['at'] for a in actions])
        out.state = 'ended' if probe is None or probe > out.ended \
            else 'playing'
        return out
    els = [e for _, e in tl.items]
    onsets = [t for t, _ in tl.items] + [tl.total]
    deltas = [b - a for a, b in zip(onsets, onsets[1:])]
    n = len(els)
    state, idx, wake, muted = 'playing', 0, at, False
    last = at
    run, repaired = 0, False
    for j, a in enumerate(list(actions) + [
            {'at': INF if probe is None else probe, 'do': 'end'}]):
        while state == 'playing' and wake < a['at']:
            last = max(last, wake)
            out.wakes[(run, idx)] = wake
            if idx == n:
                state, out.ended = 'ended', wake
                break
            if dies and idx == dies['idx'] and not repaired \
                    and not els[idx].rest and not muted:
                # the element fails while it is played: the player is dead
                state = 'dead'
                out.deaths[run] = wake
                break
            out.plays.append((wake, els[idx], muted))
            out.marks.append((run, idx))
            wake += deltas[idx]
            idx += 1
        if a['do'] == 'end':
            break
        if state == 'playing' and wake == a['at']:
            return None
        last = max(last, a['at'])
        do = a['do']
        hit = False
        if do == 'mute':
            hit, muted = not muted, True
        elif do == 'unmute':
            hit, muted = muted, False
        elif do == 'pause':
            if state == 'playing':
                state, hit = 'paused', True
        elif do in ('resume', 'play'):
            if state == 'paused':
                state, wake, hit = 'playing', a['at'], True
            elif state == 'dead':
                raise ValueError(f'{do}: not decided for a dead player')
        elif do == 'reset':
            if state != 'playing':
                raise ValueError('reset alone: playing players only')
            idx, hit = 0, True
            out.cuts[run] = (a['at'], do)
            run += 1
            out.runs += 1
            out.ended = None
        elif do in ('reset-play', 'play-reset'):
            if dies and dies.get('repair') and out.deaths and not repaired:
                repaired, out.repair_before = True, j
            state, idx, wake, hit = 'playing', 0, a['at'], True
            out.cuts.setdefault(run, (a['at'], do))
            run += 1
            out.runs += 1
            out.ended = None
        elif do == 'stop':
            if state in ('playing', 'paused', 'dead'):
                state, hit = 'stopped', True
                out.cuts[run] = (a['at'], do)
        else:
            raise ValueError(do)
        if hit:
            out.effect[do] = out.effect.get(do, 0) + 1
    out.last = last
    out.state = state
    return out


def controlled_voices(tl, c):
    """Releases of the mono voices (Pmono / PmonoArtic nodes) a player
    creates under the control history `c` = controlled(tl, ...), tl
    sequential: [(run, voice, time, exact, by)] - EVERY node that is created
    is released exactly once:

      by its own pattern       at the wake-up at which its Pmono ends (the
                               element after its last one is asked for), or
                               - articulated - `sustain` after the note that
                               ends the slur was played (Ev.sched: sent with
                               that note, so neither a Pdur cut nor a stop
                               or reset that comes later changes it); exact
      stop                     at the stop (the player's clean-up); exact
      reset / reset-play /     not before that call (this library releases the
      play-reset               node at the call; the statement is silent)
      after a failing element  not before the failure (released by whatever
                               call comes next: stop, reset-play ...; when
                               no call follows, the node may stay)
      cut by a Pdur            not before the wake-up at which the Pdur ends

    A voice exists in a run when the element that creates it (the first of
    its line that is no rest) was played in that run."""
    els = [e for _, e in tl.items]
    onsets = [t for t, _ in tl.items] + [tl.total]
    played = {m: t for m, (t, _e, muted) in zip(c.marks, c.plays)
              if not muted}
    lines = {}
    for i, e in enumerate(els):
        if e.mono:
            lines.setdefault(e.mono[0], []).append(i)
    out = []
    for run in range(c.runs):
        for mid, idxs in lines.items():
            first = next((i for i in idxs if not els[i].rest), None)
            if first is None or (run, first) not in played:
                continue
            rel = next(((t, x) for t, m, x in tl.releases if m == mid), None)
            if rel is None:
                raise ValueError('voice without a release')
            t_rel, exact = rel
            lst = idxs[-1]
            if els[lst].sched is not None:
                # sent when the note that ends the slur is played (no Pdur
                # cut, stop or reset that comes later takes it back)
                if (run, lst) in played:
                    out.append((run, mid, played[(run, lst)]
                                + els[lst].sched, True, 'scheduled'))
                    continue
            elif (run, lst + 1) in c.wakes:
                out.append((run, mid, c.wakes[(run, lst + 1)], exact,
                            'end-of-pattern' if exact else 'pdur-cut'))
                continue
            if run in c.deaths:
                # (no call after the failure: nobody releases the node -
                # `by` 'nothing-...': at most one release)
                out.append((run, mid, c.deaths[run], False,
                            'call-after-failed-event' if run in c.cuts
                            else 'nothing-after-failed-event'))
            elif run in c.cuts:
                t, do = c.cuts[run]
                out.append((run, mid, t, do == 'stop', do))
            else:
                raise ValueError('a run that neither ends nor is cut')
    return out
