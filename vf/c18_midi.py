"""C18 MIDI responder workload (MidiFunc / MidiMessageDispatcher share the
wrapping dispatcher, enable/disable/free/one_shot machinery with OscFunc).

Incoming MIDI data (the dict mido produces: {'type': ..., fields}) is handed to
the library's registered MIDI receive function - the default MidiFunc
dispatcher - exactly as MidiRtInterface._msg_dispatch's scheduled function does,
and every callback invocation is compared with a small dispatch model.
C18 is stated for incoming OSC messages; MidiFunc only shares the base classes.
This shard therefore never produces a violation: disagreements are counted as
`observed_midi/<what>` (first witness of each kind in the evidence `extra`),
see proposed_fixes/C18-midi-dispatch.md for the two observed on the unchanged
library.  The model:
a responder must run iff it is enabled, listens to the message type, its port
(if any) is the receiving port and its argument template (dict key -> value /
predicate / None) accepts the data; each once, in registration order per type.
"""

from .common import iter_cases, case_rng, h64, short_tb
from .model_dispatch import PREDICATES

FIELDS = {
    'note_on': {'channel': [0, 1, 9], 'note': [60, 61, 64], 'velocity': [0, 64, 127]},
    'note_off': {'channel': [0, 1, 9], 'note': [60, 61, 64], 'velocity': [0, 64]},
    'control_change': {'channel': [0, 1], 'control': [1, 7, 64], 'value': [0, 3, 127]},
    'program_change': {'channel': [0, 1], 'program': [0, 5]},
    'pitchwheel': {'channel': [0, 1], 'pitch': [-8192, 0, 100]},
}
TYPES = sorted(FIELDS)
ALL_KEYS = sorted({k for f in FIELDS.values() for k in f})


class Port:
    """Stands for a MidiIn: the library compares ports by `_name`."""

    def __init__(self, name):
        self._name = name

    def __repr__(self):
        return f'Port({self._name})'


class Fault(Exception):
    pass


class Stop(Exception):
    pass


class R:
    def __init__(self, rid, types, port, template, seq):
        self.rid, self.types, self.port, self.template = rid, types, port, template
        self.enabled, self.freed, self.one_shot, self.spent = True, False, False, False
        self.created = self.enabled_at = seq
        self.fver = 0
        self.replaced = False

    def describe(self):
        return {'rid': self.rid, 'types': self.types, 'port': self.port,
                'template': self.template, 'enabled': self.enabled, 'freed': self.freed,
                'one_shot': self.one_shot, 'spent': self.spent}


def template_verdict(template, data):
    if template is None:
        return 'accept'
    v = 'accept'
    for key, item in template.items():
        if key not in data:
            if item is not None and item[0] == 'val':
                return 'reject'       # nothing it could equal
            v = 'either'              # None / predicate on an absent field: left open
            continue
        if item is None:
            continue
        if item[0] == 'val' and data[key] != item[1]:
            return 'reject'
        if item[0] == 'fn' and not PREDICATES[item[1]](data[key]):
            return 'reject'
    return v


def real_template(t):
    if t is None:
        return None
    return {k: (None if it is None else it[1] if it[0] == 'val' else PREDICATES[it[1]])
            for k, it in t.items()}


seen_obs = set()


def run_history(acc, rng, case, MidiFunc, main):
    from .c18_rig import tb_sites, exc_name
    disp = MidiFunc._default_dispatcher
    ports = [Port('p0'), Port('p1')]
    model, objs, log, inv = {}, {}, [], []
    armed, faults, ncall = {}, {}, {}
    seq = [0]
    feat = {'msgs': 0, 'must': 0, 'neg': 0, 'ops': 0}

    def tick():
        seq[0] += 1
        return seq[0]

    def violation(key, **w):
        w.update({'case': case, 'history': log[-40:],
                  'responders': [r.describe() for r in model.values()]})
        # MidiFunc is not an OSC responder: outside the statement of C18.
        # Disagreements are reported as observations, never as a verdict.
        acc.count('observed_midi/' + key)
        if key not in seen_obs:
            seen_obs.add(key)
            acc.extra.setdefault('observed_midi_first_witness', {})[key] = w
        raise Stop()

    def make_cb(rid, ver):
        def cb(data, midi_in):
            inv.append(('inv', rid, ver, dict(data), midi_in))
            op = armed.pop(rid, None)
            if op is not None:
                t = objs.get(op[1])
                if t is not None and t.enabled:
                    getattr(t, op[0])()
                    inv.append(('op', rid, op))
            n = ncall[rid] = ncall.get(rid, 0) + 1
            if n in faults.get(rid, ()):
                inv.append(('raised', rid))
                raise Fault(f'injected fault in MIDI responder {rid}')
        return cb

    def create():
        rid = len(model)
        k = rng.random()
        types = [rng.choice(TYPES)] if k < 0.6 else rng.sample(TYPES, rng.randint(2, 3))
        port = rng.choice([0, 1]) if rng.random() < 0.25 else None
        template = None
        if rng.random() < 0.45:
            template = {}
            for key in rng.sample(ALL_KEYS, rng.randint(1, 2)):
                vals = sorted({v for f in FIELDS.values() for v in f.get(key, [])})
                template[key] = rng.choice([None, ('val', rng.choice(vals)),
                                            ('val', rng.choice(vals)),
                                            ('fn', rng.choice(['gt2', 'even', 'always']))])
        if rng.random() < 0.15:
            faults[rid] = rng.choice([{1}, {2}, {1, 2}])
        log.append(['create', rid, types, port, repr(template), sorted(faults.get(rid, []))])
        model[rid] = R(rid, types, port, template, tick())
        midi_msg = types[0] if len(types) == 1 and rng.random() < 0.7 else list(types)
        objs[rid] = MidiFunc(make_cb(rid, 0), midi_msg,
                             None if port is None else ports[port],
                             arg_template=real_template(template))

    def op(name, rid):
        r, o = model[rid], objs[rid]
        log.append([name, rid])
        feat['ops'] += 1
        if name == 'disable':
            o.disable(); r.enabled = False
        elif name == 'enable':
            if not r.enabled:
                o.enable(); r.enabled = True; r.enabled_at = tick()
        elif name == 'free':
            o.free(); r.enabled = False; r.freed = True
        elif name == 'one_shot':
            o.one_shot(); r.one_shot = True
        elif name == 'set_func':
            r.fver += 1
            r.replaced = r.replaced or r.one_shot
            o.func = make_cb(rid, r.fver)

    def send():
        t = rng.choice(TYPES)
        live = [r for r in model.values() if r.enabled]
        if live and rng.random() < 0.8:
            t = rng.choice(rng.choice(live).types)
        data = {'type': t}
        for key, vals in FIELDS[t].items():
            data[key] = rng.choice(vals)
        pidx = rng.choice([0, 1])
        log.append(['msg', dict(data), pidx])
        exp = {}
        for r in model.values():
            if not r.enabled or t not in r.types or (r.port is not None and r.port != pidx):
                exp[r.rid] = 'not'
            else:
                exp[r.rid] = {'accept': 'must', 'reject': 'not',
                              'either': 'either'}[template_verdict(r.template, data)]
        inv.clear()
        err = None
        try:
            with main._main_lock:
                disp(dict(data), ports[pidx])
        except Fault:
            pass
        except Exception as e:
            s = tb_sites(e)
            err = (exc_name(e), s[-1][1] if s else 'harness', short_tb(e))
        if err:
            violation(f'dispatch-raises/{err[0]}/{err[1]}', tb=err[2])
        feat['msgs'] += 1
        acc.count('midi_messages')
        invs = [e for e in inv if e[0] == 'inv']
        ops = [e for e in inv if e[0] == 'op']
        raisers = [e[1] for e in inv if e[0] == 'raised']
        acc.count('midi_invocations_checked', len(invs))
        acc.count('midi_injected_faults', len(raisers))
        touched = {e[2][1] for e in ops}
        removed = set(touched)
        counts = {}
        for e in invs:
            counts[e[1]] = counts.get(e[1], 0) + 1
            if model[e[1]].one_shot:
                removed.add(e[1])
            if e[3] != data or e[4] is not ports[pidx]:
                violation('wrong-args', got=repr(e[3:]))

        def before(a, b):
            ra, rb = model[a], model[b]
            return ra.created < rb.created and ra.enabled_at < rb.enabled_at

        feat['must'] += sum(1 for v in exp.values() if v == 'must')
        feat['neg'] += any(v == 'not' and model[k].enabled for k, v in exp.items())
        for rid, v in exp.items():
            c = counts.get(rid, 0)
            r = model[rid]
            if rid in touched:
                continue
            if c > 1:
                violation('invoked-twice', rid=rid)
            if v == 'must' and c == 0:
                if raisers and not any(before(rid, q) for q in raisers):
                    acc.count('midi_open/after-raising-callback')
                    continue
                if any(q != rid and model[q].enabled_at < r.enabled_at
                       and t in model[q].types for q in removed):
                    violation('missed-invocation/after-removal-during-dispatch', rid=rid,
                              invoked=[e[1] for e in invs])
                violation('missed-invocation/other', rid=rid, invoked=[e[1] for e in invs])
            if v == 'not' and c == 1:
                why = ('invoked-after-one-shot-fired' if r.spent else 'invoked-while-freed'
                       if r.freed else 'invoked-while-disabled' if not r.enabled else
                       'type-port-or-template-ignored')
                violation('unexpected-invocation/' + why, rid=rid)
        order = [e[1] for e in invs if e[1] not in touched]
        for i in range(len(order)):
            for j in range(i + 1, len(order)):
                if before(order[j], order[i]):
                    violation('order', got=order)
                elif before(order[i], order[j]):
                    acc.count('midi_order_pairs_checked')
        for e in inv:
            if e[0] == 'inv':
                r = model[e[1]]
                if r.one_shot:
                    r.enabled, r.freed, r.spent = False, True, True
                    acc.count('midi_one_shots_fired')
            elif e[0] == 'op':
                r = model[e[2][1]]
                r.enabled = False
                if e[2][0] == 'free':
                    r.freed = True
        for rid, r in model.items():
            if bool(objs[rid].enabled) != r.enabled:
                if r.spent and r.replaced:
                    # same mechanism as for OscFunc (shared base class): same key
                    violation('one-shot-lost-by-function-replacement', rid=rid)
                if r.spent:
                    violation('one-shot-still-enabled-after-firing', rid=rid)
                violation('enabled-flag-differs', rid=rid)

    try:
        for _ in range(rng.randint(1, 3)):
            create()
        for _ in range(rng.randint(5, 40)):
            k = rng.random()
            alive = [r for r in model.values() if not r.freed]
            if k < 0.2 and len(alive) < 8:
                create()
            elif k < 0.65 or not alive:
                send()
            elif k < 0.75:
                h = rng.choice(alive)
                if h.enabled:
                    same = [r for r in alive if set(r.types) & set(h.types)]
                    t = rng.choice(same)
                    armed[h.rid] = (rng.choice(['free', 'disable']), t.rid)
                    log.append(['arm', h.rid, list(armed[h.rid])])
            else:
                t = rng.choice(alive)
                op(rng.choice(['disable', 'enable', 'free', 'one_shot', 'one_shot',
                               'set_func']), t.rid)
        for r in model.values():
            if not r.freed:
                op('free', r.rid)
        for t in TYPES:
            inv.clear()
            with main._main_lock:
                disp({'type': t, 'channel': 0}, ports[0])
            if inv:
                violation('unexpected-invocation/invoked-while-freed', rid=inv[0][1])
    except Stop:
        pass
    finally:
        for o in objs.values():
            try:
                o.free()
            except Exception:
                pass
    return log, feat


def run(spec, acc):
    from sc3.base.responders import MidiFunc
    from sc3.base.main import main
    for i in iter_cases(spec):
        rng = case_rng(spec['seed'], 'C18', 'midi', i)
        log, feat = run_history(acc, rng, i, MidiFunc, main)
        acc.case(h64(repr(log)), nontrivial=feat['must'] > 0 and feat['neg'] > 0
                 and feat['ops'] > 0)
        acc.count('midi_histories')
        if acc.want_sample() and feat['must'] and len(log) < 14:
            acc.sample({'case': i, 'kind': 'midi', 'history': log})
