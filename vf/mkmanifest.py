"""Regenerates /verif/MANIFEST.json from the table below and validates it.
python -m vf.mkmanifest
"""

import json
import os
import subprocess

from .common import VERIF_DIR

# property -> (technique, level text, level note, design section)
CHECKS = {
    'C09': ("reference-model monitor (sorted list) in lock step + icontract "
            "class invariant on the real TaskQueue; OscScore driven as a real user",
            "Runtime monitoring: random operation histories are applied to the real "
            "queue and to a sorted-list model, every return value/observer compared; "
            "held on the histories explored, not a proof.",
            "Trusted: the 40-line sorted-list model; priorities without NaN.",
            "3/C09"),
    'C05': ("trace monitor: per-routine shadow expectation of logical time checked at "
            "every resumption inside the program interpreter; RT under injected jitter "
            "(sys.monitoring random yields, oversleeping clock waits, lock-holding "
            "thread, burners); NRT monotonicity/elapsed-time checks",
            "Runtime monitoring of seeded random routine programs on the real clocks in "
            "both modes; logical seconds are compared bit-for-bit (SystemClock/AppClock) "
            "or within 1e-9 relative (TempoClock conversions). Held on the programs and "
            "schedules observed; jitter actually observed is reported.",
            "Trusted: the interpreter's shadow arithmetic (vf/prog.py), CPython float "
            "semantics, host wall clock not stepping (HostWatch).",
            "3/C05"),
    'C08': ("trace monitor over wake-ups vs priority-queue model with interval semantics; "
            "stress from concurrent scheduler threads with sys.monitoring random-yield "
            "injection; adaptive park-one sweep over statements of clock loops and "
            "scheduling functions; clear/stop scenarios; lock-discipline monitor on the "
            "clock queues",
            "Runtime monitoring of the real clock threads: exactly-once, not-early, order "
            "with ties, re-scheduling time, bounded progress (3 s park / 6 s stress with "
            "decoy deadlines one hour ahead), cancellation, survival of raising tasks, and "
            "main-lock ownership at every queue access. Single-preemption sweep plus random "
            "multi-preemption stress; not all interleavings.",
            "Trusted: the offline checker; physical-time verdicts only when the host "
            "watchdog saw < 0.5-1 s starvation and no wall-clock step.",
            "3/C08"),
    'C10': ("differential monitor across processes: the same generated programs run in two "
            "fresh NRT processes (different hash seeds) and in an RT process under "
            "sys.monitoring yield injection; per-routine logs, bundle ids/timetags and raw "
            "score bytes compared by the driver; seed-independence pairs in NRT",
            "Runtime differential monitoring of seeded random programs (multi-clock with "
            "cross-clock plays, single-clock with tempo changes/conditions/flow variables, "
            "single-clock with pause/resume/stop): RT vs NRT logs within 1e-9 s, NRT vs NRT "
            "byte-identical, seeded draws independent of other routines. Held on the "
            "programs explored.",
            "Trusted: the interpreter vf/prog.py and the program families' independence from "
            "physical time (documented in vf/props/C10.py); RT batches compared only after "
            "every clock queue was observed empty.",
            "3/C10"),
    'C11': ("reference-model monitor in lock step (routine state machine incl. operations "
            "issued from inside bodies, current-thread/parent/time invariants after every "
            "operation) + Condition/FlowVar trace monitor (exactly-once, never-before) in NRT "
            "and in RT under yield injection with releases from a plain thread",
            "Runtime monitoring of random operation histories on real Routine objects against "
            "a 100-line state-machine model, and of generated programs with 1-8 waiters per "
            "condition. Held on the histories explored.",
            "Trusted: the model in vf/props/C11.py (documented state machine; re-entrant "
            "next() may raise anything but must keep the current-thread pointer).",
            "3/C11"),
    'C03': ("differential reference model: every expanded call vs an independent wrap-and-zip "
            "expansion issuing only list-free calls, unit-creation counting by wrapping "
            "_create_ugen_object, bytes-level comparison through tagged sinks (vf/scgf.py)",
            "Runtime monitoring of ~1e5 (quick) / 1.4e6 (thorough) seeded calls over the 440+ "
            "constructors discovered at run time to delegate to the generic expansion, "
            "ChannelList operators/convenience methods and the output units.",
            "Trusted: list-free calls define one channel; vf/c03_model.py; vf/scgf.py; the "
            "run-time qualification probe that defines 'delegates directly'.",
            "3/C03"),
    'C04': ("reference layout model computed from the signature alone + tagged sinks in the "
            "generated body; decoded bytes (parameter array, name table, control wiring, lags, "
            "variants) and NRT score of SynthDef.__call__ compared with the model",
            "Runtime monitoring of generated programs (1-4 wrapped functions, 0-40 parameters, "
            "annotations, rates lists, tuple defaults, prepend, specs, variants) executed as "
            "real functions by SynthDef.",
            "Trusted: vf/model_controls.py, vf/scgf.py.",
            "3/C04"),
    'C12': ("icontract postconditions attached from the harness to 13 TempoClock methods and "
            "setters + reference affine map / meter model replayed in lock step over histories "
            "run by routines on the clock (NRT volume + RT shard)",
            "Runtime monitoring of seeded tempo/etempo/beats/meter histories, millions of grid "
            "queries and first wake-ups of play(quant) on real TempoClocks.",
            "Trusted: vf/c12_model.py; tolerance 1e-9 relative + 1e-9 absolute on beats (+16 ulp "
            "per re-basing); icontract 2.7.3 with the harness' own recursion guard.",
            "3/C12"),
    'C14': ("reference-model monitors + trace checker over decoded NRT scores: key-chain model, "
            "expected /s_new and gate-off bundles attributed through unique tag controls, "
            "timeline algebra for Pbind/Pmono/Ppar/Pchain/Pdur/Pdelta",
            "Runtime monitoring of seeded key sets, play programs and pattern compositions "
            "executed by the real library in NRT mode; every score decoded by vf/osc.py and "
            "compared with the independent model.",
            "Trusted: vf/model_events.py (SuperCollider documentation reading), vf/osc.py; "
            "1e-9 relative, 2^-31 s timetags, one float32 ulp on raw values; inputs where "
            "documentation and port comments disagree are excluded (listed in the module).",
            "3/C14"),
    'C19': ("independent envelope encoder as reference model + breakpoint predicates over the "
            "real Env objects + EnvGen inputs decoded from definition bytes (vf/scgf.py)",
            "Runtime monitoring of seeded envelope specifications, evaluation times and all 11 "
            "standard constructors (called twice with the same argument objects).",
            "Trusted: vf/model_env.py (server array layout, shape numbers, -99), vf/scgf.py; "
            "generators restricted to each shape's documented domain.",
            "3/C19"),
    'C18': ("dispatch reference model with an independent OSC 1.0 pattern matcher in lock step "
            "with real responders (RT, _handle_request and real loop-back UDP); hostile-datagram "
            "fuzzing with a sys.monitoring step counter deciding termination and a canary after "
            "every datagram; ordered-registry models for the action registries",
            "Runtime monitoring of seeded responder histories (also operations issued from inside "
            "callbacks), pattern/address pairs, mutated and targeted malformed datagrams, and "
            "registry histories; each invocation compared with the model (must / must-not / open).",
            "Trusted: vf/model_dispatch.py, vf/osc.py strict decoder, CPython 3.12 sys.monitoring, "
            "FIFO order of equal-time SystemClock tasks for the canary. Lenient parses outside the "
            "strictly-malformed classes are counted, not judged.",
            "3/C18"),
    'C20': ("differential monitor across worker processes (sha256 of as_bytes per program): "
            "reference process vs random hash seed + reverse order, interleaved failing builds, "
            "2-16 concurrently building threads under sys.monitoring yield injection (RT), heavy "
            "prior use with GC disabled + immediate rebuild, single-program fresh processes; "
            "residue predicates after every failing build",
            "Runtime monitoring of seeded graph programs (C01/C02 generator) built under six "
            "kinds of histories/configurations; bytes (or exception class) must be identical "
            "everywhere; after failures the build context, the build lock and units created "
            "outside a build are inspected.",
            "Trusted: vf/gen_graph.py renders the same function from the same data in every "
            "process; the PYTHONHASHSEED=0 sequential build is the reference (validated by "
            "single-program fresh processes).",
            "3/C20"),
    'C13': ("denotational reference model (lazy sequences, no sc3 import) compared with the real "
            "patterns on 64-value prefixes and end positions; sibling streams consumed under a "
            "random alternating schedule; deep vars() snapshots of every pattern node; blame by "
            "smallest failing sub-expression",
            "Runtime monitoring of seeded typed pattern expressions up to depth 5 over every class "
            "of the quantifier, driven through iter/next, Stream.next, the embed generator or all().",
            "Trusted: vf/model_patterns.py (written from the SuperCollider help files; deliberate "
            "port differences listed in its header); dyadic numbers so float operations are exact.",
            "3/C13"),
    'C15': ("lifted-versus-direct evaluation of every introspected operator entry point (138 "
            "AbstractObject methods, 116 decorated builtins) over 16 operand kinds on either side; "
            "numeric law contracts on the kernels; introspective scan for operator methods hidden "
            "by instance attributes",
            "Runtime monitoring: the composed object's evaluation is compared (values and exception "
            "types) with the plain selector applied to the operands' known values; range/inverse "
            "laws sampled on in-domain arguments.",
            "Trusted: the selector reported by a probe object applied to plain numbers is the numeric "
            "meaning; combination rules in vf/c15_kinds.py; tolerances 4 ulp / 1e-12 / 1e-9.",
            "3/C15"),
    'C16': ("bitmap reference model per partition accepting any correct answer, compared after "
            "every operation with the allocator's answers and blocks(); node-id sliding-window "
            "distinctness and range model across the wrap-around",
            "Runtime monitoring of seeded alloc/free/double-free/unknown-free histories on the "
            "allocator and through the bus/buffer constructors for client ids 0-31 and max_logins 1-8.",
            "Trusted: vf/model_alloc.py (150 lines, self-test); the per-client partition convention "
            "and 26-bit id ranges recomputed from the option values.",
            "3/C16"),
    'C17': ("trace checker over decoded traffic (NRT score and patched RT _send): per-method "
            "expected messages, server-command grammar, id ledger fed by wrapping the server's "
            "allocators, bind() block atomicity with injected exceptions",
            "Runtime monitoring of random histories of 3-90 operations over synths, groups, buffers "
            "and buses with every constructor form, add action and target form, inside and outside "
            "bind() blocks (40 % raising).",
            "Trusted: vf/cmdref.py and vf/model_cmds.py (transcribed from the Server Command "
            "Reference and class documentation), vf/osc.py.",
            "3/C17"),
    'C01': ("translation validation by random ring evaluation: the decoded definition bytes "
            "(vf/scgf.py) and the generator's shadow DAG are evaluated under the same random "
            "interpretation (ring operators exact over rationals, every other unit an "
            "uninterpreted keyed hash); multisets of effect-unit signatures, pure-unit inclusion, "
            "opcodes (vf/opcodes.py) and rates compared",
            "Runtime monitoring of seeded graph programs through the real SynthDef compiler "
            "(constructor shortcuts, Sum3/Sum4/MulAdd/neg/sub rewrites, dead-code elimination); "
            "every compilation validated independently. Held on the programs explored.",
            "Trusted: vf/scgf.py, vf/opcodes.py (transcribed from the server's opcode enumeration), "
            "the purity table of the generator's unit classes, three independent interpretations "
            "per program (a wrong rewrite survives one with probability ~2^-60).",
            "3/C01"),
    'C02': ("independent strict SCgf-2 parser + structural predicates (strictly-earlier inputs, "
            "width-first ordering from creation tags, counts/names/rates consistency) + the "
            "library's own SynthDesc reader round trip against the generator's shadow model; "
            "invalid graphs must raise",
            "Runtime monitoring of seeded programs incl. multi-output units, nested multichannel "
            "expansion, width-first units, hundreds of units/constants, names up to 255 chars, "
            "variants and nine classes of invalid graphs.",
            "Trusted: vf/scgf.py (written from the Synth Definition File Format), the generator's "
            "shadow model of controls/gate/IO units.",
            "3/C02"),
    'C06': ("independent OSC 1.0 reader (vf/osc.py) + coercion model on every packet the "
            "builders accept; refusal/alteration classification; size prediction vs real size; "
            "clumped and synced sends captured at the interface with replies fed back; d_recv route",
            "Runtime monitoring of seeded hostile argument lists, nested bundles with all latency "
            "shapes and element lists straddling the clump and UDP limits.",
            "Trusted: vf/osc.py, the documented coercions (None/False/[] -> 0, True -> 1, float32, "
            "message/bundle-shaped lists -> blobs, bracket markers -> arrays).",
            "3/C06"),
    'C07': ("trace monitor with integer timetag equality: datagrams captured at the RT interface "
            "are decoded by vf/osc.py and compared with the timetag recomputed from the sending "
            "routine's logical time (call interval outside routines); NRT score order, tail marker "
            "and raw == concatenation of length-prefixed encodings of list",
            "Runtime monitoring of routines on all clock kinds sending messages, bundles and nested "
            "bundles with latencies {None, <0, 0, tiny, 0.2, 3} under wake-up jitter (RT) and of "
            "generated NRT scores; incoming bundle times through loop-back.",
            "Trusted: vf/osc.py; the offset recomputed from main._init_time; host wall clock not "
            "stepping.",
            "3/C07"),
}

NOT_YET = "check not built yet in this session (work in progress); runtime monitoring is applicable"


# additions of rounds 7-9 (appended to the technique text; DESIGN.md 7.5 has the detail)
EXTRA = {
    'C06': "; deep snapshots of mutable arguments compared after every operation, re-sends judged against the snapshot",
    'C01': "; purity table of side-effecting unit classes (done actions, client triggers, buffer writers, seeding) with unused outputs; demand-rate operands; random operator units as stateful leaves (one identity per creation, injection search)",
    'C02': "; the same predicates on every emission route (send/load/store/files, /d_recv datagrams in RT and NRT) and on the file / library readers; helpers that fail in their body after their controls exist (control units must partition the table)",
    'C03': "; run-time populations of converting and defaulting constructors; unit-against-sequence through every operator route; reductions (sum, Mix) with type and aliasing oracles",
    'C04': "; recovered failing bodies (all kept or all dropped), sessions sharing argument objects, float32 edge values bit for bit, hostile parameter names with a renaming differential; object kind of each parameter inside the body and operators applied to parameters",
    'C05': "; prober thread (sched / sched_abs / default-clock play) against busy clocks, failing tasks next to probes, slow AppClock and TempoClock tasks as load, re-arm programs, children started with sched_abs; routines driven by hand from a plain thread; sched probes aimed at windows in which a clock thread runs a routine; deltas of other numeric classes; restart histories (YieldAndReset) against an exact model",
    'C07': "; independent interval expectation for AppClock routines served by one late tick; clumping paths in the NRT score; sends while a routine step holds the lock",
    'C08': "; map changes (tempo / etempo / beats) issued from other clocks' tasks; defer(), stop_all(), CmdPeriod.run() incl. from tasks; clear() from a task; relative beats of tempo-clock scheduling; absolute times at the present; callable objects and partials as tasks, error-log trace (every raising wake-up logged, clock thread survives)",
    'C09': "; exit-action queue with actions that work on the queue during shutdown; score histories with refused entries; clocks as users incl. AppClock judged from call-time intervals; score adds from a re-used scratch bundle",
    'C10': "; slow AppClock tasks as RT load; identical bundles in one wake-up; sched_abs children; further random builtins",
    'C11': "; concurrent signal while wait() evaluates a slow test (forced window) and FlowVar under yield injection; pause / resume / play / release applied to a parked routine (NRT model); restart histories: YieldAndReset while scheduled under reset / pause / resume / stop / play from another routine, exact NRT reference model",
    'C12': "; RT shards for concurrent map changes (total order of lock-held samples) and for wake-ups after failing tasks; tasks scheduled again while pending; exact rational oracle near grid and bar lines; restart histories touching the grid (meter change after a restart, resume / play on the grid)",
    'C13': "; blueprint / independence clause for every Pattern subclass discovered at run time (second stream, alternation, reset, re-embedding, threads, snapshots); tolerance-window edges of accumulating classes",
    'C14': "; read / modify / read histories on event objects, Rest objects in every key, failed plays followed by repair, player-control histories, tuple keys; pitch input keys given alone; derived pattern objects with original and derivative both played",
    'C15': "; effects monitor: trace checker over logging operand functions / streams with state and failures (evaluation counts, exception propagation); deterministic comparison grid over int / float spellings; operands a hair beside a multiple with an exact rational reference",
    'C16': "; operations failing half way followed by continued allocation; reserve(); permanent node ids; unused allocator classes observed only",
    'C17': "; use after free and map symbols in the id ledger; nested bind() blocks against a stack-of-pending-lists model; remaining command-emitting entry points against a stand-in server; login histories through the real responder path against an sc3-free id layout",
    'C18': "; real-time shard with responder operations concurrent to UDP / TCP dispatch judged with interval semantics; recording template predicates; failing creations retried; datagrams cut at every offset; receive port = the kernel's view, behind held ports; responders that share one function object (invocation counts per handler, order where determined)",
    'C19': "; unit generators in every envelope field (format lists by identity, definition bytes through an independent unit-graph interpreter); re-specification histories changing the segment count; defaulted envelopes in pairs, one changed in place (object independence)",
    'C20': "; concurrent serialisation, builds inside routines while clocks are busy, every definition serialised twice, objects (Env, lists) shared between builds; source-free fail points (sys.monitoring): a build cut short at a random statement of any callee, then the residue predicates",
}


def main():
    props = [json.loads(l)['id'] for l in open(os.path.join(VERIF_DIR, 'properties.jsonl'))]
    repo_fix = []
    checks = []
    for pid in props:
        if pid not in CHECKS:
            continue
        tech, text, note, ref = CHECKS[pid]
        tech = tech + EXTRA.get(pid, '')
        checks.append({
            'property_id': pid,
            'quick_cmd': f'./check {pid} quick',
            'thorough_cmd': f'./check {pid} thorough',
            'evidence_file': f'/verif/evidence/{pid}.json',
            'replay_cmd_template': f'./check {pid} --replay {{path}}',
            'engine': 'vf',
            'level_claimed': {'category': 'exploration', 'text': text,
                              'design_ref': f'DESIGN.md section {ref}'},
            'level_note': note,
            'technique': tech,
        })
    man = {
        'version': 1,
        'setup_cmd': './check --setup',
        'hooks': {
            'guard': 'SC3_VERIF',
            'enable': 'no source hooks: all probes are attached from the harness '
                      '(attribute wrapping, sys.monitoring, icontract); checks run '
                      '/repo\'s working tree directly via PYTHONPATH (pure Python, '
                      'nothing to build); SC3_VERIF=1 is exported by ./check but '
                      'read by nothing in /repo',
            'baseline_off_cmd': 'cd /repo && /venv/bin/python -m pytest -ra -q '
                                '-p no:cacheprovider --timeout=900 '
                                '--continue-on-collection-errors',
            'source_commits': [],
            'add_only': True,
        },
        'engines': [{
            'name': 'vf', 'path': '/verif/vf',
            'serves_properties': [c['property_id'] for c in checks],
            'kind_free_text': 'runtime monitoring: reference-model monitors, trace '
                              'checkers, invariant hooks/contracts, schedule and '
                              'fault injection; subprocess workers per library mode',
        }],
        'checks': checks,
        'notes': 'Exit codes: 0 held on everything explored (KNOWN-FINDING lines '
                 'for listed findings), 1 VIOLATION, 2 INCONCLUSIVE (monitor '
                 'reached too few events / shards lost). Known findings: '
                 '/verif/known_findings.json. VERIF_SEED selects the base seed.',
        'not_applicable': [{'property_id': p, 'reason': NOT_YET}
                           for p in props if p not in CHECKS],
    }
    path = os.path.join(VERIF_DIR, 'MANIFEST.json')
    try:
        import jsonschema
        jsonschema.validate(man, json.load(open('/root/.vp/MANIFEST.schema.json')))
    except ImportError:
        print('jsonschema not available: not validated')
    json.dump(man, open(path, 'w'), indent=1)
    print('MANIFEST.json written:', len(checks), 'checks,',
          len(man['not_applicable']), 'not yet claimed')


if __name__ == '__main__':
    main()
