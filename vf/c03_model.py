"""C03 reference model and generators (no sc3 import).

The wrap-and-zip law, written from the property statement:

    expand(args, leaf):
        if no argument is a list           -> leaf(args)
        n = length of the longest list
        -> channel list [ expand([a[i mod len(a)] if a is a list else a
                                  for a in args], leaf)  for i in 0..n-1 ]

Tuples, numbers, strings, None and unit generators are scalars.  A
`ChannelList` is a list (sc3's class derives from list), so `isinstance(x,
list)` is the only test used.

Shapes are generated as *templates* (pure data) and instantiated inside the
graph function, because unit-generator leaves can only be created there.
Template grammar:
    ('num', v) | ('ugen', rate) | ('tup', [leaf, ...]) | ('str', s) |
    ('obj', kind, n) | ('list', [template, ...], as_channel_list: bool)

('obj', kind, n) is the n-th object of a small pool of long-lived NON-unit
values that the library converts to a number when they are used as a unit
input (kind 'buffer' / 'bus': a Buffer stands for its buffer number, a Bus for
its index).  They are created once per worker by the maker registered in
OBJ_MAKER (the model itself does not know sc3); like numbers they are
scalars of the law and may be shared between builds.
"""

OBJ_MAKER = [None]          # set by the harness: f(kind, n) -> object


def is_list(x):
    return isinstance(x, list)


def expand(args, leaf, mk, stats=None):
    """Reference expansion.  leaf(list_free_args) -> value; mk(list) -> the
    channel-list container.  stats (dict) receives the number of leaf calls
    ('combos') and whether wrap-around happened ('wrapped')."""
    n = 0
    any_list = False
    for a in args:
        if is_list(a):
            any_list = True
            if len(a) == 0:
                raise ValueError('empty list is outside the domain')
            n = max(n, len(a))
    if not any_list:
        if stats is not None:
            stats['combos'] = stats.get('combos', 0) + 1
        return leaf(list(args))
    if stats is not None:
        lens = {len(a) for a in args if is_list(a)}
        if len(lens) > 1:
            stats['wrapped'] = True
        stats['levels'] = stats.get('levels', 0) + 1
    return mk([expand([a[i % len(a)] if is_list(a) else a for a in args],
                      leaf, mk, stats) for i in range(n)])


# ---------------------------------------------------------------------------
# template generation

F32_NUMS = [0.0, 0.25, 0.5, 1.0, 1.5, 2.0, 3.0, 4.0, 7.0, 10.0, 100.0, 440.0,
            -1.0, -0.5, 0.125, 55.0, 880.0, 1, 2, 3, 5, 8]


def gen_leaf(rng, numfn, p_ugen=0.25, p_tuple=0.0, rates=('audio',)):
    r = rng.random()
    if r < p_tuple:
        k = rng.randint(1, 3)
        return ('tup', [gen_leaf(rng, numfn, p_ugen, 0.0, rates)
                        for _ in range(k)])
    if r < p_tuple + p_ugen:
        return ('ugen', rng.choice(rates))
    v = numfn(rng)
    # a number function may answer a ready leaf template (object leaves)
    return v if isinstance(v, tuple) else ('num', v)


def gen_template(rng, numfn, p_ugen=0.25, p_tuple=0.05, rates=('audio',),
                 force=None, maxlen=5):
    """One argument template.  force: None | 'scalar' | 'list' | 'nested'."""
    kind = force or rng.choices(
        ['scalar', 'list', 'nested', 'chlist'], [40, 38, 15, 7])[0]
    if kind == 'scalar':
        return gen_leaf(rng, numfn, p_ugen, p_tuple, rates)
    if kind in ('list', 'chlist'):
        n = rng.choice([1, 2, 2, 3, 3, 4, maxlen])
        return ('list', [gen_leaf(rng, numfn, p_ugen, p_tuple, rates)
                         for _ in range(n)], kind == 'chlist')
    # nested, depth up to 3
    def nest(depth):
        n = rng.choice([1, 2, 2, 3])
        items = []
        for _ in range(n):
            if depth < 3 and rng.random() < (0.55 if depth == 1 else 0.3):
                items.append(nest(depth + 1))
            else:
                items.append(gen_leaf(rng, numfn, p_ugen, p_tuple, rates))
        return ('list', items, rng.random() < 0.25)
    t = nest(1)
    if template_depth(t) < 2:
        t[1][rng.randrange(len(t[1]))] = (
            'list', [gen_leaf(rng, numfn, p_ugen, p_tuple, rates)
                     for _ in range(rng.choice([1, 2, 3]))], False)
    return t


def template_depth(t):
    if t[0] != 'list':
        return 0
    return 1 + max([template_depth(x) for x in t[1]] + [0])


def template_has(t, tag):
    if t[0] == tag:
        return True
    if t[0] in ('list', 'tup'):
        return any(template_has(x, tag) for x in t[1])
    return False


def template_lens(t):
    """lengths of all lists in the template (top level first)."""
    if t[0] != 'list':
        return []
    out = [len(t[1])]
    for x in t[1]:
        out.extend(template_lens(x))
    return out


def instantiate(t, make_ugen, make_chlist):
    k = t[0]
    if k == 'num':
        return t[1]
    if k == 'str':
        return t[1]
    if k == 'ugen':
        return make_ugen(t[1])
    if k == 'obj':
        return OBJ_MAKER[0](t[1], t[2])
    if k == 'tup':
        return tuple(instantiate(x, make_ugen, make_chlist) for x in t[1])
    if k == 'list':
        items = [instantiate(x, make_ugen, make_chlist) for x in t[1]]
        return make_chlist(items) if t[2] else items
    raise ValueError(t)


def nontrivial_shapes(templates):
    """A call is non-trivial when expansion has to wrap or recurse: two list
    arguments of different top-level lengths, or a nested list, together with
    at least one list of length >= 2."""
    tops = [len(t[1]) for t in templates if t[0] == 'list']
    if not tops or max(tops) < 2:
        return False
    nested = any(template_depth(t) >= 2 for t in templates)
    return nested or len(set(tops)) > 1


# ---------------------------------------------------------------------------
# Out family reference

SIL = ('silence',)


def is_literal_zero(x):
    return isinstance(x, (int, float)) and not isinstance(x, bool) and x == 0


def silence_zeros(x):
    if is_list(x):
        return [silence_zeros(i) for i in x]
    return SIL if is_literal_zero(x) else x


def out_reference(fixed, output, audio):
    """Expected output units of  Cls.ar/kr(*fixed, output): a list with one
    entry per created unit, each the flat input list (fixed args followed by
    the channels).  The channel array is the argument itself when it is a
    list, else the one-element array; nested lists inside it are further
    arguments of the expansion; literal zeros among the channels become the
    SIL marker for audio-rate outputs."""
    chans = list(output) if is_list(output) else [output]
    if audio:
        chans = [silence_zeros(c) for c in chans]
    calls = []
    expand(list(fixed) + chans, lambda a: calls.append(a), list)
    return calls


# ---------------------------------------------------------------------------
# argument sharing across builds and argument immutability

def instantiate_pair(t, make_ugen, make_chlist, share=None, path=()):
    """-> (real, ref).  `real` is what is handed to the library, `ref` what
    the reference expansion works on: a structurally equal value built
    freshly from the template whose unit-generator leaves are the very same
    objects.  With a `share` dict, every sub-structure of the template that
    contains no unit generator (numbers, tuples / lists / channel lists of
    numbers) is created once and the SAME object is handed out again on later
    instantiations (a caller reusing a constant table over several builds);
    `ref` never aliases it."""
    if not template_has(t, 'ugen'):
        ref = instantiate(t, None, make_chlist)
        if share is None or t[0] not in ('list', 'tup'):
            return instantiate(t, None, make_chlist), ref
        if path not in share:
            share[path] = instantiate(t, None, make_chlist)
        return share[path], ref
    k = t[0]
    if k == 'ugen':
        u = make_ugen(t[1])
        return u, u
    pairs = [instantiate_pair(x, make_ugen, make_chlist, share, path + (n,))
             for n, x in enumerate(t[1])]
    real = [p[0] for p in pairs]
    ref = [p[1] for p in pairs]
    if k == 'tup':
        return tuple(real), tuple(ref)
    if t[2]:
        return make_chlist(real), make_chlist(ref)
    return real, ref


def snapshot(x, is_unit):
    """deep value snapshot of an argument: container kinds and lengths,
    numbers by type and value, unit generators by identity."""
    if isinstance(x, list):
        return ('L', type(x).__name__, tuple(snapshot(i, is_unit) for i in x))
    if isinstance(x, tuple):
        return ('T', tuple(snapshot(i, is_unit) for i in x))
    if is_unit(x):
        return ('U', id(x))
    return ('v', type(x).__name__, repr(x))


def snapshot_diff(a, b, depth=0):
    """None when equal, else '<top|nested>-<what>' for the first difference
    (depth 0 = the argument object itself)."""
    if a == b:
        return None
    where = 'top' if depth <= 1 else 'nested'
    if a[0] != b[0]:
        if a[0] == 'v' and b[0] == 'U':
            return where + '-number-replaced-by-unit'
        return where + '-element-kind-changed'
    if a[0] in ('L', 'T'):
        xa, xb = a[-1], b[-1]
        if a[0] == 'L' and a[1] != b[1]:
            return where + '-container-type-changed'
        if len(xa) != len(xb):
            return ('top' if depth == 0 else 'nested') + '-length-changed'
        for i, j in zip(xa, xb):
            d = snapshot_diff(i, j, depth + 1)
            if d:
                return d
    if a[0] == 'v':
        return where + '-value-changed'
    return where + '-unit-replaced'
