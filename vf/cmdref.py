"""Server command grammar (does NOT import sc3).

Written from the SuperCollider "Server Command Reference" (scsynth / supernova
OSC interface).  One entry per command: fixed head slots, an optional repeated
group ("N * ..."), an optional trailing completion message.  `check(msg)`
validates a decoded message (vf.osc.Msg) against the entry and returns

    (problems, mentions)

problems: list of (mechanism, detail) - empty when the message conforms;
mentions: list of (kind, role, first, count) for every id the message names
          (kind node|buf|cbus|abus, role new|use|free|usesym; usesym = the
          id is written as a bus mapping symbol 'c<n>' / 'a<n>' in a control
          value slot - ids in string form are ids too).

Slot types
    i     int32
    f     "float or int" of the reference (numeric): OSC f or i
    s     string
    ctl   control index (int) or name (string)
    val   control value: numeric, a string 'c<n>' / 'a<n>' (bus mapping), any
          other string (the reference lets the synth interpret symbols), or an
          array [ ... ] of such values (assigned to consecutive controls;
          scsynth tolerates nested brackets)
    flag  int 0 or 1
    aa    add action, int 0..4
    node / buf / cbus / abus   int ids (recorded as mentions)
A completion message is a blob holding a well-formed OSC message or bundle
whose commands are themselves in this table.  sclang sends the int 0 where a
completion message is absent (nil); that spelling is accepted too.

Types are checked the way the reference states them: an int slot must be an
OSC int (scsynth would silently convert a float, but the reference says int).
"""

from vf import osc

NUM = (int, float)


def _is_int(a):
    return isinstance(a, int) and not isinstance(a, bool)


def _is_num(a):
    return isinstance(a, NUM) and not isinstance(a, bool)


class Spec:
    def __init__(self, head=(), group=None, min_groups=0, completion=False,
                 special=None, doc=''):
        self.head = list(head)
        self.group = list(group) if group else None
        self.min_groups = min_groups
        self.completion = completion
        self.special = special
        self.doc = doc


# slot = 'type' or ('type', role) ; counted runs: ('count', 'f') means an int M
# followed by M numeric values.
S = Spec
COMMANDS = {
    # ---- master controls ------------------------------------------------
    '/quit': S(),
    '/notify': S(['flag'], special='notify'),
    '/status': S(),
    '/dumpOSC': S([('i', 'range', 0, 3)]),
    '/sync': S(['i']),
    '/clearSched': S(),
    '/error': S([('i', 'range', -2, 1)]),
    '/version': S(),
    '/cmd': S(special='any'),
    # ---- synth definitions ------------------------------------------------
    '/d_recv': S(['b'], completion=True),
    '/d_load': S(['s'], completion=True),
    '/d_loadDir': S(['s'], completion=True),
    '/d_free': S([], ['s'], 1),
    # ---- nodes ---------------------------------------------------------------
    '/n_free': S([], [('node', 'free')], 1),
    '/n_run': S([], [('node', 'use'), 'flag'], 1),
    '/n_set': S([('node', 'use')], ['ctl', 'val'], 0),
    '/n_setn': S([('node', 'use')], ['ctl', ('count', 'val1')], 0),
    '/n_fill': S([('node', 'use')], ['ctl', 'i', 'f'], 0),
    '/n_map': S([('node', 'use')], ['ctl', ('cbus1', 'use')], 0),
    '/n_mapn': S([('node', 'use')], ['ctl', ('cbusn', 'use')], 0),
    '/n_mapa': S([('node', 'use')], ['ctl', ('abus1', 'use')], 0),
    '/n_mapan': S([('node', 'use')], ['ctl', ('abusn', 'use')], 0),
    '/n_before': S([], [('node', 'use'), ('node', 'use')], 1),
    '/n_after': S([], [('node', 'use'), ('node', 'use')], 1),
    '/n_query': S([], [('node', 'use')], 1),
    '/n_trace': S([], [('node', 'use')], 1),
    '/n_order': S(['aa', ('node', 'use')], [('node', 'use')], 1),
    # ---- synths ----------------------------------------------------------------
    '/s_new': S(['s', ('node', 'new'), 'aa', ('node', 'use')], ['ctl', 'val'], 0),
    '/s_get': S([('node', 'use')], ['ctl'], 1),
    '/s_getn': S([('node', 'use')], ['ctl', 'i'], 1),
    '/s_noid': S([], [('node', 'use')], 1),
    # ---- groups ----------------------------------------------------------------
    '/g_new': S([], [('node', 'new'), 'aa', ('node', 'use')], 1),
    '/p_new': S([], [('node', 'new'), 'aa', ('node', 'use')], 1),
    '/g_head': S([], [('node', 'use'), ('node', 'use')], 1),
    '/g_tail': S([], [('node', 'use'), ('node', 'use')], 1),
    '/g_freeAll': S([], [('node', 'use')], 1),
    '/g_deepFree': S([], [('node', 'use')], 1),
    '/g_dumpTree': S([], [('node', 'use'), 'flag'], 1),
    '/g_queryTree': S([], [('node', 'use'), 'flag'], 1),
    # ---- unit generator commands ----------------------------------------------
    '/u_cmd': S([('node', 'use'), 'i', 's'], special='anytail'),
    # ---- buffers -----------------------------------------------------------------
    '/b_alloc': S([('buf', 'new'), 'i', 'i'], completion=True),
    '/b_allocRead': S([('buf', 'new'), 's', 'i', 'i'], completion=True),
    '/b_allocReadChannel': S([('buf', 'new'), 's', 'i', 'i'], ['i'], 0,
                             completion=True),
    '/b_read': S([('buf', 'use'), 's', 'i', 'i', 'i', 'flag'], completion=True),
    '/b_readChannel': S([('buf', 'use'), 's', 'i', 'i', 'i', 'flag'], ['i'], 0,
                        completion=True),
    '/b_write': S([('buf', 'use'), 's', ('s', 'oneof', 'header'),
                   ('s', 'oneof', 'sample'), 'i', 'i', 'flag'], completion=True),
    '/b_free': S([('buf', 'free')], completion=True),
    '/b_zero': S([('buf', 'use')], completion=True),
    '/b_set': S([('buf', 'use')], ['i', 'f'], 1),
    '/b_setn': S([('buf', 'use')], ['i', ('count', 'f')], 1),
    '/b_fill': S([('buf', 'use')], ['i', 'i', 'f'], 1),
    '/b_gen': S([('buf', 'use'), 's'], special='b_gen'),
    '/b_close': S([('buf', 'use')], completion=True),
    '/b_query': S([], [('buf', 'use')], 1),
    '/b_get': S([('buf', 'use')], ['i'], 1),
    '/b_getn': S([('buf', 'use')], ['i', 'i'], 1),
    # ---- control buses ----------------------------------------------------------
    '/c_set': S([], [('cbus1', 'use'), 'f'], 1),
    '/c_setn': S([], [('cbuscount', 'use')], 1),
    '/c_fill': S([], [('cbusn', 'use'), 'f'], 1),
    '/c_get': S([], [('cbus1', 'use')], 1),
    '/c_getn': S([], [('cbusn', 'use')], 1),
    # ---- non real time ---------------------------------------------------------
    '/nrt_end': S(),
}

ONEOF = {
    'header': {'aiff', 'next', 'wav', 'ircam', 'raw', 'w64', 'mat4', 'mat5',
               'paf', 'svx', 'nist', 'voc', 'pvf', 'xi', 'htk', 'sds', 'avr',
               'sd2', 'flac', 'caf', 'ogg', 'vorbis', 'rf64', 'wavex', 'AIFF',
               'WAV', 'WAVE', 'NeXT', 'IRCAM', 'FLAC'},
    'sample': {'int8', 'int16', 'int24', 'int32', 'mulaw', 'alaw', 'float',
               'double', 'vorbis', 'uint8'},
}

B_GEN = {
    # command -> (head slots after the command name, repeated group)
    'sine1': (['genflags'], ['f']),
    'sine2': (['genflags'], ['f', 'f']),
    'sine3': (['genflags'], ['f', 'f', 'f']),
    'cheby': (['genflags'], ['f']),
    'copy': (['i', ('buf', 'use'), 'i', 'i'], None),
    # provided by the standard plugins, used by the Buffer class documentation
    'normalize': (['optf'], None),
    'wnormalize': (['optf'], None),
    'PreparePartConv': ([('buf', 'use'), 'i'], None),
}


class _Cursor:
    def __init__(self, args):
        self.a = args
        self.i = 0

    def more(self):
        return self.i < len(self.a)

    def left(self):
        return len(self.a) - self.i

    def peek(self):
        return self.a[self.i]

    def take(self):
        v = self.a[self.i]
        self.i += 1
        return v


def _val_ok(v, mentions, depth=0):
    if _is_num(v):
        return True
    if isinstance(v, str):
        if len(v) > 1 and v[0] in 'ca' and v[1:].isdigit():
            mentions.append(('cbus' if v[0] == 'c' else 'abus', 'usesym',
                             int(v[1:]), 1))
        return True
    if isinstance(v, list):
        return all(_val_ok(x, mentions, depth + 1) for x in v)
    return False


def _slot(slot, cur, problems, mentions, cmd, pos):
    """Consumes one slot; returns False when parsing cannot continue."""
    typ = slot if isinstance(slot, str) else slot[0]
    role = None if isinstance(slot, str) else slot[1]
    if typ == 'optf':
        if cur.more():
            v = cur.take()
            if not _is_num(v):
                problems.append((f'{cmd}/arg-type/expected-number',
                                 f'arg {pos}: {v!r}'))
        return True
    if not cur.more():
        problems.append((f'{cmd}/too-few-arguments',
                         f'missing {typ} at position {pos}'))
        return False
    if typ == 'count':              # int M then M values
        m = cur.take()
        if not _is_int(m):
            problems.append((f'{cmd}/arg-type/count-not-int', f'arg {pos}: {m!r}'))
            return False
        if m < 0 or cur.left() < m:
            problems.append((f'{cmd}/count-disagrees-with-values',
                             f'count {m} but {cur.left()} values left'))
            return False
        for _ in range(m):
            v = cur.take()
            if role == 'val1':
                ok = _is_num(v) or isinstance(v, str)
                if isinstance(v, str):
                    _val_ok(v, mentions)      # 'c<n>' / 'a<n>' names a bus
            else:
                ok = _is_num(v)
            if not ok:
                problems.append((f'{cmd}/arg-type/expected-number',
                                 f'value {v!r} in counted run'))
        return True
    if typ == 'cbuscount':          # /c_setn: index, M, M values
        idx = cur.take()
        if not _is_int(idx):
            problems.append((f'{cmd}/arg-type/expected-int', f'arg {pos}: {idx!r}'))
            return False
        before = cur.i
        ok = _slot(('count', 'f'), cur, problems, mentions, cmd, pos + 1)
        if ok:
            mentions.append(('cbus', 'use', idx, cur.i - before - 1))
        return ok
    v = cur.take()
    if typ == 'i':
        if not _is_int(v):
            what = 'int-slot-has-float' if isinstance(v, float) else 'expected-int'
            problems.append((f'{cmd}/arg-type/{what}', f'arg {pos}: {v!r}'))
        elif role == 'range' and not (slot[2] <= v <= slot[3]):
            problems.append((f'{cmd}/arg-range', f'arg {pos}: {v!r}'))
    elif typ == 'f':
        if not _is_num(v):
            problems.append((f'{cmd}/arg-type/expected-number', f'arg {pos}: {v!r}'))
    elif typ == 's':
        if not isinstance(v, str):
            problems.append((f'{cmd}/arg-type/expected-string', f'arg {pos}: {v!r}'))
        elif role == 'oneof' and v not in ONEOF[slot[2]]:
            problems.append((f'{cmd}/arg-value/unknown-{slot[2]}-format',
                             f'arg {pos}: {v!r}'))
    elif typ == 'b':
        if not isinstance(v, bytes):
            problems.append((f'{cmd}/arg-type/expected-bytes', f'arg {pos}: {v!r}'))
    elif typ == 'ctl':
        if not (_is_int(v) or isinstance(v, str)):
            what = ('control-slot-has-array' if isinstance(v, list) else
                    'control-slot-has-float' if isinstance(v, float) else
                    'control-slot-bad-type')
            problems.append((f'{cmd}/arg-type/{what}', f'arg {pos}: {v!r}'))
    elif typ == 'val':
        if not _val_ok(v, mentions):
            what = ('value-slot-has-blob' if isinstance(v, bytes)
                    else 'value-slot-bad-type')
            problems.append((f'{cmd}/arg-type/{what}', f'arg {pos}: {v!r}'))
    elif typ == 'flag':
        if not _is_int(v):
            problems.append((f'{cmd}/arg-type/flag-not-int', f'arg {pos}: {v!r}'))
        elif v not in (0, 1):
            problems.append((f'{cmd}/arg-range/flag-not-0-or-1', f'arg {pos}: {v!r}'))
    elif typ == 'genflags':
        if not _is_int(v):
            problems.append((f'{cmd}/arg-type/flags-not-int', f'arg {pos}: {v!r}'))
        elif not 0 <= v <= 7:
            problems.append((f'{cmd}/arg-range/flags', f'arg {pos}: {v!r}'))
    elif typ == 'aa':
        if not _is_int(v):
            problems.append((f'{cmd}/arg-type/add-action-not-int', f'arg {pos}: {v!r}'))
        elif not 0 <= v <= 4:
            problems.append((f'{cmd}/arg-range/add-action', f'arg {pos}: {v!r}'))
    elif typ in ('node', 'buf'):
        if not _is_int(v):
            problems.append((f'{cmd}/arg-type/{typ}-id-not-int', f'arg {pos}: {v!r}'))
        else:
            mentions.append((typ, role, v, 1))
    elif typ in ('cbus1', 'abus1'):
        if not _is_int(v):
            problems.append((f'{cmd}/arg-type/bus-index-not-int', f'arg {pos}: {v!r}'))
        else:
            mentions.append((typ[:4], role, v, 1))
    elif typ in ('cbusn', 'abusn'):       # index then count
        if not _is_int(v):
            problems.append((f'{cmd}/arg-type/bus-index-not-int', f'arg {pos}: {v!r}'))
        if not cur.more():
            problems.append((f'{cmd}/too-few-arguments', 'missing bus count'))
            return False
        n = cur.take()
        if not _is_int(n):
            problems.append((f'{cmd}/arg-type/bus-count-not-int', f'arg {pos + 1}: {n!r}'))
        elif _is_int(v):
            mentions.append((typ[:4], role, v, n))
    else:
        raise AssertionError(slot)
    return True


def _completion(cur, problems, mentions, cmd, depth):
    """Optional trailing completion message."""
    if not cur.more():
        return
    v = cur.take()
    if _is_int(v) and v == 0:
        return                      # sclang's spelling of "no completion message"
    if not isinstance(v, bytes):
        problems.append((f'{cmd}/completion-not-a-message', f'{v!r}'))
        return
    try:
        inner = osc.decode(v)
    except osc.OscError as e:
        problems.append((f'{cmd}/completion-blob-not-osc', str(e)))
        return
    if depth > 4:
        problems.append((f'{cmd}/completion-nesting-too-deep', ''))
        return
    for m in flatten(inner):
        p, mm = check(m, depth + 1)
        problems.extend((f'{cmd}/completion:{k}', d) for k, d in p)
        mentions.extend(mm)


def flatten(packet):
    """Messages of a decoded packet in order (bundles flattened)."""
    if isinstance(packet, osc.Msg):
        return [packet]
    out = []
    for e in packet.elements:
        out.extend(flatten(e))
    return out


def check(msg, depth=0):
    cmd = msg.addr
    problems, mentions = [], []
    spec = COMMANDS.get(cmd)
    if spec is None:
        return [('unknown-command', cmd)], mentions
    cur = _Cursor(msg.args)
    pos = 0
    for slot in spec.head:
        if not _slot(slot, cur, problems, mentions, cmd, cur.i):
            return problems, mentions
    if spec.special == 'any' or spec.special == 'anytail':
        return problems, mentions
    if spec.special == 'notify':
        if cur.more():
            _slot('i', cur, problems, mentions, cmd, cur.i)
    if spec.special == 'b_gen':
        gen = msg.args[1] if len(msg.args) > 1 and isinstance(msg.args[1], str) else None
        g = B_GEN.get(gen)
        if g is None:
            # plug-in defined fill command: nothing more can be said
            mentions.append(('bgen-unknown', 'use', 0, 0))
            return problems, mentions
        head, group = g
        for slot in head:
            if not _slot(slot, cur, problems, mentions, f'{cmd}:{gen}', cur.i):
                return problems, mentions
        if group:
            while cur.more():
                if cur.left() < len(group):
                    problems.append((f'{cmd}:{gen}/incomplete-group',
                                     f'{cur.left()} trailing of {len(group)}'))
                    break
                for slot in group:
                    _slot(slot, cur, problems, mentions, f'{cmd}:{gen}', cur.i)
        if cur.more() and not group:
            problems.append((f'{cmd}:{gen}/too-many-arguments', f'{cur.left()} extra'))
        return problems, mentions
    ngroups = 0
    if spec.group:
        glen = len(spec.group)
        while cur.more():
            if spec.completion and cur.left() == 1 and (
                    isinstance(cur.peek(), bytes)):
                break
            if spec.completion and isinstance(cur.peek(), bytes):
                break
            start = cur.i
            ok = True
            for slot in spec.group:
                if not cur.more():
                    problems.append((f'{cmd}/incomplete-group',
                                     f'group of {glen} cut after {cur.i - start}'))
                    ok = False
                    break
                if not _slot(slot, cur, problems, mentions, cmd, cur.i):
                    ok = False
                    break
            if not ok:
                return problems, mentions
            ngroups += 1
        if ngroups < spec.min_groups:
            problems.append((f'{cmd}/too-few-arguments',
                             f'needs at least {spec.min_groups} group(s)'))
    if spec.completion:
        _completion(cur, problems, mentions, cmd, depth)
    if cur.more():
        problems.append((f'{cmd}/too-many-arguments',
                         f'{cur.left()} extra: {cur.a[cur.i:][:4]!r}'))
    return problems, mentions


def selftest():
    M = osc.Msg

    def ok(addr, *args):
        p, m = check(M(addr, '', list(args)))
        assert not p, (addr, args, p)
        return m

    def bad(addr, *args):
        p, m = check(M(addr, '', list(args)))
        assert p, (addr, args)
        return p

    assert ok('/s_new', 'default', 1000, 0, 1, 'freq', 440.0, 3, [1, 2.0, 'c3']) == [
        ('node', 'new', 1000, 1), ('node', 'use', 1, 1), ('cbus', 'usesym', 3, 1)]
    assert ok('/n_set', 1000, 'in', 'a12', 'freq', ['c0', 'x1']) == [
        ('node', 'use', 1000, 1), ('abus', 'usesym', 12, 1), ('cbus', 'usesym', 0, 1)]
    assert ok('/n_setn', 1000, 'freq', 2, 'c7', 1.0) == [
        ('node', 'use', 1000, 1), ('cbus', 'usesym', 7, 1)]
    ok('/s_new', 'default', -1, 4, 1)
    bad('/s_new', 'default', 1000, 5, 1)
    bad('/s_new', 'default', 1000, 0, 1, 'freq')
    bad('/s_new', 'default', 1000, 0, 1, ['freq', 1])
    bad('/s_new', 'default', 1000, 0, 1, 'freq', b'c1\0\0')
    bad('/s_new', 1000, 'default', 0, 1)
    ok('/n_set', 1000, 'gate', -3)
    ok('/n_setn', 1000, 'freq', 2, 1.0, 2.0, 3, 1, 0.5)
    bad('/n_setn', 1000, 'freq', 3, 1.0, 2.0)
    ok('/n_mapn', 1000, 'freq', 0, 2, 2, 5, 1)
    bad('/n_mapn', 1000, 'freq', 0)
    ok('/n_run', 1000, 0, 1001, 1)
    bad('/n_run', 1000, 2)
    bad('/n_run', 1000)
    ok('/g_new', 1000, 0, 1, 1001, 3, 1000)
    bad('/g_new', 1000, 0)
    ok('/b_alloc', 0, 1024, 2)
    ok('/b_alloc', 0, 1024, 2, 0)
    ok('/b_alloc', 0, 1024, 2, osc.enc_msg('/b_query', 0))
    bad('/b_alloc', 0, 1024, 2, osc.enc_msg('/b_bogus', 0))
    bad('/b_alloc', 0, 1024, 2, b'junk')
    bad('/b_alloc', 0, 1024.0, 2)
    bad('/b_alloc', 0, 1024, 2, 0, 0)
    ok('/b_read', 0, '/x.wav', 0, -1, 0, 1, 0)
    bad('/b_read', 0, '/x.wav', 10, 0, 1, 1024, 0)      # leaveOpen = 1024
    ok('/b_readChannel', 0, '/x.wav', 0, -1, 0, 0, 1, 2, osc.enc_msg('/b_query', 0))
    ok('/b_write', 0, '/x.aiff', 'aiff', 'int24', -1, 0, 0, 0)
    bad('/b_write', 0, '/x.aiff', 'int24', 'aiff', -1, 0, 0)
    ok('/b_free', 3)
    ok('/b_free', 3, 0)
    ok('/b_setn', 0, 0, 3, 1, 2, 3, 8, 1, 0.5)
    bad('/b_setn', 0, 0, 3, 1, 2)
    ok('/b_fill', 0, 0, 4, 0.5, 4, 2, 0.25)
    bad('/b_fill', 0, 0, 4, 0.5, 4)
    ok('/b_gen', 0, 'sine2', 7, 1, 0.5, 2, 0.25)
    bad('/b_gen', 0, 'sine2', 7, 1, 0.5, 2)
    bad('/b_gen', 0, 'sine1', 8, 1)
    ok('/b_gen', 0, 'copy', 0, 1, 0, -1)
    ok('/b_gen', 0, 'normalize', 1)
    ok('/c_set', 0, 1, 1, 2.0)
    ok('/c_setn', 4, 2, 0.5, 0.25)
    assert ok('/c_fill', 4, 2, 0) == [('cbus', 'use', 4, 2)]
    ok('/n_order', 1, 1, 1000, 1001)
    bad('/nope', 1)
    return True
