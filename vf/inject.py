"""Schedule / fault injection with sys.monitoring (CPython 3.12).

LINE events are enabled only on an explicit list of code objects (the clock
loops and scheduling functions), so the cost stays local.  Three modes, all of
which only *delay* a thread at a statement boundary or raise at one - threads
are preemptive, so no interleaving is produced that the program could not
have:

  random yield   with probability p a thread sleeps 0 / 50us-2ms at a line
  park-one       the next arrival of a chosen thread at (code, line) blocks
                 until released (or a timeout), signalling the driver
  count          lines hit per code object (evidence: which points were reached)
"""

import random
import sys
import threading
import time

TOOL = 4
_mon = sys.monitoring


class Park:
    def __init__(self, code, line, thread_pred, hold=0.05, nth=1):
        self.code, self.line = code, line
        self.thread_pred = thread_pred
        self.hold = hold
        self.nth = nth
        self.reached = threading.Event()
        self.release = threading.Event()
        self.done = False
        self.thread = None
        self.prev_line = None


class Injector:
    def __init__(self, codes, seed=0):
        self.codes = list(dict.fromkeys(codes))
        self.rng = random.Random(seed)
        self.p_yield = 0.0
        self.max_sleep = 0.002
        self.parks = []
        self.hits = {}
        self.active = False
        self.injected = 0
        self._last = {}     # thread id -> (code, last line)   (GIL-atomic dict ops)

    def start(self):
        _mon.use_tool_id(TOOL, 'vf-inject')
        _mon.register_callback(TOOL, _mon.events.LINE, self._on_line)
        for c in self.codes:
            _mon.set_local_events(TOOL, c, _mon.events.LINE)
        self.active = True

    def stop(self):
        self.active = False
        for p in self.parks:
            p.release.set()
        for c in self.codes:
            try:
                _mon.set_local_events(TOOL, c, 0)
            except Exception:
                pass
        _mon.register_callback(TOOL, _mon.events.LINE, None)
        _mon.free_tool_id(TOOL)

    def arm(self, park):
        self.parks.append(park)
        return park

    def disarm_all(self):
        for p in self.parks:
            p.done = True
            p.release.set()
        self.parks = []

    def _on_line(self, code, line):
        if not self.active:
            return
        key = (code.co_qualname, line)
        self.hits[key] = self.hits.get(key, 0) + 1
        tid = threading.get_ident()
        prev = self._last.get(tid)
        self._last[tid] = (code, line)
        if self.parks:
            th = threading.current_thread()
            for p in self.parks:
                if p.done or p.code is not code or p.line != line:
                    continue
                if not p.thread_pred(th):
                    continue
                p.nth -= 1
                if p.nth > 0:
                    continue
                p.done = True
                p.thread = th
                p.prev_line = prev[1] if prev and prev[0] is code else None
                p.reached.set()
                p.release.wait(p.hold)
                return
        if self.p_yield and self.rng.random() < self.p_yield:
            self.injected += 1
            if self.rng.random() < 0.5:
                time.sleep(0)
            else:
                time.sleep(self.rng.uniform(0.00005, self.max_sleep))


def code_lines(code):
    """Statement-start lines of a code object (those LINE events can fire on)."""
    lines = sorted({ln for _, _, ln in code.co_lines() if ln is not None})
    return [ln for ln in lines if ln != code.co_firstlineno]


def func_code(f):
    f = getattr(f, '__func__', f)
    f = getattr(f, 'fget', f) if isinstance(f, property) else f
    return f.__code__


class Burners:
    """CPU-burner threads to provoke GIL hand-offs and wake-up jitter."""

    def __init__(self, n):
        self.stop_flag = False
        self.threads = [threading.Thread(target=self._burn, daemon=True)
                        for _ in range(n)]

    def _burn(self):
        x = 0
        while not self.stop_flag:
            for i in range(2000):
                x = (x * 31 + i) % 1000003

    def start(self):
        for t in self.threads:
            t.start()

    def stop(self):
        self.stop_flag = True
        for t in self.threads:
            t.join(1)


class Failpoint:
    """Source-free failpoint: raises an exception at the n-th statement that the
    arming thread executes inside a given set of code objects (LINE events of
    sys.monitoring, own tool id).  count(): a dry pass that only counts."""

    TOOL = 5

    def __init__(self, codes):
        self.codes = list({id(c): c for c in codes}.values())
        self.n = 0
        self.nth = None
        self.exc = None
        self.tid = None
        self.fired_at = None

    def __enter__(self):
        _mon.use_tool_id(self.TOOL, 'vf-failpoint')
        _mon.register_callback(self.TOOL, _mon.events.LINE, self._on_line)
        for c in self.codes:
            _mon.set_local_events(self.TOOL, c, _mon.events.LINE)
        return self

    def __exit__(self, *a):
        self.nth = None
        for c in self.codes:
            try:
                _mon.set_local_events(self.TOOL, c, 0)
            except Exception:
                pass
        _mon.register_callback(self.TOOL, _mon.events.LINE, None)
        _mon.free_tool_id(self.TOOL)
        return False

    def arm(self, nth, exc):
        """nth None: count only."""
        self.n = 0
        self.nth = nth
        self.exc = exc
        self.tid = threading.get_ident()
        self.fired_at = None

    def disarm(self):
        self.tid = None

    def _on_line(self, code, line):
        if self.tid != threading.get_ident():
            return
        self.n += 1
        if self.nth is not None and self.n == self.nth:
            self.tid = None
            self.fired_at = (code.co_qualname, line)
            raise self.exc


def module_codes(mods, exclude=()):
    """All code objects (nested ones included) defined in the given modules,
    without those whose qualified name is in `exclude`."""
    import types
    out = {}

    def add_code(c):
        if c.co_qualname in exclude or id(c) in out:
            return
        out[id(c)] = c
        for k in c.co_consts:
            if isinstance(k, types.CodeType):
                add_code(k)

    def walk(obj, modname, depth=0):
        if isinstance(obj, (staticmethod, classmethod)):
            obj = obj.__func__
        if isinstance(obj, property):
            for f in (obj.fget, obj.fset, obj.fdel):
                if f is not None:
                    walk(f, modname, depth)
            return
        if isinstance(obj, types.FunctionType):
            if obj.__module__ == modname:
                add_code(obj.__code__)
            return
        if isinstance(obj, type) and obj.__module__ == modname and depth < 4:
            for v in vars(obj).values():
                walk(v, modname, depth + 1)
    for m in mods:
        for v in list(vars(m).values()):
            walk(v, m.__name__)
    return list(out.values())
