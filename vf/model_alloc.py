"""Reference models for C16 (does NOT import sc3).

BitmapModel
    The meaning of "safe and complete contiguous index allocation" written
    directly from the property statement: a partition is the absolute address
    interval [offset + reserved, offset + size); one boolean per address says
    "live".  The model never *chooses* an address, it only *judges* the answer
    of the implementation, so every correct answer (any placement, any internal
    random tie-break) is accepted:

      alloc(n) -> a      is fine iff [a, a+n) lies inside the partition and no
                         address of it is live;
      alloc(n) -> None   is fine iff the partition has no run of n free
                         addresses (freed neighbours count as one run: the
                         bitmap has no block structure, so "merged with their
                         free neighbours" is built in);
      free(a)            releases the live range that starts at a; anything
                         else (double free, unknown / interior / reserved
                         address, None) must leave the live set unchanged.

NodeIdModel
    Node ids of client `user` with first temporary id `first`:
      * the id window is W = 2**26 - first ids long (SuperCollider convention:
        26 bits per client, client number in the bits above; ids below `first`
        are permanent ids and never handed out),
      * any W consecutive allocations are pairwise distinct,
      * every id lies in [user * 2**26 + first, (user + 1) * 2**26).
"""

from collections import deque

ID_BITS = 26
ID_SPAN = 1 << ID_BITS


class Verdict:
    """Result of judging one answer: ok or (mechanism, detail)."""
    __slots__ = ('ok', 'mech', 'detail')

    def __init__(self, ok=True, mech=None, detail=None):
        self.ok, self.mech, self.detail = ok, mech, detail

    def __bool__(self):
        return self.ok


OK = Verdict()


class BitmapModel:
    def __init__(self, size, reserved=0, offset=0):
        self.size = size
        self.reserved = reserved
        self.offset = offset
        self.lo = offset + reserved          # first allocatable address
        self.hi = offset + size              # one past the last one
        self.used = [False] * (self.hi - self.lo)
        self.live = {}                       # start -> length

    # ---- queries -----------------------------------------------------
    def longest_free_run(self):
        best = cur = 0
        for u in self.used:
            if u:
                cur = 0
            else:
                cur += 1
                if cur > best:
                    best = cur
        return best

    def free_run_at_least(self, n):
        cur = 0
        for u in self.used:
            if u:
                cur = 0
            else:
                cur += 1
                if cur >= n:
                    return True
        return False

    def free_count(self):
        return self.used.count(False)

    def live_set(self):
        return set(self.live.items())

    # ---- judging -----------------------------------------------------
    def judge_alloc(self, n, answer):
        """Validates the implementation's answer to alloc(n) and, when it is
        acceptable, records it."""
        if answer is None:
            if self.free_run_at_least(n):
                return Verdict(False, 'no-space-but-free-run-exists',
                               f'alloc({n}) -> None, longest free run '
                               f'{self.longest_free_run()}')
            return OK
        if isinstance(answer, bool) or not isinstance(answer, int):
            return Verdict(False, 'answer-not-an-address',
                           f'alloc({n}) -> {answer!r}')
        a = answer
        if a < self.lo or a + n > self.hi:
            where = ('reserved-zone' if self.offset <= a < self.lo
                     else 'outside-partition')
            return Verdict(False, f'range-leaves-partition/{where}',
                           f'alloc({n}) -> {a}, partition [{self.lo}, {self.hi})')
        for k in range(a - self.lo, a - self.lo + n):
            if self.used[k]:
                return Verdict(False, 'range-overlaps-live',
                               f'alloc({n}) -> {a} overlaps live address '
                               f'{k + self.lo}')
        for k in range(a - self.lo, a - self.lo + n):
            self.used[k] = True
        self.live[a] = n
        return OK

    def free(self, addr):
        """Returns True when addr was the start of a live range."""
        n = self.live.pop(addr, None) if addr is not None else None
        if n is None:
            return False
        for k in range(addr - self.lo, addr - self.lo + n):
            self.used[k] = False
        return True

    def judge_blocks(self, blocks):
        """blocks: iterable of (start, size) the implementation reports live."""
        got = set(blocks)
        exp = self.live_set()
        if got == exp:
            return OK
        missing = sorted(exp - got)[:4]
        extra = sorted(got - exp)[:4]
        mech = ('live-set-differs/lost-live-block' if missing and not extra else
                'live-set-differs/phantom-block' if extra and not missing else
                'live-set-differs/both')
        return Verdict(False, mech, f'missing {missing} extra {extra}')


class NodeIdModel:
    def __init__(self, user, first):
        self.user = user
        self.first = first
        self.window = ID_SPAN - first
        self.lo = user * ID_SPAN + first
        self.hi = (user + 1) * ID_SPAN          # exclusive
        self.recent = deque()
        self.recent_set = set()
        self.count = 0
        self.wraps = 0
        self.last = None
        self.min_id = None
        self.max_id = None

    def judge(self, nid):
        self.count += 1
        if isinstance(nid, bool) or not isinstance(nid, int):
            return Verdict(False, 'id-not-an-int', repr(nid))
        if not (self.lo <= nid < self.hi):
            mech = ('id-in-permanent-zone'
                    if self.user * ID_SPAN <= nid < self.lo
                    else 'id-outside-client-range')
            return Verdict(False, mech,
                           f'id {nid} not in [{self.lo}, {self.hi}) '
                           f'(user {self.user})')
        if nid in self.recent_set:
            return Verdict(False, 'id-repeats-within-window',
                           f'id {nid} handed out again after '
                           f'{len(self.recent)} <= window {self.window} '
                           'allocations')
        self.min_id = nid if self.min_id is None else min(self.min_id, nid)
        self.max_id = nid if self.max_id is None else max(self.max_id, nid)
        if self.last is not None and nid < self.last:
            self.wraps += 1
        self.last = nid
        self.recent.append(nid)
        self.recent_set.add(nid)
        if len(self.recent) >= self.window:
            old = self.recent.popleft()
            self.recent_set.discard(old)
        return OK


def selftest():
    m = BitmapModel(16, 2, 32)
    assert m.lo == 34 and m.hi == 48
    assert m.judge_alloc(7, 34)
    assert not m.judge_alloc(3, 40)            # overlaps
    assert not m.judge_alloc(3, 33)            # reserved zone
    assert not m.judge_alloc(8, 41)            # leaves the partition
    assert m.judge_alloc(7, 41)
    assert m.judge_alloc(1, None)              # really full
    assert m.free(34) and not m.free(34) and not m.free(35)
    assert not m.judge_alloc(7, None)          # run of 7 exists
    assert m.judge_blocks([(41, 7)])
    assert not m.judge_blocks([(41, 7), (34, 7)])
    n = NodeIdModel(1, ID_SPAN - 3)
    base = ID_SPAN
    assert n.judge(base + ID_SPAN - 3) and n.judge(base + ID_SPAN - 2)
    assert n.judge(base + ID_SPAN - 1)
    assert n.judge(base + ID_SPAN - 3)         # window of 3 elapsed
    assert not n.judge(base + ID_SPAN - 3)     # repeats inside the window
    assert not NodeIdModel(1, 1000).judge(1000)
    return True
