"""Shared real-time harness: event log, physical-clock sanity watchdog.

Used by the RT shards of C05/C07/C08/C10/C11.  Imports sc3 lazily (workers
have initialised it already).
"""

import os
import itertools
import threading
import time
from collections import deque


class Log:
    """Thread-safe append-only event log.  Events are tuples whose first
    element is a global sequence number taken from one itertools.count()
    (a single C call: atomic under the GIL)."""

    def __init__(self):
        self._seq = itertools.count()
        self.events = deque()

    def seq(self):
        return next(self._seq)

    def add(self, *fields):
        s = next(self._seq)
        self.events.append((s,) + fields)
        return s


class HostWatch(threading.Thread):
    """Measures how badly this process is starved and whether time.time()
    steps against time.monotonic() (sc3 keeps time with time.time()).  A run
    in which the watchdog itself overslept by > max_oversleep or the wall
    clock stepped is *inconclusive* for physical-time predicates."""

    def __init__(self, period=0.01):
        super().__init__(daemon=True, name='vf-hostwatch')
        self.period = period
        self.stop_flag = False
        self.max_oversleep = 0.0
        self.max_step = 0.0
        self.samples = 0
        self.max_load = 0.0        # 1-minute load average per core, highest seen

    @property
    def overloaded(self):
        """More than two runnable processes per core: how late a thread of this
        process comes to run says nothing about the library then."""
        self._sample_load()
        return self.max_load > 2.0

    def _sample_load(self):
        try:
            ld = os.getloadavg()[0] / (os.cpu_count() or 1)
        except OSError:
            return
        if ld > self.max_load:
            self.max_load = ld

    def run(self):
        t_m = time.monotonic()
        t_w = time.time()
        while not self.stop_flag:
            time.sleep(self.period)
            m = time.monotonic()
            w = time.time()
            over = (m - t_m) - self.period
            step = abs((w - t_w) - (m - t_m))
            if over > self.max_oversleep:
                self.max_oversleep = over
            if step > self.max_step:
                self.max_step = step
            t_m, t_w = m, w
            self.samples += 1
            if self.samples % 100 == 1:
                self._sample_load()

    def reset(self):
        self.max_oversleep = 0.0
        self.max_step = 0.0
        self.max_load = 0.0

    def stop(self):
        self.stop_flag = True


def clock_name(clock):
    n = getattr(clock, '__name__', None)
    if n:
        return n
    return f'TempoClock#{getattr(clock, "_vf_id", id(clock))}'
