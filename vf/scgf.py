"""Independent strict SCgf version-2 parser (does NOT import sc3).

Written from the SuperCollider "Synth Definition File Format" document:

  int32 "SCgf", int32 version (2), int16 number of definitions, then per
  definition: pstring name; int32 K, float32*K constants; int32 P, float32*P
  parameter defaults; int32 N, (pstring name, int32 index)*N; int32 U,
  ugen-spec*U; int16 V, (pstring name, float32*P)*V.
  ugen-spec: pstring class, int8 rate, int32 I, int32 O, int16 special index,
  (int32 ugen index | -1, int32 output index | constant index)*I, int8*O.

parse() consumes exactly all bytes and validates every index against what has
been read so far (inputs must refer to an existing constant or to an existing
output of a unit placed strictly earlier).
"""

import struct


class ScgfError(Exception):
    pass


class Unit:
    __slots__ = ('index', 'cls', 'rate', 'special', 'inputs', 'out_rates')

    def __init__(self, index, cls, rate, special, inputs, out_rates):
        self.index = index
        self.cls = cls
        self.rate = rate          # 0 scalar, 1 control, 2 audio, 3 demand
        self.special = special
        self.inputs = inputs      # list of ('c', const_index) | ('u', unit, out)
        self.out_rates = out_rates

    def __repr__(self):
        return (f'Unit({self.index}, {self.cls}, rate={self.rate}, '
                f'sp={self.special}, in={self.inputs}, out={self.out_rates})')


class Def:
    __slots__ = ('name', 'constants', 'params', 'param_names', 'units',
                 'variants')

    def describe(self):
        return {'name': self.name, 'constants': self.constants,
                'params': self.params, 'param_names': self.param_names,
                'units': [repr(u) for u in self.units],
                'variants': self.variants}


class _R:
    def __init__(self, b):
        self.b = bytes(b)
        self.i = 0

    def take(self, n, what):
        if self.i + n > len(self.b):
            raise ScgfError(f'truncated while reading {what} at {self.i}')
        v = self.b[self.i:self.i + n]
        self.i += n
        return v

    def i8(self, w): return struct.unpack('>b', self.take(1, w))[0]
    def i16(self, w): return struct.unpack('>h', self.take(2, w))[0]
    def i32(self, w): return struct.unpack('>i', self.take(4, w))[0]
    def f32(self, w): return struct.unpack('>f', self.take(4, w))[0]

    def pstr(self, w):
        n = self.take(1, w + ' length')[0]
        raw = self.take(n, w)
        try:
            return raw.decode('ascii')
        except UnicodeDecodeError as e:
            raise ScgfError(f'{w}: non-ASCII pstring {raw!r}') from e


def parse(b, single=True):
    r = _R(b)
    if r.take(4, 'magic') != b'SCgf':
        raise ScgfError('bad magic')
    ver = r.i32('version')
    if ver != 2:
        raise ScgfError(f'version {ver} != 2')
    nd = r.i16('definition count')
    if nd < 0 or (single and nd != 1):
        raise ScgfError(f'definition count {nd}')
    defs = [_def(r) for _ in range(nd)]
    if r.i != len(r.b):
        raise ScgfError(f'{len(r.b) - r.i} trailing bytes')
    return defs[0] if single else defs


def _def(r):
    d = Def()
    d.name = r.pstr('definition name')
    k = r.i32('constant count')
    if k < 0:
        raise ScgfError('negative constant count')
    d.constants = [r.f32('constant') for _ in range(k)]
    p = r.i32('parameter count')
    if p < 0:
        raise ScgfError('negative parameter count')
    d.params = [r.f32('parameter') for _ in range(p)]
    n = r.i32('parameter name count')
    if n < 0:
        raise ScgfError('negative parameter name count')
    d.param_names = []
    for _ in range(n):
        nm = r.pstr('parameter name')
        ix = r.i32('parameter index')
        if not (0 <= ix < max(p, 1)) or (p == 0):
            raise ScgfError(f'parameter name {nm!r} index {ix} outside 0..{p}')
        d.param_names.append((nm, ix))
    u = r.i32('unit count')
    if u < 0:
        raise ScgfError('negative unit count')
    d.units = []
    for ui in range(u):
        cls = r.pstr('unit class')
        if not cls:
            raise ScgfError(f'unit {ui}: empty class name')
        rate = r.i8('unit rate')
        if rate not in (0, 1, 2, 3):
            raise ScgfError(f'unit {ui} {cls}: rate {rate}')
        ni = r.i32('input count')
        no = r.i32('output count')
        if ni < 0 or no < 0:
            raise ScgfError(f'unit {ui} {cls}: negative counts')
        sp = r.i16('special index')
        ins = []
        for k_ in range(ni):
            a = r.i32('input unit index')
            c = r.i32('input output/constant index')
            if a == -1:
                if not (0 <= c < len(d.constants)):
                    raise ScgfError(
                        f'unit {ui} {cls} input {k_}: constant {c} does not exist')
                ins.append(('c', c))
            else:
                if not (0 <= a < ui):
                    raise ScgfError(
                        f'unit {ui} {cls} input {k_}: refers to unit {a} '
                        f'(not strictly earlier)')
                if not (0 <= c < len(d.units[a].out_rates)):
                    raise ScgfError(
                        f'unit {ui} {cls} input {k_}: output {c} of unit {a} '
                        f'({d.units[a].cls}) does not exist')
                ins.append(('u', a, c))
        outs = []
        for _ in range(no):
            orate = r.i8('output rate')
            if orate not in (0, 1, 2, 3):
                raise ScgfError(f'unit {ui} {cls}: output rate {orate}')
            outs.append(orate)
        d.units.append(Unit(ui, cls, rate, sp, ins, outs))
    v = r.i16('variant count')
    if v < 0:
        raise ScgfError('negative variant count')
    d.variants = []
    for _ in range(v):
        nm = r.pstr('variant name')
        vals = [r.f32('variant value') for _ in range(p)]
        d.variants.append((nm, vals))
    return d


def selftest():
    # hand-assembled: def "a", constants [0.0, 440.0], no params,
    # units: SinOsc.ar(440, 0) ; Out.ar(0, sin)
    def ps(s): return bytes([len(s)]) + s.encode()
    b = (b'SCgf' + struct.pack('>ih', 2, 1) + ps('a')
         + struct.pack('>i', 2) + struct.pack('>ff', 0.0, 440.0)
         + struct.pack('>i', 0) + struct.pack('>i', 0)
         + struct.pack('>i', 2)
         + ps('SinOsc') + struct.pack('>biih', 2, 2, 1, 0)
         + struct.pack('>iiii', -1, 1, -1, 0) + struct.pack('>b', 2)
         + ps('Out') + struct.pack('>biih', 2, 2, 0, 0)
         + struct.pack('>iiii', -1, 0, 0, 0)
         + struct.pack('>h', 0))
    d = parse(b)
    assert d.name == 'a' and d.constants == [0.0, 440.0]
    assert d.units[1].inputs == [('c', 0), ('u', 0, 0)]
    for bad in (b[:-1], b + b'\0', b.replace(struct.pack('>iiii', -1, 0, 0, 0),
                                              struct.pack('>iiii', -1, 0, 1, 0)),
                b.replace(struct.pack('>iiii', -1, 1, -1, 0),
                          struct.pack('>iiii', -1, 2, -1, 0))):
        try:
            parse(bad)
        except ScgfError:
            continue
        raise AssertionError('accepted malformed definition')
    return True
