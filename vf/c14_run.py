"""C14 harness: builds real sc3 objects from specs, plays them in NRT mode,
captures the score (`main.process()` -> .raw decoded by vf.osc, and .list) and
compares it with the expectations derived from vf/model_events.py.

sc3 is imported lazily (inside functions): the property module must stay
importable without it."""

import logging

from vf import osc
from vf import model_events as me

REL = 1e-9          # relative tolerance of the key chains (DESIGN.md C14)
TT = float(1 << 32)


def close(a, b, rel=REL, abs_=1e-12):
    if a == b:          # also equal infinities
        return True
    return abs(a - b) <= rel * max(abs(a), abs(b)) + abs_


def _close32(got, exp):
    """got was read back from an OSC float32 slot: compare with the float32
    rounding of the model value; the 1e-9 relative slack of the chain may move
    the double across one float32 rounding boundary, hence one float32 ulp."""
    e = osc.f32(exp)
    if got == e:
        return True
    return abs(got - e) <= abs(e) * 2.0 ** -23 + 1e-9 * abs(e) + 1e-30


# ------------------------------------------------------------------ sc3 side

class PlayerErrors(logging.Handler):
    """Exceptions of tasks woken by the NRT scheduler are logged by
    sc3.base.clock; this handler is the observation point."""

    def __init__(self):
        super().__init__(level=logging.ERROR)
        self.records = []

    def emit(self, record):
        exc = record.exc_info[1] if record.exc_info else None
        self.records.append((record.getMessage(), exc))


_errors = None


def setup_logging():
    global _errors
    if _errors is None:
        _errors = PlayerErrors()
        lg = logging.getLogger('sc3.base.clock')
        lg.setLevel(logging.ERROR)
        lg.addHandler(_errors)
        lg.propagate = False
    return _errors


def build_instruments(insts):
    from sc3.base.main import main
    from sc3.synth.synthdef import SynthDef
    from sc3.synth.synthdesc import SynthDescLib
    from sc3.synth import ugens  # noqa
    from sc3.synth.ugens import Out, DC
    info = {}
    for ins in insts:
        args = ', '.join(f'{n}={d!r}' for n, d in ins['controls'])
        body = ' + '.join(n for n, _ in ins['controls'])
        src = (f'def _f({args}):\n'
               f'    Out.ar(0, DC.ar(0) * ({body}))\n')
        ns = {'Out': Out, 'DC': DC}
        exec(src, ns)
        sd = SynthDef(ins['name'], ns['_f'], variants=ins.get('variants'))
        sd.add()
        desc = SynthDescLib.default.at(ins['name'])
        names = [n for n, _ in ins['controls']]
        # harness self-check (not a verdict about the property)
        assert list(desc.control_names) == names, (desc.control_names, names)
        assert bool(desc.has_gate) == ins['gate']
        info[ins['name']] = {'controls': names, 'gate': ins['gate'],
                             'variants': bool(ins.get('variants'))}
    main.reset()
    return info


_scale_cache = {}


def to_scale(spec):
    from sc3.seq.scale import Scale, Tuning
    if spec['tuning'] is None:
        return Scale(spec['degrees'])
    return Scale(spec['degrees'],
                 Tuning(spec['tuning'], spec['ratio'], name=spec['kind']))


class Unencodable:
    """A value no OSC message can carry (fault histories)."""

    def __repr__(self):
        return 'Unencodable()'


def _fault_value(v):
    """The real value of a {'fn': ...} / {'bad': ...} spec."""
    if me.is_fn_value(v):
        key, mul, add = v['key'], v['mul'], v['add']
        if v['fn'] == 'item':
            return lambda e: e[key] * mul + add
        return lambda e: e(key) * mul + add
    b = v['bad']
    if b == 'fn-raises':
        exc = {'ZeroDivisionError': ZeroDivisionError, 'ValueError': ValueError,
               'LookupError': LookupError, 'RuntimeError': RuntimeError}[v['exc']]

        def fn(e):
            raise exc('c14 injected fault')
        return fn
    if b.startswith('str-'):
        return b[4:]
    if b.startswith('int-'):
        return int(b[4:])
    return {'object': Unencodable, 'complex': lambda: 1j,
            'set': lambda: {1, 2}, 'bytes': lambda: b'ab',
            'bigint': lambda: 2 ** 40, 'none': lambda: None}[b]()


def to_value(v, groups=None):
    from sc3.seq.event import Rest
    if me.is_fn_value(v) or me.is_bad_value(v):
        return _fault_value(v)
    if me.is_rest_value(v):
        return Rest(v['rest'])
    if me.is_row_value(v):
        # the value of a key set: one list (or tuple) per event
        row = [to_value(x, groups) for x in v['row']]
        return tuple(row) if v.get('as') == 'tuple' else row
    if isinstance(v, dict) and 'degrees' in v:
        # a scale spec as the value of a Pbind column (round 10)
        return to_scale(v)
    if isinstance(v, str) and v == 'groupobj':
        return groups['obj']
    if isinstance(v, str) and v == 'inf':
        return float('inf')
    return v


def to_event_dict(spec, groups=None):
    out = {}
    for k, v in spec.items():
        if k == 'scale':
            if me.is_bad_value(v):
                out[k] = _fault_value(v)
            elif v is not None:
                out[k] = to_scale(v)
        elif k == 'group':
            out[k] = to_value(v, groups)
        else:
            out[k] = to_value(v)
    return out


def apply_mutation(e, op, groups=None):
    """Perform the edit `op` (see model_events.apply_mutation) on the real
    event object with the dict method the op names; returns the object."""
    m = op['m']
    st = to_event_dict(op.get('set') or {}, groups)
    dl = op.get('del') or []
    if m in ('clear', 'clear-update'):
        e.clear()
    if m == 'popitem':
        for _ in range(op.get('n', 1)):
            if e:
                e.popitem()
    if m == 'setdefault' and op.get('pop_assigned'):
        dl = list(dl) + [k for k in st if k not in dl]
    for k in dl:
        if m in ('setitem', 'delitem'):
            if k in e:
                del e[k]
        elif m == 'pop':
            if k in e:
                e.pop(k)
        else:
            e.pop(k, None)
    if not st:
        return e
    if m == 'setitem':
        for k, v in st.items():
            e[k] = v
    elif m == 'update-kw':
        e.update(**st)
    elif m == 'update-pairs':
        e.update(list(st.items()))
    elif m == 'ior':
        e |= st
    elif m == 'setdefault':
        for k, v in st.items():
            e.setdefault(k, v)
    else:       # update-dict, update/pop, clear-update, popitem + update ...
        e.update(st)
    return e


def derive(e, how, st, groups=None):
    """A new event object made from `e` (and the keys `st`)."""
    import copy
    from sc3.seq.event import event
    kw = to_event_dict(st or {}, groups)
    if how == 'copy':
        new = e.copy()
    elif how == 'copy.copy':
        new = copy.copy(e)
    elif how == 'event(e)':
        new = event(e)
    elif how == 'event(**e)':
        new = event(**e)
    elif how == 'type(e)(e)':
        new = type(e)(e)
    elif how == 'event(e,**kw)':
        return event(e, **kw)
    elif how == 'event(e|d)':
        return event(e | kw)
    else:
        raise ValueError(how)
    if kw:
        new.update(kw)
    return new


def wanted_lookups(ev, res):
    """[(key, expected)] of the look-ups that the statement decides for the
    explicit key set `ev` (see the comments in vf/props/C14.py run_chain)."""
    wanted = [('delta', res.delta), ('sustain', res.sustain)]
    if res.rest:
        return wanted
    if not ('db' in ev and 'velocity' in ev and 'amp' not in ev):
        # (db together with velocity without amp: no documented precedence)
        wanted.append(('amp', res.amp))
    # `note` is compared only where its unit is unambiguous (12-ET);
    # reverse conversions (midinote/note from freq) are not in the statement
    plain = (ev.get('scale') or {}).get('tuning') is None
    if res.pitch_source != 'freq':
        if 'midinote' not in ev and plain:
            wanted.append(('note', res.note))
        wanted.append(('midinote', res.midinote))
    if me.num(ev.get('harmonic', 1)) == 1:
        wanted.append(('freq', res.freq))
    return wanted


def amp_reverse_lookups(ev, res):
    """[(key, expected, slack)] for the `db` and `velocity` look-ups of an
    event (the amplitude keys are three units of one quantity: amp =
    dbamp(db) = velocity / 127, an explicit key first): db = 20 log10(amp)
    (1e-9), velocity = 127 amp to less than one MIDI step (the rounding of a
    velocity is not documented).  None for rests and for db together with
    velocity without amp (no documented precedence)."""
    import math
    if res.rest or ('db' in ev and 'velocity' in ev and 'amp' not in ev):
        return []
    out = []
    if 'db' in ev:
        out.append(('db', me.num(ev['db']), 0.0))
    else:
        out.append(('db', 20.0 * math.log10(res.amp) if res.amp > 0
                    else -me.INF, 0.0))
    if 'velocity' in ev:
        out.append(('velocity', me.num(ev['velocity']), 0.0))
    else:
        out.append(('velocity', 127.0 * res.amp, 1.0))
    return out


PEEK_KEYS = ('freq', 'midinote', 'amp', 'sustain', 'delta')

# keys of the documented chains: after a play - failed or not - an event
# defines none of them unless the user gave it
CHAIN_KEYS = {'freq', 'midinote', 'note', 'degree', 'mtranspose', 'gtranspose',
              'root', 'octave', 'scale', 'ctranspose', 'harmonic', 'detune',
              'amp', 'db', 'velocity', 'dur', 'stretch', 'legato', 'sustain',
              'delta'}


def failure_phase(x):
    """Where a play() failed (evidence only)."""
    from vf.common import tb_sites
    sites = tb_sites(x)
    names = [f for _, f in sites]
    if '_get_msg_params' in names or '_default_msg_params' in names:
        return 'control-list'
    if '_detuned_freq' in names:
        return 'pitch-chain'
    if any(f in ('_as_osc_arg_list', 'node_param') for f in names):
        return 'message-encoder'
    if any(m.startswith(('_oscinterface', '_osclib', 'netaddr'))
           for m, _ in sites):
        return 'bundle-builder'
    return 'after-the-control-list'


def leftover_state(e, spec):
    """What a play left in the event object `e` whose user keys are `spec`
    (diagnosis of a later difference; not an oracle): chain keys the user
    never gave, number valued user keys that changed, a stored control list
    although the event never played."""
    left = sorted(k for k in e if k in CHAIN_KEYS and k not in spec)
    changed = []
    for k, v in spec.items():
        if isinstance(v, bool) or not isinstance(v, (int, float)):
            continue
        if k not in e or type(e[k]) is not type(v) or e[k] != v:
            changed.append(k)
    return {'left': left, 'changed': sorted(changed),
            'stale_list': 'msg_params' in e
            and not e.get('is_playing', False)}


_columns = {}       # column objects the caller built itself (repairable)


def to_valpattern(vs):
    from sc3.seq.patterns.listpatterns import Pseq, Pser
    from sc3.seq.patterns.valuepatterns import Pseries
    if not isinstance(vs, (list, tuple)):
        return to_value(vs)
    kind = vs[0]
    if kind == 'use-column':
        return _columns['column']
    if kind == 'seq':
        return Pseq([to_valpattern(x) for x in vs[1]], vs[2], vs[3])
    if kind == 'ser':
        return Pser([to_valpattern(x) for x in vs[1]], vs[2], vs[3])
    if kind == 'series':
        return Pseries(vs[1], vs[2], vs[3])
    if kind == 'key':
        from sc3.seq.patterns.eventpatterns import Pkey
        _, name, length, mul, add = vs
        pk = Pkey(name) if length is None else Pkey(name, length)
        if mul != 1:
            pk = pk * mul
        if add != 0:
            pk = pk + add
        return pk
    raise ValueError(vs)


def to_pattern(p, shared=None, built=None):
    """shared: name -> spec of pattern objects that are used at several
    places (['use', name]); built: memo, so that every use is the SAME
    object."""
    from sc3.seq.patterns.eventpatterns import Pbind, Pmono, Ppar, Pchain
    from sc3.seq.patterns.filterpatterns import Pdur, Pdelta, Pn
    from sc3.seq.patterns.listpatterns import Pseq
    built = {} if built is None else built
    rec = lambda c: to_pattern(c, shared, built)
    kind = p[0]
    if kind == 'use':
        if p[1] not in built:
            built[p[1]] = rec(shared[p[1]])
        return built[p[1]]
    if kind == 'pseq':
        return Pseq([rec(c) for c in p[1]])
    if kind == 'pn':
        return Pn(rec(p[2]), p[1])
    # (a key set of the spec is a tuple key of the real mapping)
    real = lambda m: {(tuple(me.keyset_names(k)) if me.is_keyset(k) else k):
                      to_valpattern(v) for k, v in m.items()}
    if kind == 'pbind':
        return Pbind(real(p[1]))
    if kind == 'pmono':
        return Pmono(p[1], real(p[2]))
    if kind == 'pmono_artic':
        return Pmono(p[1], real(p[2]), articulate=True)
    if kind == 'ppar':
        return Ppar(*[rec(c) for c in p[1]])
    if kind == 'pchain':
        how = p[3] if len(p) > 3 else 'ctor'
        if how in ('flat', 'flat-chain') and p[2][0] == 'pchain' \
                and (len(p[2]) == 3 or p[2][3] == 'ctor'):
            a, b1, b2 = rec(p[1]), rec(p[2][1]), rec(p[2][2])
            return Pchain(a, b1, b2) if how == 'flat' else \
                Pchain(a, b1).chain(b2)
        if how in ('chain', 'flat-chain'):
            return Pchain(rec(p[1])).chain(rec(p[2]))
        return Pchain(rec(p[1]), rec(p[2]))
    if kind == 'pevent':
        from sc3.seq.patterns.eventpatterns import Pevent
        from sc3.seq.event import event
        d = to_event_dict(p[1])
        return Pevent(rec(p[2]), event(d) if p[3] == 'event' else d)
    if kind == 'pdur':
        return Pdur(p[1], rec(p[2]))
    if kind == 'pdelta':
        return Pdelta(p[1], rec(p[2]))
    raise ValueError(p)


class Capture:
    """What one case produced: decoded raw score, list score, elapsed time,
    exceptions raised synchronously (`raised`) or inside scheduled tasks
    (`task_errors`)."""

    def __init__(self):
        self.raw = []          # [(seconds, Msg)]
        self.lst = []          # [(seconds, list)]
        self.elapsed = None
        self.raised = None
        self.task_errors = []
        self.decode_error = None
        self.extra = {}


def _bounded(main, limit, cap):
    """Context for main.process(): the NRT scheduler gives up when its next
    wake-up lies beyond `limit` seconds (a stream that never ends - e.g. a
    Pbind that has lost the column that ends it - would otherwise run until
    the shard is killed).  Observation only: what was scheduled beyond the
    limit is dropped and the case is marked (cap.extra['runaway'])."""
    import contextlib

    @contextlib.contextmanager
    def ctx():
        q = patched = None
        try:
            sched = main._clock_scheduler
            q = sched.queue
            plain = q.empty

            def empty():
                if plain():
                    return True
                try:
                    t = q.peek()[0]
                except KeyError:
                    return plain()
                if t > limit:
                    cap.extra['runaway'] = t
                    sched.reset()
                    return True
                return False
            q.empty = patched = empty
        except Exception:       # noqa: another scheduler: unbounded as before
            patched = None
        try:
            yield
        finally:
            if patched is not None:
                try:
                    del q.empty
                except Exception:       # noqa
                    pass
    return ctx()


def collect(cap, limit=None):
    """main.process() -> decoded bundles; always resets afterwards.  limit:
    latest time (seconds) a wake-up of the case can lie at."""
    from sc3.base.main import main
    import contextlib
    try:
        try:
            with (_bounded(main, limit, cap) if limit is not None
                  else contextlib.nullcontext()):
                sc = main.process()
        except Exception as e:      # noqa: a verdict, not a harness failure
            cap.raised = cap.raised or e
            cap.extra['raised_in'] = 'main.process'
            return
        cap.elapsed = main.elapsed_time()
        raw = bytes(sc.raw)
        i = 0
        try:
            while i < len(raw):
                n = int.from_bytes(raw[i:i + 4], 'big')
                i += 4
                b = osc.decode(raw[i:i + n])
                i += n
                if not isinstance(b, osc.Bundle):
                    raise osc.OscError('score element is not a bundle')
                for m in b.elements:
                    cap.raw.append((b.timetag / TT, m))
        except osc.OscError as e:
            cap.decode_error = str(e)
        for b in sc.list:
            for m in b[1:]:
                cap.lst.append((b[0], m))
    finally:
        cap.task_errors = list(_errors.records)
        _errors.records.clear()
        main.reset()


def run_play_program(prog, groups):
    """Play the events of a program; returns (Capture, [logical play time])."""
    from sc3.base.main import main
    from sc3.base.play import play
    from sc3.base.stream import Routine
    from sc3.base.clock import SystemClock, TempoClock
    from sc3.synth.server import Server
    from sc3.seq.event import event
    cap = Capture()
    times = []
    s = Server.default
    old = s.latency
    s.latency = prog['latency']

    objs = {}

    def one(step):
        how = step['how']
        if how == 'object':
            # history on one event object: create / edit in place / copy + edit
            k = step['obj']
            if step['op'] == 'new':
                objs[k] = event(to_event_dict(step['event'], groups))
            else:
                if step['op'] == 'copy':
                    objs[k] = derive(objs[step['src']],
                                     step.get('copy_how', 'copy'), None)
                e = objs[k]
                if step.get('peek'):
                    # look-ups before the edit (values not compared here: the
                    # previous play was)
                    for key in PEEK_KEYS:
                        try:
                            e(key)
                        except Exception:       # noqa
                            if not prog.get('fault'):
                                raise
                            # (the object may be broken at this point)
                mut = step.get('mut', 'update/pop')
                if mut == 'clear-update':
                    apply_mutation(e, {'m': mut, 'set': step['event']}, groups)
                else:
                    apply_mutation(e, {'m': mut, 'set': step['set'],
                                       'del': step['del'],
                                       'pop_assigned': True}, groups)
                if step.get('peek_after'):
                    cap.extra.setdefault('peeks', []).append(
                        (len(times) - 1, {key: e(key) for key in PEEK_KEYS}))
            if step.get('fails'):
                # the event has keys play() cannot resolve / encode: whether
                # and where it raises is the library's business; what the
                # OBJECT holds afterwards is recorded for the diagnosis
                info = {'step': len(times) - 1, 'tag': step['event']['tag'],
                        'kinds': step['fails'], 'raised': None,
                        'first_play': not step['prev_tags']}
                try:
                    objs[k].play()
                except Exception as x:      # noqa
                    info['raised'] = type(x).__name__
                    info['phase'] = failure_phase(x)
                info.update(leftover_state(objs[k], step['event']))
                cap.extra.setdefault('faults', []).append(info)
                return
            objs[k].play()
            return
        d = to_event_dict(step['event'], groups)
        if how == 'event.play':
            event(d).play()
        elif how == 'play(dict)':
            play(d)
        elif how == 'play(**kw)':
            play(**d)
        else:
            keys = sorted(d)
            half = {k: d[k] for k in keys[::2]}
            rest = {k: d[k] for k in keys[1::2]}
            play(half, **rest)

    try:
        if prog['where'] == 'main':
            for step in prog['steps']:
                times.append(0.0)
                try:
                    one(step)
                except Exception as e:      # noqa
                    cap.raised = e
                    break
        else:
            t = [0.0]

            def body():
                for step in prog['steps']:
                    yield step['wait']
                    t[0] = t[0] + step['wait']
                    times.append(t[0])
                    one(step)
            clock = SystemClock if prog['where'] == 'routine-system' \
                else TempoClock(1)
            Routine(body).play(clock)
        collect(cap)
    finally:
        s.latency = old
    return cap, times


def run_timeline_case(case):
    from sc3.base.main import main  # noqa
    from sc3.base.stream import Routine
    from sc3.base.clock import SystemClock, TempoClock
    from sc3.synth.server import Server
    from sc3.seq.event import event
    cap = Capture()
    s = Server.default
    old = s.latency
    s.latency = case['latency']
    pat = to_pattern(case['pattern'], case.get('shared'))
    proto = event({'c14proto': 1}) if case['proto'] == 'event' else None
    if case['proto'] == 'event-rest':
        from sc3.seq.event import Rest
        proto = event({'c14proto': 1, 'c14quiet': Rest(0.5)})
    limit = _case_limit(case)
    if case.get('plays'):
        try:
            _run_plays(case, pat, proto)
            collect(cap, limit)
        finally:
            s.latency = old
        return cap, 0.0

    def clock_of():
        c = case['clock']
        return None if c == 'default' else SystemClock if c == 'system' \
            else TempoClock(1)
    try:
        if case['where'] == 'main':
            start = 0.0
            try:
                pat.play(clock_of(), 0, proto=proto)
            except Exception as e:      # noqa
                cap.raised = e
        else:
            start = case['start']

            def body():
                yield start
                pat.play(clock_of(), 0, proto=proto)
            Routine(body).play(SystemClock if case['where'] == 'routine-system'
                               else TempoClock(1))
        collect(cap, limit)
    finally:
        s.latency = old
    return cap, start


def _case_limit(case):
    """Twice the time the model gives the case, plus a minute."""
    try:
        if case.get('form') in ('control', 'mono-control'):
            tl = me.timeline(case['pattern'])
            last = max([case['at']] + [a['at'] for a in case['controls']])
            return 2 * (last + tl.total) + 60
        if case.get('form') == 'pattern-fault':
            return 2 * max(pl['at'] + me.timeline(
                case['shared'][pl['use']]).total for pl in case['plays']) + 60
        tl = me.timeline(me.expand(case['pattern'], case.get('shared') or {}))
        last = max([case.get('start', 0)] + [
            max(pl['at'], pl.get('stop') or 0) for pl in case.get('plays', [])])
        return 2 * (last + tl.total) + 60
    except Exception:       # noqa
        return 600.0


def _run_plays(case, pat, proto):
    """The same pattern object played several times (one EventStreamPlayer
    per play), some players stopped mid-way, all driven from one routine on
    SystemClock.  plays: [{'at': t, 'stop': t2 | None}] (absolute seconds)."""
    from sc3.base.stream import Routine
    from sc3.base.clock import SystemClock, TempoClock
    actions = []
    # (one player restarted: its stop comes before the restart that happens
    # at the same time; separate players: the new one starts first)
    same = case.get('restart', 'new-player') != 'new-player'
    for i, pl in enumerate(case['plays']):
        actions.append((pl['at'], 1 if same else 0, 'play', i))
        if pl.get('stop') is not None:
            actions.append((pl['stop'], 0 if same else 1, 'stop', i))
    actions.sort()
    players, clocks = {}, {}

    def body():
        now = 0.0
        for t, _, what, i in actions:
            if t > now:
                yield t - now
                now = t
            if what == 'play':
                c = case['clock']
                clock = None if c == 'default' else SystemClock \
                    if c == 'system' else TempoClock(1)
                how = case.get('restart', 'new-player')
                if i == 0 or how == 'new-player':
                    clocks[i] = clock
                    players[i] = pat.play(clock, 0, proto=proto)
                    continue
                # the SAME player is started again (it was stopped before),
                # on the clock it played on (another clock object is another
                # matter: the wake-up that was pending on the old clock when
                # the player was stopped is the clocks' business)
                players[i] = pl = players[0]
                clock = clocks.setdefault(0, clock)
                if how == 'reset-play':
                    pl.reset()
                    pl.play(clock, 0)
                else:
                    pl.play(clock, 0, reset=True)
            else:
                players[i].stop()
    Routine(body).play(SystemClock)


def _clock_for(name):
    from sc3.base.clock import SystemClock, TempoClock
    return None if name == 'default' else SystemClock if name == 'system' \
        else TempoClock(1)


def _proto_for(case):
    from sc3.seq.event import event
    return event({'c14proto': 1}) if case['proto'] == 'event' else None


def run_control_case(case):
    """One player under a history of control calls (all from one routine on
    SystemClock, at the times of the case)."""
    from sc3.base.stream import Routine
    from sc3.base.clock import SystemClock
    from sc3.synth.server import Server
    cap = Capture()
    s = Server.default
    old = s.latency
    s.latency = case['latency']
    f = case.get('fault')
    column = good = None
    if f:
        # the failing element: cell `row` of a plain Pseq column of the mono
        # leaf, repaired in place (the list of the Pseq object) before call
        # number `repair_before`
        import copy
        from sc3.seq.patterns.listpatterns import Pseq
        spec = copy.deepcopy(case['pattern'])
        leaf = _fault_leaf(spec, f)
        cells = leaf[2][f['key']][1]
        good = to_value(cells[f['row']])
        column = Pseq([to_value(v) for v in cells])
        column.lst[f['row']] = to_value(f['bad'])
        leaf[2][f['key']] = ['use-column']
        _columns['column'] = column
        pat = to_pattern(spec, case.get('shared'))
    else:
        pat = to_pattern(case['pattern'], case.get('shared'))
    proto = _proto_for(case)
    errors = []

    def body():
        now = 0.0
        if case['at'] > 0:
            yield case['at']
            now = case['at']
        clock = _clock_for(case['clock'])
        pl = pat.play(clock, 0, proto=proto)
        for j, a in enumerate(case['controls']):
            yield a['at'] - now
            now = a['at']
            do = a['do']
            if f and case.get('repair_before') == j:
                column.lst[f['row']] = good
            try:
                # (quant 0 as in every case: the default grid of a tempo
                # clock is kept out)
                if do == 'reset-play':
                    pl.reset()
                    pl.play(clock, 0)
                elif do == 'play-reset':
                    pl.play(clock, 0, reset=True)
                elif do == 'play':
                    pl.play(clock, 0)
                elif do == 'resume':
                    pl.resume(None if a.get('own_clock', True) else clock, 0)
                else:
                    getattr(pl, do)()       # mute unmute pause resume reset stop
            except Exception as e:      # noqa
                errors.append((do, e))
                return
    try:
        Routine(body).play(SystemClock)
        collect(cap, _case_limit(case))
        if errors and cap.raised is None:
            cap.raised = errors[0][1]
            cap.extra['raised_in'] = errors[0][0]
    finally:
        s.latency = old
    return cap


def _holds_tag(p, tag):
    if p[0] in ('pbind',):
        return tag in (me.values(p[1].get('tag')) or [])
    if p[0] in ('pmono', 'pmono_artic'):
        return tag in (me.values(p[2].get('tag')) or [])
    if p[0] in ('pseq', 'ppar'):
        return any(_holds_tag(c, tag) for c in p[1])
    return _holds_tag(p[2], tag)


def _fault_leaf(p, f):
    """The mono leaf of pattern spec `p` that holds the failing cell."""
    while p[0] not in ('pmono', 'pmono_artic') or f['key'] not in p[2] \
            or f['tag'] not in (me.values(p[2]['tag']) or []):
        if p[0] in ('pseq', 'ppar'):
            p = next(c for c in p[1] if _holds_tag(c, f['tag']))
        else:
            p = p[2]
    return p


def run_pattern_fault_case(case):
    """Several players over two pattern objects (x: one of its events fails
    when it is played; y: sound) and one prototype event object."""
    import copy
    from sc3.base.stream import Routine
    from sc3.base.clock import SystemClock
    from sc3.synth.server import Server
    cap = Capture()
    s = Server.default
    old = s.latency
    s.latency = case['latency']
    shared = copy.deepcopy(case['shared'])
    f = case['fault']
    leaf = shared['x']
    while leaf[0] != 'pbind':
        leaf = leaf[2]
    leaf[1][f['key']][1][f['row']] = f['bad']
    built = {}
    pats = {k: to_pattern(['use', k], shared, built) for k in ('x', 'y')}
    proto = _proto_for(case)
    clock_name = case['clock']

    def body():
        now = 0.0
        clock = _clock_for(clock_name)
        for pl in case['plays']:
            if pl['at'] > now:
                yield pl['at'] - now
                now = pl['at']
            pats[pl['use']].play(clock, 0, proto=proto)
    try:
        Routine(body).play(SystemClock)
        collect(cap, _case_limit(case))
    finally:
        s.latency = old
    return cap


# ------------------------------------------------------------------ expectations

class Expect:
    """Expected traffic of one case."""

    def __init__(self):
        self.notes = []      # dict(tag, time, inst, action, group, ev, res,
                             #      gate_time|None, kind)
        self.sets = []       # dict(tag, time, mono, ev, res)
        self.releases = []   # dict(mono, time, exact)
        self.rests = 0
        self.rest_classes = {}      # class of key holding a Rest -> rests
        self.odd_rests = []         # times of rests by a Rest in another key
        self.odd_rest_tags = set()
        self.delta_only_rest_tags = set()
        self.rest_tags = set()
        self.group_id = None
        self.total = None    # expected elapsed time (None: not asserted)
        self.fault_tags = set()     # tags of plays of broken events: their
        self.fault_untagged = []    # own traffic is not decided (times of
        #                             those on an undescribed instrument)
        self.muted_tags = set()     # events a muted player must not send


def expect_note(ev, t, latency, info, groups, kind='note', mono=None):
    ev = me.effective(ev)       # function valued keys: what they return
    res = me.resolve(ev)
    inst = mono[1] if mono else ev.get('instrument', 'default')
    # a definition the library has no description of: Event help - the
    # default parameters freq, amp, pan, out are sent and a gate is assumed
    ii = info.get(inst) or {'controls': None, 'gate': None, 'variants': False}
    name = inst
    if ev.get('variant') is not None and ii['variants']:
        name = f"{inst}.{ev['variant']}"
    grp = ev.get('group', 1)
    if grp == 'groupobj':
        grp = groups['id']
    return {
        'tag': ev['tag'], 'time': t + latency, 'inst': name, 'desc': ii,
        'action': me.ADD_ACTIONS[ev.get('add_action', 'addToHead')],
        'group': grp, 'ev': ev, 'res': res, 'kind': kind,
        'mono': mono[0] if mono else None,
        'gate_time': (t + latency + res.sustain
                      if ii['gate'] is not False and kind == 'note'
                      and res.sustain != me.INF else None),
        'gate_optional': ii['gate'] is None,
    }


def expect_program(prog, times, info, groups):
    ex = Expect()
    ex.group_id = groups['id']
    for step, t in zip(prog['steps'], times):
        if step.get('fails'):
            # a play of an event with keys the library cannot resolve or
            # encode: what it sends (nothing, the /s_new without the gate-off
            # ...) is not decided
            ex.fault_tags.add(step['event']['tag'])
            if step['event'].get('instrument') not in info:
                ex.fault_untagged.append(t + prog['latency'])
            continue
        n = expect_note(step['event'], t, prog['latency'], info, groups)
        n['prev_tags'] = step.get('prev_tags', [])
        n['op'] = step.get('op')
        n['after_fault'] = step.get('after_fault', [])
        ex.notes.append(n)
    return ex


def case_timelines(case, start):
    """[(start time, Timeline)] of a case, and the expected time of the last
    wake-up (None: not asserted)."""
    pat = me.expand(case['pattern'], case.get('shared') or {})
    if not case.get('plays'):
        tl = me.timeline(pat)
        return [(start, tl)], (start + tl.total, None)
    out, total, upper = [], 0.0, 0.0
    for pl in case['plays']:
        tl = me.timeline(pat)
        if pl.get('stop') is not None:
            tl = me.stopped(tl, pl['stop'] - pl['at'])
            # the player ran until the stop (the stopping routine woke then);
            # the wake-up that was pending may still happen, not later than
            # the next element of the stopped player
            total = max(total, pl['stop'])
            upper = max(upper, pl['stop'], pl['at'] + (tl.pending_wake or 0))
        else:
            total = max(total, pl['at'] + tl.total)
        out.append((pl['at'], tl))
    upper = max(upper, total)
    return out, (total, upper if upper > total else None)


def expect_timeline(case, start, info, groups):
    tls, total = case_timelines(case, start)
    ex = Expect()
    ex.group_id = groups['id']
    L = case['latency']
    ex.flags = set()
    for st, tl in tls:
        ex.flags |= tl.flags
        first = len(ex.notes)
        for onset, e in tl.items:
            if e.rest or case.get('proto') == 'event-rest':
                ex.rests += 1
                for c in me.rest_key_classes(e.keys):
                    ex.rest_classes[c] = ex.rest_classes.get(c, 0) + 1
                if e.kind != 'silent' and e.keys.get('type') != 'rest' \
                        and 'tag' in e.keys and {
                            k for k, v in e.keys.items()
                            if k != 'scale' and me.is_rest_value(v)} == {'delta'}:
                    # a rest only by the Rest object in its delta
                    ex.delta_only_rest_tags.add(e.keys['tag'])
                # (delta apart: a Pdur cut rewrites it, keeping the Rest)
                if e.kind != 'silent' and e.keys.get('type') != 'rest' \
                        and 'dur-or-pitch-source' not in me.rest_key_classes(
                            {k: v for k, v in e.keys.items() if k != 'delta'}):
                    # a rest only by a Rest object outside the duration and
                    # pitch source keys
                    ex.odd_rests.append(st + onset)
                    if 'tag' in e.keys:
                        ex.odd_rest_tags.add(e.keys['tag'])
                if 'tag' in e.keys:
                    ex.rest_tags.add(e.keys['tag'])
                continue
            if e.kind == 'mono_set':
                ex.sets.append({'tag': e.keys['tag'], 'time': st + onset + L,
                                'mono': e.mono[0], 'ev': e.keys,
                                'res': me.resolve(e.keys),
                                'desc': info[e.mono[1]]})
            else:
                ex.notes.append(expect_note(e.keys, st + onset, L, info,
                                            groups, e.kind, e.mono))
        monos = {n['mono'] for n in ex.notes[first:] if n['mono'] is not None}
        for t, m, exact in tl.releases:
            if m in monos:
                ex.releases.append({'mono': m, 'time': st + t + L,
                                    'exact': exact})
    ex.total, ex.total_upper = total
    ex.tl = tls[0][1]
    ex.tls = tls
    return ex


def expect_control(case, info, groups):
    """Expectation of a player-control case, or None (an action at a
    wake-up: not decided).  Mono lines (form mono-control): every run of the
    stream has voices of its own - (run, voice) - each created by one /s_new,
    set by its line's later events and released exactly once
    (me.controlled_voices).  A failing element (case['dies']): its own
    traffic, and whatever carries a tag of the elements after it until the
    player is started again, is not decided."""
    tl = me.timeline(case['pattern'])
    dies = case.get('dies')
    c = me.controlled(tl, case['at'], case['controls'], dies=dies)
    if c is None:
        return None
    ex = Expect()
    ex.group_id = groups['id']
    ex.flags = set()
    ex.control = c
    ex.muted = 0
    L = case['latency']
    marks = c.marks if len(c.marks) == len(c.plays) else \
        [(0, None)] * len(c.plays)
    for (t, e, muted), (run, _idx) in zip(c.plays, marks):
        if e.rest:
            ex.rests += 1
            if 'tag' in e.keys:
                ex.rest_tags.add(e.keys['tag'])
            continue
        if muted:
            ex.muted += 1
            ex.muted_tags.add(e.keys['tag'])
            continue
        mono = ((run, e.mono[0]), e.mono[1]) if e.mono else None
        if e.kind == 'mono_set':
            ex.sets.append({'tag': e.keys['tag'], 'time': t + L,
                            'mono': mono[0], 'ev': e.keys,
                            'res': me.resolve(e.keys),
                            'desc': info[mono[1]]})
        else:
            ex.notes.append(expect_note(e.keys, t, L, info, groups, e.kind,
                                        mono))
    ex.voices = []
    if any(e.mono for _, e in tl.items):
        ex.voices = me.controlled_voices(tl, c)
        for run, mid, t, exact, by in ex.voices:
            ex.releases.append({'mono': (run, mid), 'time': t + L,
                                'exact': exact, 'by': by,
                                'optional': by.startswith('nothing-')})
    if dies and c.deaths:
        els = [e for _, e in tl.items]
        later = {e.keys['tag'] for e in els[dies['idx']:] if 'tag' in e.keys}
        restarts = sorted(a['at'] for a in case['controls']
                          if a['do'] in ('reset-play', 'play-reset'))
        ex.tolerate = []
        for run, td in c.deaths.items():
            hi = next((t for t in restarts if t > td), me.INF)
            ex.tolerate.append((later, td + L, hi + L))
        # the failing element is the one that creates its node: the library
        # may have registered the release of a node it never created
        f = els[dies['idx']]
        # (one per run that died of it)
        ex.orphan_releases_tolerated = len(c.deaths) \
            if f.kind == 'mono_on' else 0
    ex.total, ex.total_upper = c.last, None
    return ex


def expect_pattern_fault(case, info, groups):
    """The failing pattern's players: the events before the failing one; from
    the failing event on nothing is decided (tags tolerated, end of the player
    between the failure and the end of the pattern).  All other players: as
    usual."""
    ex = Expect()
    ex.group_id = groups['id']
    ex.flags = set()
    L = case['latency']
    ftags = set(case['fault']['tags'])
    ex.fault_tags_any = ftags
    lo = hi = 0.0
    ex.failing_players = 0
    for pl in case['plays']:
        tl = me.timeline(case['shared'][pl['use']])
        end = pl['at'] + tl.total
        first = len(ex.notes)
        for onset, e in tl.items:
            if e.keys.get('tag') in ftags and pl['use'] == 'x':
                if e.keys['tag'] == case['fault']['tags'][0]:
                    ex.failing_players += 1
                    lo = max(lo, pl['at'] + onset)
                    hi = max(hi, end)
                    end = None
                continue
            if e.rest:
                ex.rests += 1
                if 'tag' in e.keys:
                    ex.rest_tags.add(e.keys['tag'])
                continue
            if e.kind == 'mono_set':
                ex.sets.append({'tag': e.keys['tag'],
                                'time': pl['at'] + onset + L,
                                'mono': e.mono[0], 'ev': e.keys,
                                'res': me.resolve(e.keys),
                                'desc': info[e.mono[1]]})
            else:
                ex.notes.append(expect_note(e.keys, pl['at'] + onset, L, info,
                                            groups, e.kind, e.mono))
        monos = {n['mono'] for n in ex.notes[first:] if n['mono'] is not None}
        for t, m_, exact in tl.releases:
            if m_ in monos:
                ex.releases.append({'mono': m_, 'time': pl['at'] + t + L,
                                    'exact': exact})
        if end is not None:
            lo, hi = max(lo, end), max(hi, end)
        lo, hi = max(lo, pl['at']), max(hi, pl['at'])
    ex.total, ex.total_upper = lo, (hi if hi > lo else None)
    return ex


# ------------------------------------------------------------------ comparison

def _pairs(args):
    if len(args) % 2:
        return None
    return list(zip(args[0::2], args[1::2]))


def _name_class(name):
    return name if name in ('freq', 'amp', 'sustain', 'tag', 'gate') else 'other'


def compare(ex, cap, acc, mon, offgrid=False):
    """Returns [(mechanism key suffix, detail dict)] ; counts what was checked
    into acc under monitor prefix `mon`."""
    bad = []
    ttol = (lambda a, b: close(a, b, 1e-9, 2.0 ** -31))
    if cap.decode_error:
        return [('score-not-decodable', {'why': cap.decode_error})]
    if cap.extra.get('runaway'):
        # a player that is still scheduled long after the model's end of the
        # case (the scheduler was cut short there): nothing else is compared
        return [('player-still-running-long-after-its-end',
                 {'next_wake_up_at': cap.extra['runaway'],
                  'expected_total': ex.total})]
    if len(cap.raw) != len(cap.lst):
        return [('raw-and-list-differ', {'raw': len(cap.raw),
                                         'list': len(cap.lst)})]
    rows = []
    for (tr, m), (tl_, l) in zip(cap.raw, cap.lst):
        rows.append({'t': tr, 'tl': float(tl_), 'addr': m.addr, 'args': m.args,
                     'largs': l[1:], 'used': False})
    # bookkeeping traffic of the NRT score itself
    for r in rows:
        if r['addr'] == '/g_new' and r['args'] == [1, 0, 0] and r['t'] == 0:
            r['used'] = True
            break
    for r in rows:
        if r['addr'] == '/c_set' and r['args'] == [0, 0]:
            r['used'] = True
            break
    by_tag = {}
    for r in rows:
        if r['addr'] == '/s_new' and len(r['args']) >= 4:
            pr = _pairs(r['args'][4:])
            if pr:
                for (n, v) in pr:
                    if n == 'tag':
                        by_tag.setdefault(v, []).append(r)
    # events of a player from its failing event on (pattern faults): their
    # /s_new and gate-off traffic is not decided
    for ft in getattr(ex, 'fault_tags_any', ()):
        for r in by_tag.pop(ft, []):
            r['used'] = True
            for g in rows:
                if g['addr'] == '/n_set' and g['args'][:1] == \
                        [r['args'][1]] and g['args'][1:] == ['gate', 0]:
                    g['used'] = True
    # a failing element of a player that is controlled afterwards (mono
    # control): traffic with its tag / the tags after it, inside the window
    # from the failure to the restart of the player, is not decided
    # (not what an element that did play is expected to send then: a line
    # that is repeated carries the same tags again)
    due = [(n['tag'], n['time']) for n in ex.notes] + \
        [(s_['tag'], s_['time']) for s_ in ex.sets]
    for tags_, lo, hi in getattr(ex, 'tolerate', ()):
        for r in rows:
            if r['used'] or not (lo - 1e-9 <= r['t'] < hi - 1e-9):
                continue
            pr = _pairs(r['args'][4:]) if r['addr'] == '/s_new' else \
                _pairs(r['args'][1:]) if r['addr'] == '/n_set' else None
            tg = [v for n_, v in (pr or []) if n_ == 'tag']
            if not tg or tg[0] not in tags_:
                continue
            if any(tg[0] == t_ and ttol(r['t'], when) for t_, when in due):
                continue
            r['used'] = True
            acc.count(f'{mon}_failing_element_sent_traffic')
            if r['addr'] == '/s_new':
                if r in by_tag.get(tg[0], []):
                    by_tag[tg[0]].remove(r)
                for g in rows:
                    if g['addr'] in ('/n_set', '/n_free') and (
                            g['args'] == [r['args'][1], 'gate', 0]
                            or g['args'] == [r['args'][1]]):
                        g['used'] = True
    left = getattr(ex, 'orphan_releases_tolerated', 0)
    if left:
        created = {r['args'][1] for r in rows if r['addr'] == '/s_new'
                   and len(r['args']) > 1}
        for g in rows:
            if left and not g['used'] and g['addr'] in ('/n_set', '/n_free') \
                    and (g['args'][1:] == ['gate', 0] or len(g['args']) == 1) \
                    and g['args'][0] not in created:
                g['used'] = True
                left -= 1
                acc.count(f'{mon}_release_of_a_node_never_created_tolerated')
    # plays of broken events (fault histories): at most one /s_new per such
    # play, and the gate-off of its node, are the failing play's own business
    for ft in ex.fault_tags:
        for r in by_tag.get(ft, [])[:1]:
            r['used'] = r['fault'] = True
            by_tag[ft].remove(r)
            acc.count(f'{mon}_failing_play_sent_s_new')
            for g in rows:
                if g['addr'] == '/n_set' and g['args'][:1] == \
                        [r['args'][1]] and g['args'][1:] == ['gate', 0]:
                    g['used'] = True
    ids = {}
    seen_ids = set()
    # an event object that is played again: when no /s_new carries the tag the
    # event defines now but a second /s_new with a tag of one of its earlier
    # plays exists, the replay sent the controls of an earlier play
    stale = {}
    for n in ex.notes:
        if by_tag.get(n['tag']) or not n.get('prev_tags'):
            continue
        for pt in reversed(n['prev_tags']):
            extra = [r for r in by_tag.get(pt, [])[1:] if not r.get('stale')]
            if extra:
                r = extra[0]
                r['stale'] = r['used'] = True
                stale[n['tag']] = r
                by_tag[pt].remove(r)
                for g in rows:      # its gate-off, if any
                    if g['addr'] == '/n_set' and g['args'][:1] == \
                            [r['args'][1]] and g['args'][1:] == ['gate', 0]:
                        g['used'] = True
                break
    mult = {}
    for n in ex.notes:
        mult[n['tag']] = mult.get(n['tag'], 0) + 1
    for n in ex.notes:
        if n['tag'] in stale:
            r = stale[n['tag']]
            bad.append(('replayed-event-sends-controls-of-earlier-play',
                        {'tag_now': n['tag'], 'op': n.get('op'),
                         'sent': r['args'], 't': r['t']}))
            continue
        cand = by_tag.get(n['tag'], [])
        if n['desc']['controls'] is None:
            # no description, hence no tag control: attributed by the name of
            # the (never described) definition and the time
            cands = [c for c in rows if c['addr'] == '/s_new'
                     and not c['used'] and c['args'][:1] == [n['inst']]
                     and ttol(c['t'], n['time'])]
            # (several at one time: the one that carries this event's values)
            def fits(c):
                if c['args'][2:4] != [n['action'], n['group']]:
                    return False
                if _compare_controls(n, c['args'][4:], c['largs'][4:],
                                     _NoCount(), mon, 's_new'):
                    return False
                offs = [g for g in rows if g['addr'] == '/n_set'
                        and g['args'] == [c['args'][1], 'gate', 0]]
                return not (offs and n['gate_time'] is not None
                            and not ttol(offs[0]['t'], n['gate_time']))
            r = next((c for c in cands if fits(c)),
                     cands[0] if cands else None)
            if r is None:
                bad.append(('missing-s_new/undescribed-instrument',
                            {'tag': n['tag'], 'expected_at': n['time']}))
                continue
            r['used'] = True
        elif mult[n['tag']] > 1:
            # the same event of the same pattern object in several embeddings:
            # equal expectations except for the time, so match by time
            r = next((c for c in cand if not c['used']
                      and ttol(c['t'], n['time'])), None)
            if r is None:
                bad.append((f"missing-s_new/{n['kind']}/repeated-embedding",
                            {'tag': n['tag'], 'expected_at': n['time'],
                             'sent_at': [c['t'] for c in cand]}))
                continue
            r['used'] = True
            acc.count(f'{mon}_repeated_embedding_s_new_checked')
        else:
            if not cand:
                bad.append((f"missing-s_new/{n['kind']}", {'tag': n['tag']}))
                continue
            if len(cand) > 1:
                bad.append((f"duplicate-s_new/{n['kind']}", {'tag': n['tag']}))
            r = cand[0]
            for c in cand:
                c['used'] = True
        if n.get('prev_tags'):
            acc.count(f"{mon}_replay_s_new_checked")
            acc.count(f"{mon}_replay_{n.get('op')}")
        acc.count(f'{mon}_s_new_checked')
        a = r['args']
        if not (ttol(r['t'], n['time']) and ttol(r['tl'], n['time'])):
            bad.append((f"time/s_new/{n['kind']}",
                        {'tag': n['tag'], 'got': [r['t'], r['tl']],
                         'expected': n['time']}))
        if a[0] != n['inst']:
            bad.append(('instrument-name', {'got': a[0], 'expected': n['inst']}))
        nid = a[1]
        if not isinstance(nid, int) or nid in (0, 1) or nid < 0 \
                or nid in seen_ids or nid == ex.group_id:
            bad.append(('node-id-not-fresh', {'id': nid}))
        seen_ids.add(nid)
        ids[nid] = n
        n['id'] = nid
        if a[2] != n['action']:
            bad.append(('add-action', {'got': a[2], 'expected': n['action'],
                                       'key': n['ev'].get('add_action')}))
        if a[3] != n['group']:
            bad.append(('target-group', {'got': a[3], 'expected': n['group']}))
        bad += _compare_controls(n, a[4:], r['largs'][4:], acc, mon, 's_new')
    # plays of broken events on an instrument without description (no tag):
    # one /s_new at the time of the play, and its gate-off
    for ft in ex.fault_untagged:
        for r in rows:
            if r['addr'] == '/s_new' and not r['used'] and ttol(r['t'], ft) \
                    and 'tag' not in r['args'][4::2]:
                r['used'] = True
                acc.count(f'{mon}_failing_play_sent_s_new')
                for g in rows:
                    if g['addr'] == '/n_set' and g['args'][:1] == \
                            [r['args'][1]] and g['args'][1:] == ['gate', 0]:
                        g['used'] = True
                break
    # gate-off / release / n_set traffic
    monos = {n['mono']: n for n in ex.notes if n['mono'] is not None}
    for n in ex.notes:
        if 'id' not in n:
            continue
        offs = [r for r in rows if r['addr'] == '/n_set' and not r['used']
                and r['args'][:1] == [n['id']]
                and r['args'][1:] == ['gate', 0]]
        if n['kind'] == 'note':
            if n.get('gate_optional') and not offs:
                acc.count(f'{mon}_nodesc_checked')
                continue
            if n['gate_time'] is None:
                if offs:
                    for r in offs:
                        r['used'] = True
                    bad.append(('gate-off-for-gateless-instrument',
                                {'tag': n['tag']}))
                acc.count(f'{mon}_no_gate_checked')
                continue
            acc.count(f'{mon}_gate_off_checked')
            if not offs:
                bad.append(('gate-off-missing', {'tag': n['tag']}))
                continue
            if len(offs) > 1:
                bad.append(('gate-off-duplicated', {'tag': n['tag']}))
            for r in offs:
                r['used'] = True
            r = offs[0]
            tol = (lambda a, b: close(a, b, 1e-9, 2.0 ** -31))
            if not (tol(r['t'], n['gate_time']) and tol(r['tl'], n['gate_time'])):
                bad.append(('time/gate-off',
                            {'tag': n['tag'], 'got': [r['t'], r['tl']],
                             'expected': n['gate_time'],
                             's_new_at': n['time'],
                             'sustain': n['res'].sustain}))
    for s in ex.sets:
        on = monos.get(s['mono'])
        if on is None or 'id' not in on:
            continue
        cand = [r for r in rows if r['addr'] == '/n_set' and not r['used']
                and r['args'][:1] == [on['id']]
                and ('tag', s['tag']) in (_pairs(r['args'][1:]) or [])]
        if not cand:
            bad.append(('missing-n_set/mono', {'tag': s['tag']}))
            continue
        if len(cand) > 1:
            bad.append(('duplicate-n_set/mono', {'tag': s['tag']}))
        for r in cand:
            r['used'] = True
        r = cand[0]
        acc.count(f'{mon}_mono_set_checked')
        if not (ttol(r['t'], s['time']) and ttol(r['tl'], s['time'])):
            bad.append(('time/n_set/mono', {'tag': s['tag'], 'got': r['t'],
                                            'expected': s['time']}))
        bad += _compare_controls(s, r['args'][1:], r['largs'][1:], acc, mon,
                                 'n_set')
    for rel in ex.releases:
        on = monos.get(rel['mono'])
        if on is None or 'id' not in on:
            continue
        if on['desc']['gate']:
            cand = [r for r in rows if r['addr'] == '/n_set' and not r['used']
                    and r['args'] == [on['id'], 'gate', 0]]
        else:
            cand = [r for r in rows if r['addr'] == '/n_free' and not r['used']
                    and r['args'] == [on['id']]]
        acc.count(f'{mon}_mono_release_checked')
        if not cand and rel.get('optional'):
            continue
        if not cand:
            bad.append(('mono-release-missing', {'tag': on['tag']}))
            continue
        if len(cand) > 1:
            bad.append(('mono-release-duplicated',
                        {'tag': on['tag'], 'node': on['id'],
                         'released_at': [r['t'] for r in cand]}))
        for r in cand:
            r['used'] = True
        r = cand[0]
        if rel['exact']:
            if not ttol(r['t'], rel['time']):
                bad.append(('time/mono-release', {'got': r['t'],
                                                  'expected': rel['time']}))
        elif r['t'] < rel['time'] - 1e-9:
            bad.append(('time/mono-release-early', {'got': r['t'],
                                                    'not_before': rel['time']}))
    for r in rows:
        if not r['used']:
            tags = [v for n_, v in (_pairs(r['args'][4:]) or [])
                    if n_ == 'tag'] if r['addr'] == '/s_new' else []
            if tags and mult.get(tags[0], 0) > 1:
                bad.append(('extra-s_new/repeated-embedding',
                            {'t': r['t'], 'tag': tags[0],
                             'expected_times': [n['time'] for n in ex.notes
                                                if n['tag'] == tags[0]]}))
            elif not tags and r['addr'] == '/n_set' and any(
                    n_ == 'tag' and v in ex.rest_tags
                    for n_, v in (_pairs(r['args'][1:]) or [])):
                # a rest of a mono line set its values
                bad.append(('rest-sent-traffic', {
                    't': r['t'], 'args': r['args'],
                    'tag': dict(_pairs(r['args'][1:]))['tag']}))
            elif tags and tags[0] in ex.muted_tags and not mult.get(tags[0]):
                bad.append(('muted-player-sent-traffic',
                            {'t': r['t'], 'tag': tags[0], 'args': r['args']}))
            elif tags and tags[0] in ex.rest_tags:
                bad.append(('rest-sent-traffic', {'t': r['t'], 'tag': tags[0],
                                                  'args': r['args']}))
            else:
                bad.append((f"unexpected-traffic{r['addr']}",
                            {'t': r['t'], 'args': r['args']}))
    if ex.total is not None:
        acc.count(f'{mon}_total_duration_checked')
        upper = getattr(ex, 'total_upper', None)
        if upper is not None:
            # stopped players: their pending wake-up may still advance time
            acc.count(f'{mon}_total_duration_bounded')
            if not (ex.total - 1e-9 <= cap.elapsed <= upper + 1e-9):
                bad.append(('total-duration', {'got': cap.elapsed,
                                               'expected': [ex.total, upper]}))
        elif not close(cap.elapsed, ex.total, 1e-9, 1e-9):
            bad.append(('total-duration', {'got': cap.elapsed,
                                           'expected': ex.total}))
    return bad


class _NoCount:
    def count(self, *a, **k):
        pass


def mon_name(mon):
    return {'tl': 'timeline'}.get(mon, mon)


def _pitch_class(res, ev):
    """Input classes of the pitch chain that get one key each, whichever
    monitor or look-up meets them."""
    if 'freq' in ev or 'midinote' in ev or 'note' in ev:
        return None
    d = me.num(ev.get('degree', 0)) + me.num(ev.get('mtranspose', 0))
    if d != int(d):
        return 'fractional-degree-accidental'
    if me.num(ev.get('ctranspose', 0)) != 0:
        return 'ctranspose-with-degree-source'
    return None


def pitch_key(prefix, key, res, ev):
    """Mechanism key of a pitch difference.  With an explicit scale object the
    key is the tuning kind only (whatever monitor, source key or look-up met
    it: these are defects of the scale/tuning handling); otherwise monitor,
    looked-up key and source key."""
    cls = _pitch_class(res, ev)
    if cls:
        return f'C14/pitch-differs/{cls}'
    kind = (ev.get('scale') or {}).get('kind')
    if kind is not None and res.pitch_source in ('degree', 'note', 'default'):
        return f'C14/pitch-differs-with-explicit-scale/{kind}'
    return f'C14/{prefix}/{key}/from-{res.pitch_source}'


def ignored_pitch_key(ev, attr, got):
    """Round 10 diagnosis for events whose pitch keys are a minimal key set
    (one to three input keys of the chain): the input key without which the
    MODEL gives the value the library returned - that key was ignored.
    attr: 'note' | 'midinote' | 'freq' | 'detuned'.  None: no single key."""
    from vf import c14_gen as gen
    given = [k for k in ev if k in gen.PITCH_INPUTS]
    if not 1 <= len(given) <= 3:
        return None
    for k in sorted(given):
        ev2 = {k_: v for k_, v in ev.items() if k_ != k}
        try:
            if close(float(got), float(getattr(me.resolve(ev2), attr))):
                return ('C14/pitch-input-key-ignored/' + k + '/given-'
                        + ('alone' if len(given) == 1 else
                           'with-other-pitch-keys'))
        except Exception:       # noqa
            pass
    return None


def _compare_controls(n, args, largs, acc, mon, what):
    bad = []
    pr = _pairs(args)
    lpr = _pairs(largs)
    if pr is None or lpr is None or len(pr) != len(lpr):
        return [(f'{what}-args-not-pairs', {'args': args})]
    names = [p[0] for p in pr]
    ctl = n['desc']['controls']
    required = ctl
    if ctl is None:     # no description: only the documented default parameters
        ctl, required = ['freq', 'amp', 'pan', 'out'], []
    ev, res = n['ev'], n['res']
    for name in names:
        if names.count(name) > 1:
            bad.append((f'control-duplicated/{what}', {'name': name}))
            break
    for (name, v32), (_, v64) in zip(pr, lpr):
        if name not in ctl:
            bad.append((f'not-a-control-of-the-instrument/{what}',
                        {'name': name, 'controls': ctl}))
            continue
        if name == 'gate':
            bad.append((f'gate-sent/{what}', {'value': v32}))
            continue
        mode, exp = me.control_value(ev, res, name)
        if mode is None:
            bad.append((f'control-without-event-value/{what}', {'name': name}))
            continue
        acc.count(f'{mon}_control_values_checked')
        if mode == 'chain':
            acc.count(f'{mon}_control_from_defaults')
        if isinstance(v32, str) or isinstance(v64, str):
            bad.append((f'control-value-type/{what}', {'name': name}))
            continue
        try:
            float(v64), float(v32)
        except Exception:       # noqa: None, a list ... in a control slot
            bad.append((f'control-value-type/{what}',
                        {'name': name, 'value': repr(v64)}))
            continue
        ok64 = close(float(v64), float(exp))
        ok32 = (v32 == exp or _close32(float(v32), float(exp)))
        if not (ok64 and ok32):
            if name == 'freq' and n.get('prev_tags') and not \
                    _pitch_class(res, ev):
                # an object that was played before: pitch not resolved anew
                key = 'C14/play/replayed-event-pitch-not-resolved-anew'
            elif name == 'freq' and ignored_pitch_key(ev, 'detuned', v64):
                key = ignored_pitch_key(ev, 'detuned', v64)
            elif name == 'freq':
                key = pitch_key(f'{mon_name(mon)}/control-value/{what}', 'freq',
                                res, ev)
            else:
                key = (f'C14/{mon_name(mon)}/control-value/{what}/'
                       f'{_name_class(name)}')
            bad.append((key, {'name': name, 'got_list': v64, 'got_raw': v32,
                              'expected': exp, 'event': ev}))
    for name in required:
        if name in ('gate',):
            continue
        mode, exp = me.control_value(ev, res, name)
        if mode == 'explicit' and name not in names:
            bad.append((f'control-missing/{what}/{_name_class(name)}',
                        {'name': name, 'event': ev, 'sent': names}))
    return bad
